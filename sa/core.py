"""Program model for the static checks of /verif.

Everything here works on source *text*: nothing under /repo is ever imported
or executed.  A :class:`Program` is built from a mapping ``relative path ->
source`` so that the self-test tier can analyse in-memory variants of the
repository without touching the disk.
"""

from __future__ import annotations

import ast
import hashlib
import os
from dataclasses import dataclass, field
from typing import Iterable, Iterator

REPO = os.environ.get('VERIF_REPO', '/repo')
PKG_DIR = 'src/biogeme'
PKG = 'biogeme'

#: files that are not part of the importable package; reason for each
EXCLUDED = {
    'models/models_orig.py': 'legacy copy, imported by no module of the package',
    'tools.py': 'shadowed by the package tools/ (import biogeme.tools resolves to the directory)',
}


class AnalysisError(Exception):
    """The analysis cannot vouch for the tree it is looking at (exit code 2)."""


# --------------------------------------------------------------------------
# helpers on syntax trees



class _Anchors(dict):
    """a table of anchors (methods of a class): a missing one ends the analysis as not-understood, not as a crash of the checker"""

    def __init__(self, kind: str):
        super().__init__()
        self.kind = kind

    def __missing__(self, key):
        raise AnalysisError(f'anchor {self.kind} {key} not found')


def unparse(node: ast.AST | None) -> str:
    return '' if node is None else ast.unparse(node)


def seq(node: ast.AST) -> int:
    """position of a node in the document order of the normalised tree (use it instead of comparing line numbers)"""
    return getattr(node, '_verif_seq', getattr(node, 'lineno', 0) * 100000)


def digest(text: str) -> str:
    return hashlib.sha1(text.encode('utf-8')).hexdigest()[:10]


def strip_docstring(body: list[ast.stmt]) -> list[ast.stmt]:
    if (
        body
        and isinstance(body[0], ast.Expr)
        and isinstance(body[0].value, ast.Constant)
        and isinstance(body[0].value.value, str)
    ):
        return body[1:]
    return body


def dotted(node: ast.AST) -> str | None:
    """'a.b.c' for Name/Attribute chains, else None."""
    parts = []
    while isinstance(node, ast.Attribute):
        parts.append(node.attr)
        node = node.value
    if isinstance(node, ast.Name):
        parts.append(node.id)
        return '.'.join(reversed(parts))
    return None


def walk_no_nested(node: ast.AST) -> Iterator[ast.AST]:
    """ast.walk that does not enter nested function/class definitions
    (the root itself is entered)."""
    todo = list(ast.iter_child_nodes(node))
    yield node
    while todo:
        n = todo.pop()
        yield n
        if isinstance(n, (ast.FunctionDef, ast.AsyncFunctionDef, ast.ClassDef, ast.Lambda)):
            continue
        todo.extend(ast.iter_child_nodes(n))


def names_in(node: ast.AST) -> set[str]:
    return {n.id for n in ast.walk(node) if isinstance(n, ast.Name)}


def calls_in(node: ast.AST) -> list[ast.Call]:
    out = [n for n in ast.walk(node) if isinstance(n, ast.Call)]
    out.sort(key=lambda c: (c.lineno, c.col_offset))
    return out


def call_name(call: ast.Call) -> str | None:
    """last component of the callee: f(...) -> 'f', a.b.f(...) -> 'f'."""
    f = call.func
    if isinstance(f, ast.Name):
        return f.id
    if isinstance(f, ast.Attribute):
        return f.attr
    return None


def kwarg(call: ast.Call, name: str) -> ast.expr | None:
    for k in call.keywords:
        if k.arg == name:
            return k.value
    return None


def arg_of(call: ast.Call, pos: int | None, name: str | None) -> ast.expr | None:
    """Argument given positionally at ``pos`` or by keyword ``name``."""
    if name is not None:
        v = kwarg(call, name)
        if v is not None:
            return v
    if pos is not None and pos < len(call.args) and not any(
        isinstance(a, ast.Starred) for a in call.args[: pos + 1]
    ):
        return call.args[pos]
    return None


def const_value(node: ast.AST | None):
    """Python value of a literal (numbers, strings, unary minus, simple
    arithmetic), else raises ValueError."""
    if node is None:
        raise ValueError('no node')
    if isinstance(node, ast.Constant):
        return node.value
    if isinstance(node, ast.UnaryOp) and isinstance(node.op, (ast.USub, ast.UAdd)):
        v = const_value(node.operand)
        return -v if isinstance(node.op, ast.USub) else v
    if isinstance(node, ast.BinOp):
        l, r = const_value(node.left), const_value(node.right)
        if isinstance(node.op, ast.Add):
            return l + r
        if isinstance(node.op, ast.Sub):
            return l - r
        if isinstance(node.op, ast.Mult):
            return l * r
        if isinstance(node.op, ast.Div):
            return l / r
        if isinstance(node.op, ast.Pow):
            return l**r
    raise ValueError(unparse(node))


# --------------------------------------------------------------------------
# model


@dataclass
class FuncInfo:
    name: str
    qualname: str  # Class.method or function (nested: outer.<locals>.inner)
    module: 'Module'
    node: ast.FunctionDef
    cls: 'ClassInfo | None' = None
    parent: 'FuncInfo | None' = None

    @property
    def file(self) -> str:
        return self.module.path

    @property
    def line(self) -> int:
        return self.node.lineno

    @property
    def body(self) -> list[ast.stmt]:
        return strip_docstring(self.node.body)

    def decorators(self) -> list[str]:
        out = []
        for d in self.node.decorator_list:
            if isinstance(d, ast.Call):
                out.append(dotted(d.func) or unparse(d.func))
            else:
                out.append(dotted(d) or unparse(d))
        return out

    def decorator_call(self, name: str) -> ast.Call | None:
        for d in self.node.decorator_list:
            if isinstance(d, ast.Call) and (dotted(d.func) or '').split('.')[-1] == name:
                return d
        return None

    def params(self) -> list[str]:
        a = self.node.args
        return [x.arg for x in a.posonlyargs + a.args + a.kwonlyargs]

    @property
    def explicit_body(self) -> list[ast.stmt]:
        """the body with conditional values written as if / else and comprehension statements as loops (normal.explicit)"""
        c = getattr(self.node, '_verif_explicit', None)
        if c is None:
            from .normal import explicit

            c = explicit(self.body)
            self.node._verif_explicit = c
        return c

    def positional_params(self) -> list[str]:
        a = self.node.args
        return [x.arg for x in a.posonlyargs + a.args]

    def __repr__(self) -> str:
        return f'<Func {self.module.name}:{self.qualname}>'

    def __hash__(self) -> int:
        return id(self)

    def __eq__(self, other) -> bool:
        return self is other


@dataclass
class ClassInfo:
    name: str
    module: 'Module'
    node: ast.ClassDef
    base_exprs: list[ast.expr] = field(default_factory=list)
    bases: list['ClassInfo | str'] = field(default_factory=list)
    methods: dict[str, FuncInfo] = field(default_factory=lambda: _Anchors('method'))
    #: class-level simple assignments name -> value
    assigns: dict[str, ast.expr] = field(default_factory=dict)
    #: annotated class-level fields in order (dataclass / NamedTuple)
    fields: list[tuple[str, ast.expr | None, ast.expr | None]] = field(default_factory=list)
    _mro: list['ClassInfo'] | None = None

    @property
    def file(self) -> str:
        return self.module.path

    @property
    def line(self) -> int:
        return self.node.lineno

    def mro(self) -> list['ClassInfo']:
        if self._mro is None:
            self._mro = _c3(self)
        return self._mro

    def resolve(self, name: str) -> FuncInfo | None:
        """The function that ``instance.name`` runs."""
        for c in self.mro():
            if name in c.methods:
                return c.methods[name]
        return None

    def owner_of(self, name: str) -> 'ClassInfo | None':
        for c in self.mro():
            if name in c.methods:
                return c
        return None

    def is_subclass_of(self, other: 'ClassInfo | str') -> bool:
        if isinstance(other, str):
            return any(c.name == other for c in self.mro()) or other in self.external_bases()
        return other in self.mro()

    def external_bases(self) -> set[str]:
        out = set()
        for c in self.mro():
            for b in c.bases:
                if isinstance(b, str):
                    out.add(b)
        return out

    def is_abstract(self) -> bool:
        """some resolved member is still decorated @abstractmethod"""
        names = set()
        for c in self.mro():
            names.update(c.methods)
        for n in names:
            f = self.resolve(n)
            if f is not None and any(d.endswith('abstractmethod') for d in f.decorators()):
                return True
        return False

    def __repr__(self) -> str:
        return f'<Class {self.module.name}.{self.name}>'

    def __hash__(self) -> int:
        return id(self)

    def __eq__(self, other) -> bool:
        return self is other


def _c3(cls: ClassInfo) -> list[ClassInfo]:
    seqs = []
    for b in cls.bases:
        if isinstance(b, ClassInfo):
            seqs.append(list(b.mro()))
    seqs.append([b for b in cls.bases if isinstance(b, ClassInfo)])
    out = [cls]
    seqs = [s for s in seqs if s]
    while seqs:
        for s in seqs:
            cand = s[0]
            if not any(cand in t[1:] for t in seqs):
                break
        else:
            raise AnalysisError(f'inconsistent MRO for {cls.name}')
        out.append(cand)
        seqs = [[x for x in s if x is not cand] for s in seqs]
        seqs = [s for s in seqs if s]
    return out


@dataclass
class Module:
    name: str  # biogeme.expressions.base_expressions
    path: str  # src/biogeme/expressions/base_expressions.py
    src: str
    tree: ast.Module
    is_package: bool
    #: local name -> ('module', modname) | ('symbol', modname, symbol)
    imports: dict[str, tuple] = field(default_factory=dict)
    functions: dict[str, FuncInfo] = field(default_factory=dict)
    classes: dict[str, ClassInfo] = field(default_factory=dict)
    #: top-level simple assignments name -> value node
    assigns: dict[str, ast.expr] = field(default_factory=dict)
    all_functions: list[FuncInfo] = field(default_factory=list)

    def package(self) -> str:
        return self.name if self.is_package else self.name.rsplit('.', 1)[0]

    def __repr__(self) -> str:
        return f'<Module {self.name}>'

    def __hash__(self) -> int:
        return id(self)

    def __eq__(self, other) -> bool:
        return self is other


class Program:
    def __init__(self, sources: dict[str, str]):
        """``sources``: path relative to the repository root -> text."""
        self.sources = sources
        self.modules: dict[str, Module] = {}
        self.by_path: dict[str, Module] = {}
        self.parse_errors: list[str] = []
        _set_signatures(sources)
        for path in sorted(sources):
            rel = path[len(PKG_DIR) + 1 :]
            if rel in EXCLUDED:
                continue
            parts = rel[:-3].split('/')
            is_pkg = parts[-1] == '__init__'
            if is_pkg:
                parts = parts[:-1]
            name = '.'.join([PKG] + parts)
            try:
                tree = _parse(path, sources[path])
            except SyntaxError as e:  # a variant that does not compile
                raise AnalysisError(f'{path}: does not parse: {e}')
            m = Module(name, path, sources[path], tree, is_pkg)
            self.modules[name] = m
            self.by_path[path] = m
        for m in self.modules.values():
            self._index(m)
        for m in self.modules.values():
            for c in m.classes.values():
                c.bases = [self._resolve_base(m, b) for b in c.base_exprs]
        self._subclasses: dict[ClassInfo, list[ClassInfo]] | None = None

    # ---- construction ----------------------------------------------------

    @classmethod
    def from_repo(cls, repo: str = REPO) -> 'Program':
        return cls(load_sources(repo))

    def variant(self, path: str, new_src: str) -> 'Program':
        s = dict(self.sources)
        if path not in s:
            raise AnalysisError(f'variant of unknown file {path}')
        s[path] = new_src
        return Program(s)

    def _index(self, m: Module) -> None:
        for node in ast.walk(m.tree):
            if isinstance(node, ast.Import):
                for a in node.names:
                    if a.asname:
                        m.imports.setdefault(a.asname, ('module', a.name))
                    else:
                        top = a.name.split('.')[0]
                        m.imports.setdefault(top, ('module', top))
            elif isinstance(node, ast.ImportFrom):
                base = self._abs_module(m, node.module, node.level)
                for a in node.names:
                    local = a.asname or a.name
                    m.imports.setdefault(local, ('symbol', base, a.name))
        for node in m.tree.body:
            self._index_stmt(m, node)

    def _index_stmt(self, m: Module, node: ast.stmt) -> None:
        if isinstance(node, (ast.FunctionDef, ast.AsyncFunctionDef)):
            f = FuncInfo(node.name, node.name, m, node)
            m.functions[node.name] = f
            self._register(m, f)
        elif isinstance(node, ast.ClassDef):
            c = ClassInfo(node.name, m, node, list(node.bases))
            m.classes[node.name] = c
            for st in node.body:
                if isinstance(st, (ast.FunctionDef, ast.AsyncFunctionDef)):
                    f = FuncInfo(st.name, f'{node.name}.{st.name}', m, st, cls=c)
                    # keep the *last* definition, as Python does, but a
                    # property setter must not hide the getter
                    decs = [unparse(d) for d in st.decorator_list]
                    if any(d.endswith('.setter') or d.endswith('.deleter') for d in decs):
                        c.methods.setdefault(f'{st.name}.setter', f)
                    else:
                        c.methods[st.name] = f
                    self._register(m, f)
                elif isinstance(st, ast.Assign):
                    for t in st.targets:
                        if isinstance(t, ast.Name):
                            c.assigns[t.id] = st.value
                elif isinstance(st, ast.AnnAssign) and isinstance(st.target, ast.Name):
                    c.fields.append((st.target.id, st.annotation, st.value))
                    if st.value is not None:
                        c.assigns[st.target.id] = st.value
        elif isinstance(node, ast.Assign):
            for t in node.targets:
                if isinstance(t, ast.Name):
                    m.assigns[t.id] = node.value
        elif isinstance(node, ast.AnnAssign) and isinstance(node.target, ast.Name):
            if node.value is not None:
                m.assigns[node.target.id] = node.value
        elif isinstance(node, (ast.If, ast.Try)):
            # e.g. `if TYPE_CHECKING:` blocks, try/except import guards
            for st in node.body:
                self._index_stmt(m, st)

    def _register(self, m: Module, f: FuncInfo) -> None:
        m.all_functions.append(f)
        for sub in ast.walk(f.node):
            if sub is f.node:
                continue
            if isinstance(sub, (ast.FunctionDef, ast.AsyncFunctionDef)):
                # nested function (direct or deeper); parent = nearest
                pass
        for st in walk_no_nested(f.node):
            for ch in ast.iter_child_nodes(st):
                if isinstance(ch, (ast.FunctionDef, ast.AsyncFunctionDef)) and ch is not f.node:
                    g = FuncInfo(ch.name, f'{f.qualname}.<locals>.{ch.name}', m, ch, cls=None, parent=f)
                    self._register(m, g)

    def _abs_module(self, m: Module, mod: str | None, level: int) -> str:
        if level == 0:
            return mod or ''
        base = m.package().split('.')
        if level > 1:
            base = base[: -(level - 1)]
        return '.'.join(base + ([mod] if mod else []))

    def _resolve_base(self, m: Module, expr: ast.expr) -> ClassInfo | str:
        r = self.resolve_expr(m, expr)
        if r is not None and r[0] == 'class':
            return r[1]
        if isinstance(expr, ast.Subscript):  # Generic[T]
            return self._resolve_base(m, expr.value)
        return dotted(expr) or unparse(expr)

    # ---- name resolution -------------------------------------------------

    def resolve_name(self, m: Module, name: str, _depth: int = 0):
        """('class', ClassInfo) | ('func', FuncInfo) | ('module', Module) |
        ('value', Module, ast.expr) | ('external', dotted) | None"""
        if _depth > 8:
            return None
        if name in m.classes:
            return ('class', m.classes[name])
        if name in m.functions:
            return ('func', m.functions[name])
        if name in m.imports:
            imp = m.imports[name]
            if imp[0] == 'module':
                mod = self.modules.get(imp[1])
                return ('module', mod) if mod else ('external', imp[1])
            _, base, sym = imp
            target = self.modules.get(f'{base}.{sym}')
            basemod = self.modules.get(base)
            if basemod is not None:
                if sym in basemod.classes or sym in basemod.functions or sym in basemod.assigns:
                    return self.resolve_name(basemod, sym, _depth + 1)
                if sym in basemod.imports and target is None:
                    return self.resolve_name(basemod, sym, _depth + 1)
            if target is not None:
                return ('module', target)
            if basemod is not None and sym in basemod.imports:
                return self.resolve_name(basemod, sym, _depth + 1)
            return ('external', f'{base}.{sym}')
        if name in m.assigns:
            return ('value', m, m.assigns[name])
        return None

    def resolve_expr(self, m: Module, expr: ast.expr):
        """Resolve Name / Attribute chains through modules and classes."""
        if isinstance(expr, ast.Name):
            return self.resolve_name(m, expr.id)
        if isinstance(expr, ast.Attribute):
            base = self.resolve_expr(m, expr.value)
            if base is None:
                return None
            if base[0] == 'module':
                r = self.resolve_name(base[1], expr.attr)
                if r is None:
                    # `import pkg.sub` ... `pkg.sub.f`: the attribute of a package is its submodule
                    sub = self.modules.get(f'{base[1].name}.{expr.attr}')
                    if sub is not None:
                        return ('module', sub)
                return r
            if base[0] == 'class':
                f = base[1].resolve(expr.attr)
                if f is not None:
                    return ('func', f)
                for c in base[1].mro():
                    if expr.attr in c.assigns:
                        return ('value', c.module, c.assigns[expr.attr])
                return None
            if base[0] == 'external':
                return ('external', f'{base[1]}.{expr.attr}')
        return None

    # ---- lookup ------------------------------------------------------------

    def module(self, name: str) -> Module:
        full = name if name.startswith(PKG + '.') else (PKG if name == '' else f'{PKG}.{name}')
        if full not in self.modules:
            raise AnalysisError(f'anchor module {full} not found')
        return self.modules[full]

    def cls(self, modname: str, name: str) -> ClassInfo:
        m = self.module(modname)
        if name not in m.classes:
            raise AnalysisError(f'anchor class {name} not found in {m.path}')
        return m.classes[name]

    def func(self, modname: str, qualname: str) -> FuncInfo:
        m = self.module(modname)
        if '.' in qualname:
            cname, fname = qualname.split('.', 1)
            if cname in m.classes and fname in m.classes[cname].methods:
                return m.classes[cname].methods[fname]
            for f in m.all_functions:
                if f.qualname == qualname:
                    return f
        elif qualname in m.functions:
            return m.functions[qualname]
        raise AnalysisError(f'anchor function {qualname} not found in {m.path}')

    def has_func(self, modname: str, qualname: str) -> bool:
        try:
            self.func(modname, qualname)
            return True
        except AnalysisError:
            return False

    def all_classes(self) -> Iterator[ClassInfo]:
        for m in self.modules.values():
            yield from m.classes.values()

    def all_functions(self, with_transparent: bool = False) -> Iterator[FuncInfo]:
        """every function of the package; helpers that are new with respect to the reference inventory and whose calls were all
        expanded in place (sa/normal.py) are examined through their callers and left out here"""
        for m in self.modules.values():
            for f in m.all_functions:
                if with_transparent or not getattr(f.node, '_verif_transparent', False):
                    yield f

    def find_class(self, name: str, package: str | None = None) -> ClassInfo:
        found = [c for c in self.all_classes() if c.name == name and (package is None or c.module.name.startswith(f'{PKG}.{package}'))]
        if len(found) != 1:
            raise AnalysisError(f'class {name}: {len(found)} definitions found')
        return found[0]

    def subclasses(self, cls: ClassInfo, strict: bool = True) -> list[ClassInfo]:
        out = [c for c in self.all_classes() if cls in c.mro() and (c is not cls or not strict)]
        out.sort(key=lambda c: (c.module.name, c.node.lineno))
        return out

    def stats(self) -> dict:
        nf = sum(len(m.all_functions) for m in self.modules.values())
        nc = sum(len(m.classes) for m in self.modules.values())
        ncalls = sum(
            1 for m in self.modules.values() for n in ast.walk(m.tree) if isinstance(n, ast.Call)
        )
        return {
            'modules': len(self.modules),
            'classes': nc,
            'functions': nf,
            'call_sites': ncalls,
            'lines': sum(s.count('\n') + 1 for s in self.sources.values()),
        }

    # ---- call resolution ---------------------------------------------------

    def bind_call(self, f: FuncInfo, call: ast.Call) -> dict[str, ast.expr] | None:
        """parameter name -> argument expression of a call whose callee(s) resolve and agree on their parameter list
        (positional and keyword arguments alike; the receiver of a method is dropped).  None when unresolved."""
        cands = self.resolve_call(f, call)
        if not cands or any(isinstance(a, ast.Starred) for a in call.args) or any(k.arg is None for k in call.keywords):
            return None
        lists = []
        for g in cands:
            ps = g.positional_params() + [x.arg for x in g.node.args.kwonlyargs]
            is_method = g.cls is not None and 'staticmethod' not in g.decorators()
            if is_method and isinstance(call.func, ast.Attribute) or (g.name == '__init__'):
                ps = ps[1:]
            lists.append(ps)
        if any(l != lists[0] for l in lists):
            return None
        ps = lists[0]
        if len(call.args) > len(ps):
            return None
        out = {p: a for p, a in zip(ps, call.args)}
        for k in call.keywords:
            out[k.arg] = k.value
        return out

    def resolve_call(self, f: FuncInfo, call: ast.Call) -> list[FuncInfo]:
        """Functions that the call may run, as far as names resolve.

        ``self.m()`` resolves through the MRO of the defining class and every
        subclass (dynamic dispatch); ``super().m()``; ``Name()``; ``mod.f()``;
        ``Cls(...)`` -> ``__init__``.  Returns [] when unresolved.
        """
        fn = call.func
        m = f.module
        owner = f
        while owner.cls is None and owner.parent is not None:
            owner = owner.parent
        cls = owner.cls
        if isinstance(fn, ast.Attribute):
            recv = fn.value
            if isinstance(recv, ast.Name) and recv.id in ('self', 'cls') and cls is not None:
                out = []
                for c in [cls] + self.subclasses(cls):
                    g = c.resolve(fn.attr)
                    if g is not None and g not in out:
                        out.append(g)
                return out
            if (
                isinstance(recv, ast.Call)
                and isinstance(recv.func, ast.Name)
                and recv.func.id == 'super'
                and cls is not None
            ):
                for c in cls.mro()[1:]:
                    if fn.attr in c.methods:
                        return [c.methods[fn.attr]]
                return []
        r = self.resolve_expr(m, fn)
        if r is None:
            # a nested function or a local alias
            if isinstance(fn, ast.Name):
                p = f
                while p is not None:
                    for g in m.all_functions:
                        if g.parent is p and g.name == fn.id:
                            return [g]
                    p = p.parent
            return []
        if r[0] == 'func':
            return [r[1]]
        if r[0] == 'class':
            init = r[1].resolve('__init__')
            post = r[1].resolve('__post_init__')
            return [x for x in (init, post) if x is not None]
        return []

    def methods_named(self, name: str) -> list[FuncInfo]:
        return [f for f in self.all_functions() if f.cls is not None and f.name == name]

    def callers_of(self, target_name: str) -> list[tuple[FuncInfo, ast.Call]]:
        """All call sites whose callee's last component is ``target_name``."""
        out = []
        for f in self.all_functions():
            for n in walk_no_nested(f.node):
                if isinstance(n, ast.Call) and call_name(n) == target_name:
                    out.append((f, n))
        # module-level calls
        return out

    def reachable(self, start: FuncInfo, by_name_fallback: bool = True, limit: int = 5000) -> set[FuncInfo]:
        """Functions reachable from ``start`` in the call graph.  Attribute
        calls on unknown receivers fall back to every method of that name
        (over-approximation) when ``by_name_fallback``."""
        seen = {start}
        todo = [start]
        while todo and len(seen) < limit:
            f = todo.pop()
            for n in ast.walk(f.node):
                if not isinstance(n, ast.Call):
                    continue
                tg = self.resolve_call(f, n)
                if not tg and by_name_fallback and isinstance(n.func, ast.Attribute):
                    tg = self.methods_named(n.func.attr)
                for g in tg:
                    if g not in seen:
                        seen.add(g)
                        todo.append(g)
        return seen


_PARSE_CACHE: dict[tuple, ast.Module] = {}


_SIG_CACHE: dict[tuple[str, int, str], tuple] = {}


def _set_signatures(sources: dict[str, str]) -> None:
    """the package-wide table of callee signatures used by the normal form (keyword -> positional)"""
    from . import normal

    per = []
    paths = []
    for path in sorted(sources):
        if path[len(PKG_DIR) + 1 :] in EXCLUDED:
            continue
        paths.append(path)
        key = (path, len(sources[path]), digest(sources[path]))
        v = _SIG_CACHE.get(key)
        if v is None:
            try:
                v = normal.module_signatures(ast.parse(sources[path], filename=path))
            except SyntaxError:
                v = ({}, {})
            _SIG_CACHE[key] = v
        per.append(v)
    normal.set_signatures(per, paths)


def _parse(path: str, src: str) -> ast.Module:
    """Trees are shared between a program and its in-memory variants; rules never mutate them."""
    from . import normal as _n

    key = (path, len(src), digest(src), digest(_n.SIGS_VERSION))
    t = _PARSE_CACHE.get(key)
    if t is None:
        from .normal import normalise_module

        t = normalise_module(ast.parse(src, filename=path), path)
        _PARSE_CACHE[key] = t
    return t


def normalise_pattern(tree: ast.Module) -> ast.Module:
    from .normal import normalise_pattern as _np

    return _np(tree)


def load_sources(repo: str = REPO) -> dict[str, str]:
    root = os.path.join(repo, PKG_DIR)
    if not os.path.isdir(root):
        raise AnalysisError(f'{root} does not exist')
    out = {}
    for dp, dn, fn in os.walk(root):
        dn[:] = [d for d in dn if d != '__pycache__']
        for f in fn:
            if f.endswith('.py'):
                p = os.path.join(dp, f)
                rel = os.path.relpath(p, repo)
                with open(p, encoding='utf-8') as fh:
                    out[rel] = fh.read()
    return out


def named_args(call: ast.Call) -> dict[str, str]:
    """parameter name -> argument text of a call, whether the argument is written with a keyword or positionally (the
    parameter list of the callee comes from the package-wide signature table of the normal form; without an entry only the
    keywords are named)"""
    from . import normal

    out = {k.arg: unparse(k.value) for k in call.keywords if k.arg}
    ps = None
    if isinstance(call.func, ast.Name):
        ps = normal.SIGS.get(call.func.id)
    elif isinstance(call.func, ast.Attribute):
        ps = normal.METHOD_SIGS.get(call.func.attr) or normal.SIGS.get(call.func.attr)
    if ps:
        for p_, a in zip(ps, call.args):
            if not isinstance(a, ast.Starred):
                out.setdefault(p_, unparse(a))
    return out


_SINGLE_DEFS: dict = {}


def fast_copy(node):
    """structural copy of a syntax tree (fields, positions, document order); several times faster than copy.deepcopy"""
    if isinstance(node, list):
        return [fast_copy(x) for x in node]
    if not isinstance(node, ast.AST):
        return node
    new = node.__class__.__new__(node.__class__)
    d = new.__dict__
    d.update(node.__dict__)  # positions, document order, back-references (to the enclosing function...) by reference
    for k in node._fields:
        v = d.get(k)
        if isinstance(v, (ast.AST, list)):
            d[k] = fast_copy(v)
    return new


def _bound_or_mutated(target: ast.expr):
    """the names an assignment target binds (`x`, `(x, y)`) or mutates (the container `t` of `t[key] = v` / `t.a = v`); the names read
    in an index (`key`) are neither"""
    if isinstance(target, ast.Name):
        yield target
    elif isinstance(target, (ast.Tuple, ast.List)):
        for e in target.elts:
            yield from _bound_or_mutated(e)
    elif isinstance(target, ast.Starred):
        yield from _bound_or_mutated(target.value)
    elif isinstance(target, (ast.Subscript, ast.Attribute)):
        r = target.value
        while isinstance(r, (ast.Subscript, ast.Attribute)):
            r = r.value
        if isinstance(r, ast.Name):
            yield r


def inline_locals(func_node: ast.AST, expr: ast.expr, depth: int = 6) -> ast.expr:
    """Copy of expr in which every local of the function that is assigned exactly once (plain `x = <expr>` anywhere in the
    function, no augmented assignment, not a parameter, not a loop target) is replaced by its definition, recursively.
    Makes arithmetic rules independent of how intermediate results are named."""
    import copy

    hit = _SINGLE_DEFS.get(id(func_node))
    if hit is not None and hit[0] is func_node:
        single = hit[1]
    else:
        single = _single_definitions(func_node)
        if getattr(func_node, '_verif_seq', None) is not None:  # (a function of a Program: not modified after normalisation; copies made by rules are not cached)
            if len(_SINGLE_DEFS) > 20000:
                _SINGLE_DEFS.clear()
            _SINGLE_DEFS[id(func_node)] = (func_node, single)

    class Sub(ast.NodeTransformer):
        def __init__(self, d):
            self.d = d

        def visit_Name(self, node):
            if isinstance(node.ctx, ast.Load) and node.id in single and self.d > 0:
                return Sub(self.d - 1).visit(fast_copy(single[node.id]))
            return node

    return ast.fix_missing_locations(Sub(depth).visit(fast_copy(expr)))


def _single_definitions(func_node: ast.AST) -> dict:
    a = func_node.args
    params = {x.arg for x in a.posonlyargs + a.args + a.kwonlyargs} | ({a.vararg.arg} if a.vararg else set()) | ({a.kwarg.arg} if a.kwarg else set())
    defs: dict[str, list] = {}
    for n in walk_no_nested(func_node):
        if isinstance(n, ast.Assign):
            for t in n.targets:
                for x in _bound_or_mutated(t):
                    defs.setdefault(x.id, []).append(n if (isinstance(t, ast.Name) and len(n.targets) == 1) else None)
        elif isinstance(n, (ast.AugAssign, ast.AnnAssign)):
            for x in _bound_or_mutated(n.target):
                if True:
                    defs.setdefault(x.id, []).append(n if isinstance(n, ast.AnnAssign) and n.value is not None and isinstance(n.target, ast.Name) else None)
        elif isinstance(n, (ast.For, ast.comprehension)):
            for x in ast.walk(n.target):
                if isinstance(x, ast.Name):
                    defs.setdefault(x.id, []).append(None)
        elif isinstance(n, (ast.With,)):
            for it in n.items:
                if it.optional_vars is not None:
                    for x in ast.walk(it.optional_vars):
                        if isinstance(x, ast.Name):
                            defs.setdefault(x.id, []).append(None)
        elif isinstance(n, ast.NamedExpr):
            defs.setdefault(n.target.id, []).append(None)
    # a local that is changed in place after its definition (`x.sort()`, `x.update(...)`, `list.sort(x)`: a method call whose result is
    # discarded, or one of the mutators whose result may be used) does not stand for its definition
    for n in walk_no_nested(func_node):
        c = n.value if isinstance(n, ast.Expr) else n
        if not isinstance(c, ast.Call) or not isinstance(c.func, ast.Attribute):
            continue
        recv = c.func.value
        if isinstance(recv, ast.Name) and (isinstance(n, ast.Expr) or c.func.attr in _MUTATORS):
            if recv.id in ('list', 'dict', 'set') and c.args and isinstance(c.args[0], ast.Name):
                defs.setdefault(c.args[0].id, []).append(None)
            else:
                defs.setdefault(recv.id, []).append(None)
    return {k: v[0].value for k, v in defs.items() if len(v) == 1 and v[0] is not None and k not in params}


_MUTATORS = {'sort', 'reverse', 'append', 'extend', 'insert', 'remove', 'pop', 'popitem', 'clear', 'update', 'setdefault', 'add', 'discard', 'fill', 'resize'}
