"""Record templates of the ``get_signature`` writers and children templates
of the expression constructors (abstract domain *record template*).

A template is rendered into a canonical string in which

* ``self.attr`` is replaced by ``@k`` when the attribute is derived from
  exactly the k-th constructor parameter of the concrete class,
* loop variables are ``$0, $1, ...``,
* ``x.get_id()`` is ``{ID:x}``, ``len(x)`` is ``{LEN:x}``, the class tag is
  ``{CLS}``, an id attribute filled from an IdManager table is
  ``{IDX:<table>:x}`` and anything else ``{VAL:x}``.
"""

from __future__ import annotations

import ast
import re

from .core import AnalysisError, ClassInfo, FuncInfo, Program, dotted, unparse, strip_docstring

CHILDREN = 'CHILDREN'
#: marks, in a children template, a statement on the list of children that is not followed
OPEN = '?'


def _subst(text: str, mapping: dict[str, str]) -> str:
    if not mapping:
        return text
    keys = sorted(mapping, key=len, reverse=True)
    pat = re.compile('|'.join(r'(?<![\w.])' + re.escape(k) + r'(?![\w])' for k in keys))
    return pat.sub(lambda m: mapping[m.group(0)], text)


class AttrRoles:
    """attribute of an instance -> constructor parameter position of the concrete class"""

    def __init__(self, prog: Program, cls: ClassInfo):
        self.prog = prog
        self.cls = cls
        self.init = cls.resolve('__init__')
        self.params: list[str] = []
        self.roles: dict[str, set[str]] = {}
        self.children: list = []  # template items
        #: attributes / children stored without validate_and_convert although the parameter may be a number
        self.converted: dict[str, bool] = {}
        #: attribute -> roles of the parameters / attributes its value is computed from
        self.sources: dict[str, set[str]] = {}
        self._local_conv: set[str] = set()
        #: locals of the constructor being read that are assigned once, outside conditions and loops: canonical text and expression
        self._ltext: dict[str, str] = {}
        self._lvals: dict[str, ast.expr] = {}
        self._nested = 0  # depth of conditions / loops around the statement being read
        if self.init is None:
            return
        self.params = self.init.positional_params()[1:]
        env = {p: f'@{i}' for i, p in enumerate(self.params)}
        self._walk_init(self.init, env, depth=0)

    def _walk_init(self, init: FuncInfo, env: dict[str, str], depth: int):
        if depth > 6:
            return
        saved = (self._ltext, self._lvals, getattr(self, '_once', set()), getattr(self, '_poison', set()))
        self._ltext, self._lvals = {}, {}
        stores: dict[str, int] = {}
        for n in ast.walk(init.node):
            if isinstance(n, ast.Name) and not isinstance(n.ctx, ast.Load):
                stores[n.id] = stores.get(n.id, 0) + 1
        # (a local changed in place - `x.append(..)`, `x.sort()` - does not stand for the expression it was given)
        mutated = {n.func.value.id for n in ast.walk(init.node) if isinstance(n, ast.Call) and isinstance(n.func, ast.Attribute) and isinstance(n.func.value, ast.Name)
                   and n.func.attr in ('sort', 'reverse', 'append', 'extend', 'insert', 'remove', 'pop', 'popitem', 'clear', 'update', 'setdefault', 'add', 'discard')}
        self._once = {k for k, v in stores.items() if v == 1} - set(init.params()) - mutated
        self._poison = set()
        self._stmts(init.explicit_body, init, dict(env), depth, loopvars={}, loopsrc={})
        self._ltext, self._lvals, self._once, self._poison = saved

    def _canon(self, e: ast.AST, env: dict[str, str], loopvars: dict[str, str]) -> str:
        e2 = _strip_convert(e)
        t = unparse(e2)
        m = dict(self._ltext)
        m.update(env)
        m.update(loopvars)
        t = _subst(t, m)
        amap = {f'self.{a}': next(iter(r)) for a, r in self.roles.items() if len(r) == 1}
        return _subst(t, amap)

    def _identity_like(self, v: ast.AST, env: dict[str, str], loopsrc: dict[str, str], local: set[str] = frozenset()) -> bool:
        """the value is the parameter itself, possibly converted element-wise"""
        if isinstance(v, ast.Name):
            return v.id in loopsrc or v.id in local or (v.id in env and env[v.id].startswith('@'))
        if isinstance(v, ast.Attribute):  # field of a loop variable (named tuple)
            return isinstance(v.value, ast.Name) and (v.value.id in loopsrc or v.value.id in local)
        if isinstance(v, ast.Starred):
            return self._identity_like(v.value, env, loopsrc, local)
        if isinstance(v, ast.Call):
            name = (dotted(v.func) or '').split('.')[-1]
            if name in ('validate_and_convert', 'float', 'list', 'dict', 'tuple', 'zip', 'items', 'values') and not v.keywords:
                if name in ('items', 'values') and isinstance(v.func, ast.Attribute):
                    return self._identity_like(v.func.value, env, loopsrc, local)
                return all(self._identity_like(a, env, loopsrc, local) for a in v.args) and bool(v.args)
            if name == '_replace' and isinstance(v.func, ast.Attribute) and not v.args:
                return self._identity_like(v.func.value, env, loopsrc, local) and all(
                    self._identity_like(k.value, env, loopsrc, local) for k in v.keywords
                )
            return False
        if isinstance(v, (ast.ListComp, ast.DictComp)) and len(v.generators) == 1 and not v.generators[0].ifs:
            g = v.generators[0]
            if not self._identity_like(g.iter, env, loopsrc, local):
                return False
            lv = set(local) | {n.id for n in ast.walk(g.target) if isinstance(n, ast.Name)}
            elts = [v.elt] if isinstance(v, ast.ListComp) else [v.key, v.value]
            return all(self._identity_like(e, env, loopsrc, lv) for e in elts)
        return False

    def _role_of_value(self, v: ast.AST, env: dict[str, str], loopsrc: dict[str, str]) -> set[str]:
        if not self._identity_like(v, env, loopsrc):
            return set()
        out = set()
        for n in ast.walk(v):
            if isinstance(n, ast.Name):
                if n.id in loopsrc:
                    out.add(loopsrc[n.id])
                elif n.id in env and env[n.id].startswith('@'):
                    out.add(env[n.id])
        if not out:
            for n in ast.walk(v):
                if isinstance(n, ast.Attribute) and isinstance(n.value, ast.Name) and n.value.id == 'self':
                    out |= self.roles.get(n.attr, {f'self.{n.attr}'})
        return out

    def _stmts(self, body, init: FuncInfo, env, depth, loopvars, loopsrc):
        expanded = list(strip_docstring(body))
        for st in expanded:
            if isinstance(st, ast.Expr) and isinstance(st.value, ast.Call):
                c = st.value
                f = c.func
                if isinstance(f, ast.Attribute) and f.attr == '__init__':
                    base_init = None
                    args = list(c.args)
                    if isinstance(f.value, ast.Call) and isinstance(f.value.func, ast.Name) and f.value.func.id == 'super':
                        owner = init.cls
                        mro = self.cls.mro()
                        if owner in mro:
                            for b in mro[mro.index(owner) + 1 :]:
                                if '__init__' in b.methods:
                                    base_init = b.methods['__init__']
                                    break
                    else:
                        r = self.prog.resolve_expr(init.module, f.value)
                        if r and r[0] == 'class':
                            base_init = r[1].resolve('__init__')
                            args = args[1:]
                    if base_init is not None:
                        bp = base_init.positional_params()[1:]
                        benv = {}
                        for p, a in zip(bp, args):
                            benv[p] = self._param_text(a, env)
                        for k in c.keywords:
                            if k.arg:
                                benv[k.arg] = self._param_text(k.value, env)
                        self._walk_init(base_init, benv, depth + 1)
                    continue
                if isinstance(f, ast.Attribute) and unparse(f.value) == 'self.children':
                    # the one list of children: append / extend add at the end; any other method leaves the template open
                    if f.attr == 'append' and len(c.args) == 1 and not c.keywords:
                        self.children.append(('item', self._canon(c.args[0], env, loopvars)))
                    elif f.attr == 'extend' and len(c.args) == 1 and not c.keywords:
                        self._extend(c.args[0], env, loopvars)
                    elif f.attr == 'clear' and not c.args and not loopvars and not self._nested:
                        del self.children[:]
                    else:
                        self.children.append(('open', unparse(st)[:60]))
                    continue
                if isinstance(f, ast.Attribute) and isinstance(f.value, ast.Name) and f.value.id == 'self':
                    # a method of the object called by the constructor: if it touches the list of children, what it adds is not followed
                    m = self.cls.resolve(f.attr)
                    if m is not None and _writes_children(m.node):
                        self.children.append(('open', unparse(st)[:60]))
                continue
            if isinstance(st, ast.AugAssign) and unparse(st.target) == 'self.children':
                if isinstance(st.op, ast.Add):
                    self._extend(st.value, env, loopvars)
                else:
                    self.children.append(('open', unparse(st)[:60]))
                continue
            if isinstance(st, ast.Delete) and any('self.children' in unparse(t) for t in st.targets):
                self.children.append(('open', unparse(st)[:60]))
                continue
            if isinstance(st, (ast.Assign, ast.AnnAssign)):
                value = st.value
                if value is None:
                    continue
                tlist = st.targets if isinstance(st, ast.Assign) else [st.target]
                for t in tlist:
                    targets = list(enumerate(t.elts)) if isinstance(t, ast.Tuple) else [(None, t)]
                    for idx, tt in targets:
                        if isinstance(tt, ast.Name):
                            if self._is_conv(value):
                                self._local_conv.add(tt.id)
                            role = self._role_of_value(value, env, loopsrc)
                            single = len(role) == 1 and next(iter(role)).startswith('@')
                            if not single or (tt.id in env and env[tt.id] != next(iter(role))):
                                # one of the assignments of the name gives it something else than (the elements of) one parameter: the
                                # name does not stand for a parameter anywhere (the reading is not path-sensitive)
                                self._poison.add(tt.id)
                                if tt.id in env:
                                    env[tt.id] = tt.id
                            if single and tt.id not in self._poison:
                                env[tt.id] = next(iter(role))
                            elif idx is None and not self._nested and not loopvars and tt.id in self._once and tt.id not in env:
                                # a local assigned once stands for its expression (`views = self.d.values()` ... `extend(views)`)
                                self._ltext[tt.id] = self._canon(value, env, loopvars)
                                self._lvals[tt.id] = value
                            continue
                        if isinstance(tt, ast.Attribute) and isinstance(tt.value, ast.Name) and tt.value.id == 'self':
                            if tt.attr == 'children':
                                self._store_children(st, value, env, loopvars)
                                continue
                            selfref = f'self.{tt.attr}' in {unparse(n) for n in ast.walk(value) if isinstance(n, ast.Attribute)}
                            if selfref and tt.attr in self.roles:
                                continue
                            role = self._role_of_value(value, env, loopsrc)
                            if idx is not None:
                                role = {f'{r}#{idx}' for r in role}
                            self.roles.setdefault(tt.attr, set()).update(role or {f'self.{tt.attr}'})
                            src = set()
                            vnodes = list(ast.walk(value))
                            for n in vnodes:  # (the list grows: the expression of a local assigned once is read in its place)
                                if isinstance(n, ast.Name) and n.id in self._lvals and n.id not in env and len(vnodes) < 2000:
                                    vnodes += list(ast.walk(self._lvals[n.id]))
                            for n in vnodes:
                                if isinstance(n, ast.Name) and n.id in env and env[n.id].startswith('@'):
                                    src.add(env[n.id])
                                elif isinstance(n, ast.Attribute) and isinstance(n.value, ast.Name) and n.value.id == 'self' and n.attr != tt.attr:
                                    r0 = self.roles.get(n.attr, set())
                                    src |= {x for x in r0 if x.startswith('@')} or {f'self.{n.attr}'}
                            self.sources.setdefault(tt.attr, set()).update(src)
                            self._note_conversion(tt.attr, value)
                        elif isinstance(tt, ast.Subscript) and unparse(tt.value) == 'self.children':
                            self.children.append(('open', unparse(st)[:60]))
                        elif isinstance(tt, ast.Subscript) and isinstance(tt.value, ast.Attribute) and unparse(tt.value.value) == 'self':
                            role = self._role_of_value(value, env, loopsrc)
                            cur = self.roles.setdefault(tt.value.attr, set())
                            cur.discard(f'self.{tt.value.attr}')
                            cur.update(role or {f'self.{tt.value.attr}'})
                            self._note_conversion(tt.value.attr, value)
                continue
            if isinstance(st, ast.For):
                it = self._canon(st.iter, env, loopvars)
                names = [n.id for n in ast.walk(st.target) if isinstance(n, ast.Name)]
                lv = dict(loopvars)
                ls = dict(loopsrc)
                src = re.match(r'(@\d+(?:#\d+)?)', it)
                for i, n in enumerate(names):
                    lv[n] = f'${len(loopvars) + i}'
                    if src:
                        ls[n] = src.group(1)
                before = len(self.children)
                self._nested += 1
                self._stmts(st.body, init, env, depth, lv, ls)
                self._nested -= 1
                new = self.children[before:]
                del self.children[before:]
                if new:
                    self.children.append(('loop', it, [lv[n] for n in names], new))
                continue
            if isinstance(st, ast.If):
                self._nested += 1
                self._stmts(st.body, init, env, depth, loopvars, loopsrc)
                self._stmts(st.orelse, init, env, depth, loopvars, loopsrc)
                self._nested -= 1
                continue

    def _extend(self, value: ast.AST, env, loopvars) -> None:
        """`self.children += value` / `.extend(value)`: a list display adds its elements one by one, anything else is spliced"""
        if isinstance(value, (ast.List, ast.Tuple)):
            for e in value.elts:
                if isinstance(e, ast.Starred):
                    self._extend(e.value, env, loopvars)
                else:
                    self.children.append(('item', self._canon(e, env, loopvars)))
            return
        self.children.append(('extend', self._canon(value, env, loopvars)))

    def _store_children(self, st: ast.stmt, value: ast.AST, env, loopvars) -> None:
        """`self.children = value`: the list starts again from value (Expression.__init__ starts it empty).  Under a condition or in a
        loop what the list holds afterwards is not followed."""
        if self._nested or loopvars:
            self.children.append(('open', unparse(st)[:60]))
            return
        if isinstance(value, ast.BinOp) and isinstance(value.op, ast.Add) and unparse(value.left) == 'self.children':
            self._extend(value.right, env, loopvars)  # self.children = self.children + more
            return
        if any(isinstance(n, ast.Attribute) and unparse(n) == 'self.children' for n in ast.walk(value)):
            self.children.append(('open', unparse(st)[:60]))
            return
        del self.children[:]
        if isinstance(value, ast.Call) and isinstance(value.func, ast.Name) and value.func.id == 'list' and not value.args and not value.keywords:
            return
        self._extend(value, env, loopvars)

    def _is_conv(self, value: ast.AST) -> bool:
        return any(
            (isinstance(n, ast.Call) and (dotted(n.func) or '').split('.')[-1] == 'validate_and_convert') or (isinstance(n, ast.Name) and n.id in self._local_conv)
            for n in ast.walk(value)
        )

    def _note_conversion(self, attr: str, value: ast.AST) -> None:
        conv = self._is_conv(value)
        self.converted[attr] = self.converted.get(attr, False) or conv

    def _param_text(self, a: ast.AST, env: dict[str, str]) -> str:
        if isinstance(a, ast.Name) and a.id in env:
            return env[a.id]
        names = {n.id for n in ast.walk(a) if isinstance(n, ast.Name) and n.id in env}
        if len(names) == 1:
            return env[next(iter(names))]
        return unparse(a)

    def attr_map(self) -> dict[str, str]:
        return {f'self.{a}': next(iter(r)) for a, r in self.roles.items() if len(r) == 1 and next(iter(r)).startswith('@')}

    def children_template(self) -> str:
        return render_items(self.children, self.attr_map())


def _writes_children(func: ast.AST) -> bool:
    """the function stores to self.children or calls a method of that list"""
    for n in ast.walk(func):
        if isinstance(n, (ast.Assign, ast.AugAssign, ast.AnnAssign, ast.Delete)):
            targets = n.targets if isinstance(n, (ast.Assign, ast.Delete)) else [n.target]
            if any(unparse(x) == 'self.children' for t in targets for x in ast.walk(t)):
                return True
        if isinstance(n, ast.Call) and isinstance(n.func, ast.Attribute) and unparse(n.func.value) == 'self.children':
            return True
    return False


def _target_names(t: ast.AST) -> list[str]:
    """names of a loop target in the order they are written: `(i, e), a` -> i, e, a"""
    if isinstance(t, ast.Name):
        return [t.id]
    if isinstance(t, (ast.Tuple, ast.List)):
        return [n for e in t.elts for n in _target_names(e)]
    if isinstance(t, ast.Starred):
        return _target_names(t.value)
    return [n.id for n in ast.walk(t) if isinstance(n, ast.Name)]


def _same_elements(e: ast.expr) -> ast.expr:
    """the collection whose elements `e` yields in the same order: X for X[:], list(X), tuple(X), iter(X), X.copy()"""
    while True:
        if isinstance(e, ast.Subscript) and isinstance(e.slice, ast.Slice) and e.slice.lower is None and e.slice.upper is None and e.slice.step is None:
            e = e.value
        elif isinstance(e, ast.Call) and isinstance(e.func, ast.Name) and e.func.id in ('list', 'tuple', 'iter') and len(e.args) == 1 and not e.keywords \
                and not isinstance(e.args[0], (ast.Starred, ast.GeneratorExp, ast.ListComp)):
            e = e.args[0]
        elif isinstance(e, ast.Call) and isinstance(e.func, ast.Attribute) and e.func.attr == 'copy' and not e.args and not e.keywords:
            e = e.func.value
        else:
            return e


def _strip_convert(e: ast.AST) -> ast.AST:
    """validate_and_convert(x) -> x (the conversion is checked separately)"""
    if isinstance(e, ast.Call) and (dotted(e.func) or '').split('.')[-1] == 'validate_and_convert' and len(e.args) == 1:
        return e.args[0]
    return e


def render_items(items, amap: dict[str, str]) -> str:
    out = []
    for it in items:
        if it[0] == 'item':
            out.append(_subst(it[1], amap))
        elif it[0] == 'extend':
            out.append('*' + _subst(it[1], amap))
        elif it[0] == 'open':
            out.append(OPEN + '⟨' + it[1] + '⟩')
        elif it[0] == 'loop':
            out.append(f'⟦for {",".join(it[2])} in {_subst(it[1], amap)}: {render_items(it[3], amap)}⟧')
    return ' ; '.join(out)


# --------------------------------------------------------------------------


class RecordTemplate:
    def __init__(self, prog: Program, func: FuncInfo, amap: dict[str, str], id_attrs: dict[str, str], children: list[str] | None = None,
                 tuple_fields: dict[str, list[str]] | None = None):
        """id_attrs: attribute name -> IdManager table (``elementaryIndex`` -> ``elementary_expressions``);
        children: the references of the first children (those added one by one, before any loop / splice) so that ``self.children[k]``
        is read as the k-th of them; tuple_fields: canonical iterable -> field names of the named tuples it holds, so that
        ``for t in X: t.a, t.b`` is read as ``for a, b in X``"""
        self.prog = prog
        self.func = func
        self.amap = amap
        self.id_attrs = id_attrs
        self.children_items = list(children or [])
        self.tuple_fields = dict(tuple_fields or {})
        self.acc: str | None = None
        self.listvar: str | None = None
        self.items: list = []
        self.emitted: list[str] = []  # canonical refs whose signature is appended before the own record
        self.emits_children = False
        self.own_last = False
        self.locals: dict[str, str] = {}
        self.local_ast: dict[str, ast.expr | None] = {}
        self.local_lv: dict[str, set[str]] = {}  # loop variables in scope where the local is defined
        self.side: dict[str, list] = {}  # other local lists: what was put in them, in order
        self.returned: set[str] = set()
        self._sealed = False
        self._acc_started = False  # the record was encoded into a side list: text added to it afterwards is not in that record
        self._extract()

    # ---- helpers
    def canon(self, e: ast.AST | str, loopvars: dict[str, str]) -> str:
        t = e if isinstance(e, str) else unparse(e)
        t = t.replace('self.get_children()', CHILDREN).replace('self.children', CHILDREN)
        # one pass: a loop variable hides the local of the same name (the texts of the locals are canonical already)
        m = {k: v for k, v in self.locals.items() if k not in loopvars}
        m.update(loopvars)
        t = _subst(t, m)
        t = _subst(t, self.amap)
        # CHILDREN[k] is the k-th child when the first children are added one by one
        return re.sub(r'(?<![\w.])CHILDREN\[(\d+)\]', lambda m: self.children_items[int(m.group(1))] if int(m.group(1)) < len(self.children_items) else m.group(0), t)

    def _local_def(self, name: str, loopvars) -> ast.expr | None:
        """the expression a local assigned once stands for, when the loop variables it mentions are those of its definition"""
        la = self.local_ast.get(name)
        if la is None:
            return None
        if {n.id for n in ast.walk(la) if isinstance(n, ast.Name) and n.id in loopvars} - self.local_lv.get(name, set()):
            return None
        return la

    def field(self, e: ast.expr, loopvars) -> str:
        if isinstance(e, ast.Name) and e.id not in loopvars and self._local_def(e.id, loopvars) is not None:
            return self.field(self.local_ast[e.id], loopvars)
        if isinstance(e, ast.JoinedStr):
            return self.fmt(e, loopvars)  # a text placed in a text is that text
        if isinstance(e, ast.Call) and isinstance(e.func, ast.Attribute) and not e.args:
            if e.func.attr == 'get_class_name' and unparse(e.func.value) == 'self':
                return '{CLS}'
            if e.func.attr == 'get_id':
                return '{ID:' + self.canon(e.func.value, loopvars) + '}'
        if isinstance(e, ast.Call) and isinstance(e.func, ast.Name) and e.func.id == 'len' and len(e.args) == 1:
            return '{LEN:' + self.canon(e.args[0], loopvars) + '}'
        if isinstance(e, ast.Attribute) and e.attr in self.id_attrs:
            return '{IDX:' + self.id_attrs[e.attr] + ':' + self.canon(e.value, loopvars) + '}'
        return '{VAL:' + self.canon(e, loopvars) + '}'

    def fmt(self, v: ast.expr, loopvars) -> str:
        if isinstance(v, ast.JoinedStr):
            out = ''
            for p in v.values:
                if isinstance(p, ast.Constant):
                    out += str(p.value)
                elif isinstance(p, ast.FormattedValue):
                    if p.format_spec is not None or p.conversion != -1:
                        plain = self.field(p.value, loopvars)
                        fs = p.format_spec
                        spec = None if fs is None else str(fs.value) if isinstance(fs, ast.Constant) else \
                            ''.join(str(x.value) for x in fs.values) if isinstance(fs, ast.JoinedStr) and all(isinstance(x, ast.Constant) for x in fs.values) else '?'
                        # str() of a value is its plain formatting; `:d` of an integer (an id, an index, a length) is the same text
                        if (p.conversion in (-1, 115) and spec in (None, '')) or (p.conversion == -1 and spec == 'd' and plain.startswith(('{ID:', '{IDX:', '{LEN:'))):
                            out += plain
                        else:
                            out += '{FMT:' + unparse(p) + '}'
                    elif isinstance(p.value, ast.JoinedStr) or (isinstance(p.value, ast.Call) and isinstance(p.value.func, ast.Attribute) and p.value.func.attr == 'join'
                                                                 and isinstance(p.value.func.value, ast.Constant) and p.value.func.value.value == ''):
                        out += self.fmt(p.value, loopvars)  # a text placed in a text is that text
                    else:
                        out += self.field(p.value, loopvars)
            return out
        if isinstance(v, ast.Constant) and isinstance(v.value, str):
            return v.value
        if isinstance(v, ast.BinOp) and isinstance(v.op, ast.Add):
            return self.fmt(v.left, loopvars) + self.fmt(v.right, loopvars)
        if isinstance(v, ast.Call) and isinstance(v.func, ast.Attribute) and v.func.attr == 'join' and isinstance(v.func.value, ast.Constant) and v.func.value.value == '' and len(v.args) == 1 \
                and isinstance(v.args[0], (ast.ListComp, ast.GeneratorExp)) and len(v.args[0].generators) == 1 and not v.args[0].generators[0].ifs:
            # ''.join([piece for x in X]): the pieces one after the other, i.e. the loop `for x in X: record += piece`
            g = v.args[0].generators[0]
            it = self.canon(_same_elements(g.iter), loopvars)
            names = [n.id for n in ast.walk(g.target) if isinstance(n, ast.Name)]
            lv = dict(loopvars)
            for i, n in enumerate(names):
                lv[n] = f'${len(loopvars) + i}'
            return f'⟦for {",".join(lv[n] for n in names)} in {it}: {self.fmt(v.args[0].elt, lv)}⟧'
        if isinstance(v, ast.Name) and v.id in self.locals and v.id not in loopvars:
            la = self._local_def(v.id, loopvars)
            if isinstance(la, (ast.JoinedStr, ast.BinOp)) or (isinstance(la, ast.Constant) and isinstance(la.value, str)):
                return self.fmt(la, loopvars)  # a local assigned once that holds a piece of text is that piece
            return '{VAL:' + self.canon(v, loopvars) + '}'
        raise AnalysisError(f'{self.func.file}:{v.lineno}: signature fragment not understood: {unparse(v)[:60]}')

    def _is_sig_call(self, e: ast.AST) -> ast.expr | None:
        if isinstance(e, ast.Call) and isinstance(e.func, ast.Attribute) and e.func.attr == 'get_signature' and not e.args:
            return e.func.value
        return None

    def _own(self, e: ast.AST, loopvars=None, items=None) -> bool:
        """`[<record>.encode()]`: the record is the accumulator, or the text itself written in place"""
        if not (isinstance(e, ast.List) and len(e.elts) == 1):
            return False
        c = e.elts[0]
        if not (isinstance(c, ast.Call) and isinstance(c.func, ast.Attribute) and c.func.attr == 'encode' and not c.args and not c.keywords):
            return False
        rec = c.func.value
        if self.acc is not None and isinstance(rec, ast.Name) and rec.id == self.acc:
            return True
        if isinstance(rec, (ast.JoinedStr, ast.BinOp, ast.Constant)) and items is not None:
            items.append(('text', self.fmt(rec, loopvars or {})))
            return True
        return False

    def _extract(self):
        body = self.func.explicit_body
        # the accumulator: first variable assigned an f-string starting with '<'
        for st in body:
            if isinstance(st, ast.Assign) and isinstance(st.targets[0], ast.Name) and isinstance(st.value, ast.JoinedStr):
                first = st.value.values[0] if st.value.values else None
                if isinstance(first, ast.Constant) and str(first.value).startswith('<'):
                    self.acc = st.targets[0].id
                    break
        inline = any(isinstance(c, ast.Call) and isinstance(c.func, ast.Attribute) and c.func.attr == 'encode' and isinstance(c.func.value, (ast.JoinedStr, ast.BinOp))
                     for st in body for c in ast.walk(st))
        if self.acc is None and not inline:
            raise AnalysisError(f'{self.func.file}:{self.func.line}: {self.func.qualname}: no record accumulator found')
        self.returned = {n.value.id for st in body for n in ast.walk(st) if isinstance(n, ast.Return) and isinstance(n.value, ast.Name)}
        self._walk(body, {}, self.items)
        self._normalise(self.items)

    def _normalise(self, items: list) -> None:
        """equivalent spellings of a loop of the record, brought to the one with unpacked loop variables:
        `for k in D: .. D[k] ..` and `for k, v in D.items(): .. D[k] ..` are `for k, v in D.items(): .. v ..`;
        `for t in X: .. t.a .. t.b ..` with X holding named tuples (a, b) is `for a, b in X: .. a .. b ..`"""
        def texts(sub):
            return [x for x in sub if x[0] == 'text']

        for n, it in enumerate(items):
            if it[0] != 'loop':
                continue
            _, src, vars_, sub = it
            if any(x[0] == 'loop' for x in sub):
                self._normalise(sub)
                continue
            body = ''.join(x[1] for x in texts(sub))
            if len(vars_) == 1:
                d = int(vars_[0][1:])
                v, w = f'${d}', f'${d + 1}'
                used = re.findall(re.escape(v) + r'(?!\d)(\.\w+)?', body)
                dct = src[:-7] if src.endswith('.keys()') else src
                fields = self.tuple_fields.get(src)
                if re.fullmatch(r'[\w@#.]+', dct) and (dct + f'[{v}]') in body and w not in body:
                    items[n] = ('loop', dct + '.items()', [v, w], [(k, t.replace(dct + f'[{v}]', w)) for k, t in sub])
                elif fields and used and all(u[1:] in fields for u in used) and not any(f'${d + 1 + i}' in body for i in range(len(fields))):
                    ren = {f'{v}.{f}': f'${d + i}' for i, f in enumerate(fields)}
                    pat = re.compile(re.escape(v) + r'(?!\d)\.(\w+)')
                    # two passes so that `$d.a -> $d` is not taken again for a field access
                    items[n] = ('loop', src, [f'${d + i}' for i in range(len(fields))],
                                [(k, pat.sub(lambda m: '\x00' + ren[m.group(0)][1:], t).replace('\x00', '$')) for k, t in sub])
            elif len(vars_) == 2 and src.endswith('.items()'):
                dct = src[:-8]
                if re.fullmatch(r'[\w@#.]+', dct) and (dct + f'[{vars_[0]}]') in body:
                    items[n] = ('loop', src, vars_, [(k, t.replace(dct + f'[{vars_[0]}]', vars_[1])) for k, t in sub])

    def _walk(self, body, loopvars, items):
        for st in body:
            # normal form: `x += [e]` is written `x.append(e)`
            if isinstance(st, ast.Expr) and isinstance(st.value, ast.Call) and isinstance(st.value.func, ast.Attribute) and st.value.func.attr == 'append' \
                    and isinstance(st.value.func.value, ast.Name) and len(st.value.args) == 1 and not st.value.keywords:
                st = ast.copy_location(ast.AugAssign(target=ast.Name(id=st.value.func.value.id, ctx=ast.Store()), op=ast.Add(), value=ast.copy_location(ast.List(elts=[st.value.args[0]], ctx=ast.Load()), st)), st)
            if isinstance(st, ast.Assign) and len(st.targets) == 1 and isinstance(st.targets[0], ast.Name):
                name = st.targets[0].id
                if isinstance(st.value, ast.BinOp) and isinstance(st.value.op, ast.Add) and isinstance(st.value.left, ast.Name) and st.value.left.id == name \
                        and name in (self.acc, self.listvar) and not any(isinstance(n, ast.Name) and n.id == name for n in ast.walk(st.value.right)):
                    # `x = x + more` is `x += more` (texts and lists)
                    self._walk([ast.copy_location(ast.AugAssign(target=ast.Name(id=name, ctx=ast.Store()), op=ast.Add(), value=st.value.right), st)], loopvars, items)
                    continue
                if name == self.acc:
                    if self._acc_started or loopvars:
                        # a plain store to the record after it holds text starts it again: what it held is lost
                        raise AnalysisError(f'{self.func.file}:{st.lineno}: the record {name} is assigned again after it holds text: {unparse(st)[:60]}')
                    self._acc_started = True
                    items.append(('text', self.fmt(st.value, loopvars)))
                elif isinstance(st.value, ast.List) and not st.value.elts:
                    if self.listvar is None or self.listvar == name or (name in self.returned and self.listvar not in self.returned):
                        self.listvar = name
                    elif loopvars:
                        raise AnalysisError(f'{self.func.file}:{st.lineno}: list {name} started inside a loop of get_signature')
                    else:
                        self.side[name] = []
                elif isinstance(st.value, ast.ListComp) and len(st.value.generators) == 2 and not any(g.ifs for g in st.value.generators) \
                        and isinstance(st.value.generators[0].target, ast.Name) and isinstance(st.value.generators[1].target, ast.Name) \
                        and isinstance(st.value.elt, ast.Name) and st.value.elt.id == st.value.generators[1].target.id \
                        and self._is_sig_call(st.value.generators[1].iter) is not None and unparse(self._is_sig_call(st.value.generators[1].iter)) == st.value.generators[0].target.id:
                    # [s for e in <children> for s in e.get_signature()]: the signatures of the children, flattened, in order
                    self.listvar = name
                    g0 = st.value.generators[0]
                    it = self.canon(g0.iter, loopvars)
                    lv = dict(loopvars)
                    lv[g0.target.id] = f'${len(loopvars)}'
                    self.emitted.append(f'⟦{it}⟧' + self.canon(ast.Name(id=g0.target.id, ctx=ast.Load()), lv))
                    if it == CHILDREN:
                        self.emits_children = True
                    self.own_last = False
                else:
                    # a local that is assigned once stands for its expression: written in a field it has the role of that expression
                    self.local_ast[name] = st.value if name not in self.local_ast and name not in self.locals else None
                    self.local_lv[name] = set(loopvars)
                    self.locals[name] = self.canon(st.value, loopvars)
                continue
            if isinstance(st, ast.AugAssign) and isinstance(st.target, ast.Name) and isinstance(st.op, ast.Add):
                if st.target.id == self.acc:
                    if self._sealed:
                        raise AnalysisError(f'{self.func.file}:{st.lineno}: text added to the record after it was encoded: {unparse(st)[:60]}')
                    items.append(('text', self.fmt(st.value, loopvars)))
                    self.own_last = False
                    continue
                if st.target.id in self.side and not loopvars:
                    # another local list: what it receives is placed where the list is added to the returned one
                    who = self._is_sig_call(st.value)
                    if who is not None:
                        self.side[st.target.id].append(('sig', self.canon(who, loopvars)))
                        continue
                    if self._own(st.value, loopvars, items):
                        self.side[st.target.id].append(('own',))
                        self._sealed = True
                        continue
                if st.target.id == self.listvar:
                    who = self._is_sig_call(st.value)
                    if who is not None:
                        c = self.canon(who, loopvars)
                        self.emitted.append(c)
                        self.own_last = False
                        continue
                    if self._own(st.value, loopvars, items):
                        self.own_last = True
                        continue
                    if isinstance(st.value, ast.Name) and st.value.id in self.side and not loopvars:
                        for ev in self.side.pop(st.value.id):  # (a list added twice is not followed: popped)
                            if ev[0] == 'sig':
                                self.emitted.append(ev[1])
                                self.own_last = False
                            else:
                                self.own_last = True
                        continue
                raise AnalysisError(f'{self.func.file}:{st.lineno}: statement of get_signature not understood: {unparse(st)[:70]}')
            if isinstance(st, ast.For) and isinstance(st.iter, (ast.List, ast.Tuple)) and isinstance(st.target, ast.Name) and len(st.body) == 1 \
                    and isinstance(st.body[0], ast.AugAssign) and isinstance(st.body[0].target, ast.Name) and st.body[0].target.id == self.listvar \
                    and self._is_sig_call(st.body[0].value) is not None and unparse(self._is_sig_call(st.body[0].value)) == st.target.id:
                # for e in [a, *B, c]: signatures += e.get_signature()  --  the signature of a, of every element of B, of c, in that order
                for e in st.iter.elts:
                    if isinstance(e, ast.Starred):
                        src = self.canon(e.value, loopvars)
                        self.emitted.append(f'⟦{src}⟧${len(loopvars)}')
                        if src == CHILDREN:
                            self.emits_children = True
                    else:
                        self.emitted.append(self.canon(e, loopvars))
                self.own_last = False
                self.locals.pop(st.target.id, None)
                self.local_ast[st.target.id] = None
                continue
            if isinstance(st, ast.For):
                it = self.canon(_same_elements(st.iter), loopvars)
                names = _target_names(st.target)
                lv = dict(loopvars)
                for i, n in enumerate(names):
                    lv[n] = f'${len(loopvars) + i}'
                sub: list = []
                n_em = len(self.emitted)
                self._walk(st.body, lv, sub)
                for n in names:
                    # after the loop the name holds the last element (or what it held before, over an empty collection): not a local any more
                    self.locals.pop(n, None)
                    self.local_ast[n] = None
                for k in range(n_em, len(self.emitted)):
                    self.emitted[k] = f'⟦{it}⟧{self.emitted[k]}'
                    if it == CHILDREN:
                        self.emits_children = True
                if sub:
                    items.append(('loop', it, [lv[n] for n in names], sub))
                continue
            if isinstance(st, ast.If):
                # guards that raise are not part of the record
                if all(isinstance(x, (ast.Raise, ast.Assign)) for x in st.body) and any(isinstance(x, ast.Raise) for x in st.body) and not st.orelse:
                    continue
                raise AnalysisError(f'{self.func.file}:{st.lineno}: conditional in get_signature not understood')
            if isinstance(st, ast.Return):
                v = st.value
                if isinstance(v, ast.Name) and v.id == self.listvar:
                    continue
                if self._own(v, loopvars, items):
                    self.own_last = True
                    continue
                raise AnalysisError(f'{self.func.file}:{st.lineno}: return of get_signature not understood: {unparse(v)[:60]}')
            if isinstance(st, ast.Expr) and isinstance(st.value, ast.Constant):
                continue
            raise AnalysisError(f'{self.func.file}:{st.lineno}: statement of get_signature not understood: {unparse(st)[:70]}')

    def render(self) -> str:
        def r(items):
            out = ''
            for it in items:
                if it[0] == 'text':
                    out += it[1]
                else:
                    out += f'⟦for {",".join(it[2])} in {it[1]}: {r(it[3])}⟧'
            return out

        return r(self.items)

    def id_refs(self) -> list[str]:
        txt = self.render()
        return [m for m in re.findall(r'\{ID:([^}]*)\}', txt) if m != 'self']
