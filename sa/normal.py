"""Normal form of function bodies, shared by the program model and by the patterns of the rules.

Two spellings of the same behaviour should give the same tree, so that a rule written against the tree is indifferent
to the most common behaviour-preserving edits (measured on /verif/refactorings and on the whole-package variants of
sa/variants.py).  Everything here is a syntactic rewriting that keeps positions; nothing is executed.

Inside functions:

* annotated assignment with a value            ->  plain assignment
* `logger.debug(...)`, `logger.info(...)`      ->  dropped (tracing)
* `n = n + c` (plain name, numeric constant)   ->  `n += c`
* `x += [e]`                                   ->  `x.append(e)`
* generator expression as the only argument of a consuming call (join, any, all, sum, min, max, sorted, list, tuple,
  set, frozenset, dict)                         ->  list comprehension
* keywords naming the leading parameters of a callee of the same module / class  ->  positional arguments
* conditional expression with a negative test  ->  positive test, arms swapped
* `return a if c else b`, `x = a if c else b`, `f(a if c else b)` as a statement  ->  if / else statements;
  `if c: x = a else: x = b` followed by the only reader of x  ->  that reader in each arm
* `if <negative test>: A else: B`              ->  `if <positive test>: B else: A`
* `else` after a branch ending in return / raise / continue / break  ->  hoisted behind the `if`
* `if c: return` (bare) followed by the rest of a function body, `if c: continue` followed by the rest of a loop body
                                                ->  `if not c: <rest>`
* `if a:` whose only statement is `if b: X` (no else anywhere)  ->  `if a and b: X`
* consecutive `if a: J` / `if b: J` with the same body J ending in a jump  ->  `if a or b: J`
* negations are pushed inwards through and / or / not and the operators is, ==, in
* `x = e` immediately followed by `return x` / `raise C(x)` (x written only so, read only there)  ->  `return e` / `raise C(e)`
* a for loop (possibly nested, possibly filtered by ifs) whose innermost statement is `x.append(e)`  ->  `x += [e for ...]`;
  `d[k] = v`  ->  `d.update({k: v for ...})`; `s.add(e)`  ->  `s.update({e for ...})`
* `x = L` immediately followed by `x += M` (lists) ->  `x = L + M`, with `[] + M` -> `M`;
  `d = {}` followed by `d.update(D)` -> `d = D`; `s = set()` followed by `s.update(S)` -> `s = S`
* calls of helper functions that are not in the inventory of the reference tree (sa/inventory.json) are replaced by the
  body of the helper (a helper extracted from a function the rules know is transparent).
"""

from __future__ import annotations

import ast
import copy
import json
import os
import re

JUMP = (ast.Return, ast.Raise, ast.Continue, ast.Break)
CONSUMERS = {'join', 'any', 'all', 'sum', 'min', 'max', 'sorted', 'list', 'tuple', 'set', 'frozenset', 'dict'}

_INV = None


def inventory() -> set[str] | None:
    """qualified names `path::qualname` of the functions of the reference tree; None when the file is absent"""
    global _INV
    if _INV is None:
        p = os.environ.get('VERIF_INVENTORY') or os.path.join(os.path.dirname(os.path.abspath(__file__)), 'inventory.json')
        try:
            with open(p, encoding='utf-8') as f:
                _INV = set(json.load(f))
        except OSError:
            _INV = False
    return _INV or None


# --------------------------------------------------------------------------- tests


def positive(test: ast.expr):
    """the positive form of a negative test (`not x`, `a is not b`, `a != b`, `a not in b`), or None"""
    if isinstance(test, ast.UnaryOp) and isinstance(test.op, ast.Not):
        return test.operand
    if isinstance(test, ast.Compare) and len(test.ops) == 1:
        swap = {ast.IsNot: ast.Is, ast.NotEq: ast.Eq, ast.NotIn: ast.In}
        for neg, pos in swap.items():
            if isinstance(test.ops[0], neg):
                return ast.copy_location(ast.Compare(left=test.left, ops=[pos()], comparators=test.comparators), test)
    return None


def negate(test: ast.expr) -> ast.expr:
    """logical negation in negation normal form (only for operators whose negation is exact for every operand type)"""
    pos = positive(test)
    if pos is not None:
        return pos
    if isinstance(test, ast.Compare) and len(test.ops) == 1:
        swap = {ast.Is: ast.IsNot, ast.Eq: ast.NotEq, ast.In: ast.NotIn}
        for a, b in swap.items():
            if isinstance(test.ops[0], a):
                return ast.copy_location(ast.Compare(left=test.left, ops=[b()], comparators=test.comparators), test)
    if isinstance(test, ast.BoolOp):
        op = ast.Or() if isinstance(test.op, ast.And) else ast.And()
        return ast.copy_location(ast.BoolOp(op=op, values=[negate(v) for v in test.values]), test)
    return ast.copy_location(ast.UnaryOp(op=ast.Not(), operand=test), test)


def nnf(test: ast.expr) -> ast.expr:
    if isinstance(test, ast.UnaryOp) and isinstance(test.op, ast.Not):
        inner = test.operand
        if isinstance(inner, (ast.BoolOp,)) or positive(inner) is not None or (isinstance(inner, ast.Compare) and len(inner.ops) == 1 and isinstance(inner.ops[0], (ast.Is, ast.Eq, ast.In))):
            return nnf(negate(inner))
        return test
    if isinstance(test, ast.BoolOp):
        vals = []
        for v in test.values:
            v = nnf(v)
            if isinstance(v, ast.BoolOp) and type(v.op) is type(test.op):
                vals.extend(v.values)
            else:
                vals.append(v)
        return ast.copy_location(ast.BoolOp(op=test.op, values=vals), test)
    return test


def _same(a, b) -> bool:
    return ast.dump(a) == ast.dump(b)


def _same_block(a: list, b: list) -> bool:
    return len(a) == len(b) and all(_same(x, y) for x, y in zip(a, b))


# --------------------------------------------------------------------------- node level


# signatures of the whole package (set by core.Program before its modules are normalised): a keyword that names a leading
# parameter of a callee defined anywhere in the package is written positionally, so `Beta(name=n, value=1)` and `Beta(n, 1)`
# are one construct.  Only names defined once in the package (functions, classes with an explicit __init__, methods whose
# name no other class and no builtin container uses).
SIGS: dict[str, list[str]] = {}
SIGS_BY_MODULE: dict[str, list[tuple[str, list[str]]]] = {}  # names defined more than once: told apart by the import of the caller
METHOD_SIGS: dict[str, list[str]] = {}
SIGS_VERSION = ''
_BUILTIN_METHODS = {m for t in (dict, list, set, str, tuple, frozenset, bytes) for m in dir(t)}


def module_signatures(tree: ast.Module):
    """(functions and constructors, methods) defined in one module: name -> positional parameter names (None: not usable)"""
    funcs: dict[str, list[str] | None] = {}
    meths: dict[str, list[list[str] | None]] = {}
    for st in tree.body:
        if isinstance(st, ast.FunctionDef):
            funcs[st.name] = NodeLevel._params(st, False)
        elif isinstance(st, ast.ClassDef):
            for f in st.body:
                if not isinstance(f, ast.FunctionDef):
                    continue
                static = any(isinstance(d, ast.Name) and d.id == 'staticmethod' for d in f.decorator_list)
                prop = any((isinstance(d, ast.Name) and d.id == 'property') or isinstance(d, ast.Attribute) for d in f.decorator_list)
                if prop:
                    continue
                ps = NodeLevel._params(f, not static)
                if f.name == '__init__':
                    funcs[st.name] = ps
                elif not f.name.startswith('__'):
                    meths.setdefault(f.name, []).append(ps)
    return funcs, meths


def module_name(path: str) -> str:
    """src/biogeme/expressions/beta_parameters.py -> biogeme.expressions.beta_parameters ; .../__init__.py -> the package"""
    parts = path[:-3].split('/')
    if parts and parts[0] == 'src':
        parts = parts[1:]
    if parts and parts[-1] == '__init__':
        parts = parts[:-1]
    return '.'.join(parts)


def set_signatures(per_module: list, paths: list[str] | None = None) -> None:
    """per_module: results of module_signatures for every module of the program (paths: their files, same order)"""
    global SIGS, SIGS_BY_MODULE, METHOD_SIGS, SIGS_VERSION
    seen: dict[str, list] = {}
    mseen: dict[str, list] = {}
    by_mod: dict[str, list] = {}
    for n, (funcs, meths) in enumerate(per_module):
        for k, v in funcs.items():
            seen.setdefault(k, []).append(v)
            if paths is not None and v:
                by_mod.setdefault(k, []).append((module_name(paths[n]), v))
        for k, vs in meths.items():
            mseen.setdefault(k, []).extend(vs)
    sigs = {k: v[0] for k, v in seen.items() if len(v) == 1 and v[0]}
    by_mod = {k: v for k, v in by_mod.items() if len(seen[k]) > 1}
    msigs = {k: v[0] for k, v in mseen.items() if len(v) == 1 and v[0] and k not in _BUILTIN_METHODS}
    version = repr(sorted(sigs.items())) + repr(sorted(msigs.items())) + repr(sorted(by_mod.items()))
    if version != SIGS_VERSION:
        SIGS, SIGS_BY_MODULE, METHOD_SIGS, SIGS_VERSION = sigs, by_mod, msigs, version


def fold_string(node: ast.JoinedStr):
    """one spelling of a formatted string: nested f-strings flattened, constant fields and adjacent literals merged"""
    parts: list = []

    def push(x):
        if isinstance(x, ast.Constant) and isinstance(x.value, str):
            if x.value == '':
                return
            if parts and isinstance(parts[-1], ast.Constant):
                parts[-1] = ast.copy_location(ast.Constant(value=parts[-1].value + x.value), parts[-1])
            else:
                parts.append(x)
        elif isinstance(x, ast.FormattedValue) and x.conversion == -1 and x.format_spec is None and isinstance(x.value, ast.Constant) and isinstance(x.value.value, str):
            push(x.value)
        elif isinstance(x, ast.FormattedValue) and x.conversion == -1 and x.format_spec is None and isinstance(x.value, ast.JoinedStr):
            for y in x.value.values:
                push(y)
        else:
            parts.append(x)

    for v in node.values:
        push(v)
    if not parts:
        return ast.copy_location(ast.Constant(value=''), node)
    if len(parts) == 1 and isinstance(parts[0], ast.Constant):
        return ast.copy_location(parts[0], node)
    node.values = parts
    return node


def _format_to_fstring(fmt: str, args: list):
    import string

    try:
        fields = list(string.Formatter().parse(fmt))
    except ValueError:
        return None
    values: list = []
    auto = 0
    for lit, name, spec, conv in fields:
        if lit:
            values.append(ast.Constant(value=lit))
        if name is None:
            continue
        if conv is not None or (spec and ('{' in spec)):
            return None
        if name == '':
            k = auto
            auto += 1
        elif name.isdigit():
            k = int(name)
        else:
            return None
        if k >= len(args):
            return None
        values.append(ast.FormattedValue(value=args[k], conversion=-1, format_spec=ast.JoinedStr(values=[ast.Constant(value=spec)]) if spec else None))
    used = auto if auto else len({n for _, n, _, _ in fields if n})
    if used != len(args):
        return None
    return ast.fix_missing_locations(ast.JoinedStr(values=values))


class _FoldStrings(ast.NodeTransformer):
    def visit_JoinedStr(self, node):
        self.generic_visit(node)
        return fold_string(node)


class NodeLevel(ast.NodeTransformer):
    def __init__(self, path: str = ''):
        self.path = path
        self.imported: dict[str, str] = {}
        self.depth = 0
        self.mod_funcs: dict[str, list[str] | None] = {}
        self.cls_methods: list[dict[str, list[str] | None]] = []

    @staticmethod
    def _params(fn, drop_first: bool):
        a = fn.args
        if a.vararg or a.posonlyargs:
            return None
        names = [x.arg for x in a.args]
        return names[1:] if drop_first else names

    def visit_Module(self, node):
        self.mod_funcs = module_signatures(node)[0]
        here = module_name(self.path).split('.') if self.path else []
        is_pkg = self.path.endswith('__init__.py')
        for st in ast.walk(node):
            if isinstance(st, ast.ImportFrom):
                base = (st.module or '').split('.') if st.module else []
                if st.level:
                    up = here if is_pkg else here[:-1]
                    up = up[: len(up) - (st.level - 1)] if st.level > 1 else up
                    base = up + base
                for a in st.names:
                    if a.asname is None or a.asname == a.name:
                        self.imported[a.name] = '.'.join(base)
        self.generic_visit(node)
        return node

    def visit_ClassDef(self, node):
        m = {}
        for f in node.body:
            if isinstance(f, ast.FunctionDef):
                static = any(isinstance(d, ast.Name) and d.id == 'staticmethod' for d in f.decorator_list)
                prop = any((isinstance(d, ast.Name) and d.id == 'property') or isinstance(d, ast.Attribute) for d in f.decorator_list)
                if not prop:
                    m[f.name] = self._params(f, not static)
        self.cls_methods.append(m)
        saved, self.depth = self.depth, 0
        self.generic_visit(node)
        self.depth = saved
        self.cls_methods.pop()
        return node

    def _func(self, node):
        self.depth += 1
        self.generic_visit(node)
        self.depth -= 1
        return node

    visit_FunctionDef = _func
    visit_AsyncFunctionDef = _func

    def visit_Call(self, node):
        self.generic_visit(node)
        # 'a {} b {}'.format(x, y)  ->  f'a {x} b {y}'
        if isinstance(node.func, ast.Attribute) and node.func.attr == 'format' and isinstance(node.func.value, ast.Constant) and isinstance(node.func.value.value, str) \
                and not node.keywords and not any(isinstance(a, ast.Starred) for a in node.args):
            js = _format_to_fstring(node.func.value.value, node.args)
            if js is not None:
                return fold_string(ast.copy_location(js, node))
        # generator expression consumed at once
        if len(node.args) == 1 and not node.keywords and isinstance(node.args[0], ast.GeneratorExp):
            name = node.func.attr if isinstance(node.func, ast.Attribute) else getattr(node.func, 'id', '')
            if name in CONSUMERS:
                g = node.args[0]
                node.args[0] = ast.copy_location(ast.ListComp(elt=g.elt, generators=g.generators), g)
        if not node.keywords or any(isinstance(a, ast.Starred) for a in node.args) or any(k.arg is None for k in node.keywords):
            return node
        params = None
        if isinstance(node.func, ast.Name):
            params = self.mod_funcs[node.func.id] if node.func.id in self.mod_funcs else SIGS.get(node.func.id)
            if params is None and node.func.id in SIGS_BY_MODULE and node.func.id in self.imported:
                src = self.imported[node.func.id]
                cands = [ps for m, ps in SIGS_BY_MODULE[node.func.id] if m == src or m.startswith(src + '.')]
                if len(cands) == 1:
                    params = cands[0]
            if params is None and node.func.id in SIGS_BY_MODULE and (not self.path or node.func.id not in self.imported):
                # (in a pattern there are no imports: the definition that has all the keywords used)
                names = {k.arg for k in node.keywords}
                cands = [ps for m, ps in SIGS_BY_MODULE[node.func.id] if names <= set(ps)]
                if len(cands) == 1:
                    params = cands[0]
        elif isinstance(node.func, ast.Attribute) and isinstance(node.func.value, ast.Name) and node.func.value.id == 'self' and self.cls_methods and node.func.attr in self.cls_methods[-1]:
            params = self.cls_methods[-1].get(node.func.attr)
        elif isinstance(node.func, ast.Attribute):
            params = METHOD_SIGS.get(node.func.attr)
        if not params:
            return node
        kw = {k.arg: k for k in node.keywords}
        i = len(node.args)
        moved = []
        while i < len(params) and params[i] in kw:
            moved.append(kw.pop(params[i]))
            i += 1
        if moved:
            node.args = node.args + [k.value for k in moved]
            node.keywords = [k for k in node.keywords if k.arg in kw]
        return node

    def visit_AnnAssign(self, node):
        self.generic_visit(node)
        if self.depth and node.value is not None:
            return self.visit_Assign(ast.copy_location(ast.Assign(targets=[node.target], value=node.value, type_comment=None), node), visited=True)
        return node

    def visit_Assign(self, node, visited=False):
        if not visited:
            self.generic_visit(node)
        v = node.value
        # a = b = E  ->  t = E ; a = t ; b = t   (in a pattern t is a metavariable)
        if self.depth and len(node.targets) > 1:
            if isinstance(v, (ast.Constant, ast.Name)):
                return [self.visit_Assign(ast.copy_location(ast.Assign(targets=[t], value=copy.deepcopy(v), type_comment=None), node), visited=True) for t in node.targets]
            self.chains = getattr(self, 'chains', 0) + 1
            tmp = f'chained__{self.chains}' if self.path else f'_CHAINED{self.chains}'
            first = ast.copy_location(ast.Assign(targets=[ast.Name(id=tmp, ctx=ast.Store())], value=v, type_comment=None), node)
            rest = [ast.copy_location(ast.Assign(targets=[t], value=ast.Name(id=tmp, ctx=ast.Load()), type_comment=None), node) for t in node.targets]
            return [ast.fix_missing_locations(x) for x in [first] + rest]
        # a, b = x, y  ->  a = x ; b = y   (fresh names on the left, none of them read on the right)
        if self.depth and len(node.targets) == 1 and isinstance(node.targets[0], ast.Tuple) and isinstance(v, ast.Tuple) and len(v.elts) == len(node.targets[0].elts) >= 2 \
                and all(isinstance(t, ast.Name) for t in node.targets[0].elts) and not any(isinstance(e, ast.Starred) for e in v.elts):
            names = {t.id for t in node.targets[0].elts}
            if len(names) == len(v.elts) and not any(isinstance(n, ast.Name) and n.id in names for e in v.elts for n in ast.walk(e)):
                return [self.visit_Assign(ast.copy_location(ast.Assign(targets=[t], value=e, type_comment=None), node), visited=True) for t, e in zip(node.targets[0].elts, v.elts)]
        if (len(node.targets) == 1 and isinstance(node.targets[0], ast.Name) and isinstance(v, ast.BinOp) and isinstance(v.left, ast.Name) and v.left.id == node.targets[0].id
                and isinstance(v.right, ast.Constant) and isinstance(v.right.value, (int, float)) and not isinstance(v.right.value, bool) and isinstance(v.op, (ast.Add, ast.Sub, ast.Mult))):
            return ast.copy_location(ast.AugAssign(target=node.targets[0], op=v.op, value=v.right), node)
        return node

    def visit_AugAssign(self, node, visited=False):
        if not visited:
            self.generic_visit(node)
        # x += [e]  ->  x.append(e)
        if self.depth and isinstance(node.op, ast.Add) and isinstance(node.value, ast.List) and len(node.value.elts) == 1 and not isinstance(node.value.elts[0], ast.Starred) and isinstance(node.target, (ast.Name, ast.Attribute, ast.Subscript)):
            tgt = copy.deepcopy(node.target)
            for n in ast.walk(tgt):
                if hasattr(n, 'ctx'):
                    n.ctx = ast.Load()
            call = ast.Call(func=ast.Attribute(value=tgt, attr='append', ctx=ast.Load()), args=[node.value.elts[0]], keywords=[])
            return ast.fix_missing_locations(ast.copy_location(ast.Expr(value=ast.copy_location(call, node)), node))
        return node

    def visit_Expr(self, node):
        self.generic_visit(node)
        v = node.value
        if self.depth and isinstance(v, ast.Call) and isinstance(v.func, ast.Attribute) and v.func.attr in ('debug', 'info') and isinstance(v.func.value, ast.Name) and v.func.value.id in ('logger', 'logging'):
            return None
        # x.extend([...])  ->  x += [...]
        if self.depth and isinstance(v, ast.Call) and isinstance(v.func, ast.Attribute) and v.func.attr == 'extend' and len(v.args) == 1 and not v.keywords and not isinstance(v.args[0], (ast.Starred, ast.GeneratorExp)) \
                and isinstance(v.func.value, (ast.Name, ast.Attribute, ast.Subscript)):
            tgt = copy.deepcopy(v.func.value)
            for n in ast.walk(tgt):
                if hasattr(n, 'ctx'):
                    n.ctx = ast.Load()
            tgt.ctx = ast.Store()
            aug = ast.fix_missing_locations(ast.copy_location(ast.AugAssign(target=tgt, op=ast.Add(), value=v.args[0]), node))
            return self.visit_AugAssign(aug, visited=True)
        return node

    def visit_JoinedStr(self, node):
        self.generic_visit(node)
        return fold_string(node)

    def visit_BinOp(self, node):
        self.generic_visit(node)
        # 'a' + f'{x}'  ->  f'a{x}'
        if isinstance(node.op, ast.Add) and all(isinstance(x, ast.JoinedStr) or (isinstance(x, ast.Constant) and isinstance(x.value, str)) for x in (node.left, node.right)) \
                and any(isinstance(x, ast.JoinedStr) for x in (node.left, node.right)):
            parts = []
            for x in (node.left, node.right):
                parts.extend(x.values if isinstance(x, ast.JoinedStr) else [x])
            return fold_string(ast.copy_location(ast.JoinedStr(values=parts), node))
        return node

    def visit_IfExp(self, node):
        self.generic_visit(node)
        node.test = nnf(node.test)
        pos = positive(node.test)
        if pos is not None:
            node.test = pos
            node.body, node.orelse = node.orelse, node.body
        return node

    def visit_If(self, node):
        self.generic_visit(node)
        node.test = nnf(node.test)
        return node

    def visit_While(self, node):
        self.generic_visit(node)
        node.test = nnf(node.test)
        return node

    def generic_visit(self, node):
        super().generic_visit(node)
        for field in ('body',):
            if isinstance(node, (ast.If, ast.For, ast.While, ast.With, ast.Try, ast.ExceptHandler, ast.FunctionDef)) and getattr(node, field, None) == []:
                setattr(node, field, [ast.copy_location(ast.Pass(), node)])
        return node


# --------------------------------------------------------------------------- block level


def unparse_safe(e) -> str:
    try:
        return ast.unparse(e)
    except Exception:  # noqa
        return ''


def _no_effect(e: ast.AST) -> bool:
    """an expression that only builds a value from its operands (constructor of a path, arithmetic, formatting)"""
    for n in ast.walk(e):
        if isinstance(n, ast.Call) and not (isinstance(n.func, ast.Name) and n.func.id in ('Path', 'str', 'int', 'float', 'len', 'tuple', 'list')):
            return False
        if isinstance(n, (ast.Yield, ast.YieldFrom, ast.Await, ast.NamedExpr, ast.Lambda)):
            return False
    return True


def _loads_stores(fn: ast.AST):
    stores: dict[str, int] = {}
    loads: dict[str, int] = {}
    for n in ast.walk(fn):
        if isinstance(n, ast.Name):
            d = stores if isinstance(n.ctx, (ast.Store, ast.Del)) else loads
            d[n.id] = d.get(n.id, 0) + 1
        elif isinstance(n, ast.arg):
            stores[n.arg] = stores.get(n.arg, 0) + 1
        elif isinstance(n, (ast.Global, ast.Nonlocal)):
            for x in n.names:
                stores[x] = stores.get(x, 0) + 2
    return loads, stores


def _blocks(fn: ast.AST):
    """(owner, field) of every statement list under fn, nested functions excluded, innermost first"""
    out = []

    def go(n):
        for field in ('body', 'orelse', 'finalbody'):
            v = getattr(n, field, None)
            if isinstance(v, list) and v and isinstance(v[0], ast.stmt):
                for st in v:
                    if not isinstance(st, (ast.FunctionDef, ast.AsyncFunctionDef, ast.ClassDef)):
                        go(st)
                out.append((n, field))
        if isinstance(n, ast.Try):
            for h in n.handlers:
                go(h)

    go(fn)
    return out


def _is_pattern_gap(st) -> bool:
    return isinstance(st, ast.Expr) and isinstance(st.value, ast.Name) and st.value.id == '___'


def _is_bare(st, kind) -> bool:
    return isinstance(st, kind) and (not isinstance(st, ast.Return) or st.value is None or (isinstance(st.value, ast.Constant) and st.value.value is None))


def _comp_from_loop(loop: ast.For):
    """(kind, target expr, comprehension node) when the (nested, filtered) loop only accumulates into one container"""
    gens = []
    cur = loop
    while True:
        if cur.orelse:
            return None
        gens.append(ast.comprehension(target=cur.target, iter=cur.iter, ifs=[], is_async=0))
        body = cur.body
        while len(body) == 1 and isinstance(body[0], ast.If) and not body[0].orelse:
            gens[-1].ifs.append(body[0].test)
            body = body[0].body
        if len(body) == 1 and isinstance(body[0], ast.For):
            cur = body[0]
            continue
        break
    if len(body) != 1:
        return None
    st = body[0]
    loopvars = {n.id for g in gens for n in ast.walk(g.target) if isinstance(n, ast.Name)}
    # `if c: x.append(a) else: x.append(b)`  is  `x.append(a if c else b)`
    if isinstance(st, ast.If) and len(st.body) == 1 and len(st.orelse) == 1:
        a, b = st.body[0], st.orelse[0]
        if all(isinstance(z, ast.Expr) and isinstance(z.value, ast.Call) and isinstance(z.value.func, ast.Attribute) and z.value.func.attr == 'append' and len(z.value.args) == 1 and not z.value.keywords for z in (a, b)) \
                and ast.dump(a.value.func.value) == ast.dump(b.value.func.value):
            st = ast.copy_location(ast.Expr(value=ast.Call(func=a.value.func, args=[ast.IfExp(test=st.test, body=a.value.args[0], orelse=b.value.args[0])], keywords=[])), st)
            ast.fix_missing_locations(st)
    # an inner loop that was already rewritten: `x += [comprehension]` / `x.update({comprehension})`
    if isinstance(st, ast.AugAssign) and isinstance(st.op, ast.Add) and isinstance(st.value, ast.ListComp):
        if {n.id for n in ast.walk(st.target) if isinstance(n, ast.Name)} & loopvars:
            return None
        return 'list', st.target, ast.ListComp(elt=st.value.elt, generators=gens + st.value.generators)
    if isinstance(st, ast.Expr) and isinstance(st.value, ast.Call) and isinstance(st.value.func, ast.Attribute) and st.value.func.attr == 'update' and len(st.value.args) == 1 and isinstance(st.value.args[0], (ast.DictComp, ast.SetComp)):
        tgt = st.value.func.value
        if {n.id for n in ast.walk(tgt) if isinstance(n, ast.Name)} & loopvars:
            return None
        c = st.value.args[0]
        if isinstance(c, ast.DictComp):
            return 'dict', tgt, ast.DictComp(key=c.key, value=c.value, generators=gens + c.generators)
        return 'set', tgt, ast.SetComp(elt=c.elt, generators=gens + c.generators)
    if isinstance(st, ast.Expr) and isinstance(st.value, ast.Call) and isinstance(st.value.func, ast.Attribute) and len(st.value.args) == 1 and not st.value.keywords:
        c = st.value
        tgt = c.func.value
        if {n.id for n in ast.walk(tgt) if isinstance(n, ast.Name)} & loopvars:
            return None
        if c.func.attr == 'append':
            return 'list', tgt, ast.ListComp(elt=c.args[0], generators=gens)
        if c.func.attr == 'add':
            return 'set', tgt, ast.SetComp(elt=c.args[0], generators=gens)
    if isinstance(st, ast.Assign) and len(st.targets) == 1 and isinstance(st.targets[0], ast.Subscript):
        tgt = st.targets[0].value
        if {n.id for n in ast.walk(tgt) if isinstance(n, ast.Name)} & loopvars:
            return None
        return 'dict', tgt, ast.DictComp(key=st.targets[0].slice, value=st.value, generators=gens)
    return None


def _load(e):
    e = copy.deepcopy(e)
    for n in ast.walk(e):
        if hasattr(n, 'ctx'):
            n.ctx = ast.Load()
    return e


def _store(e):
    e = copy.deepcopy(e)

    def go(x):
        if hasattr(x, 'ctx'):
            x.ctx = ast.Store()
        if isinstance(x, (ast.Tuple, ast.List)):
            for y in x.elts:
                go(y)
        elif isinstance(x, ast.Starred):
            go(x.value)
    go(e)
    return e


class BlockLevel:
    """rewrites the statement lists of one function to a fixpoint"""

    def __init__(self, fn: ast.AST, is_pattern: bool = False):
        self.fn = fn
        self.is_pattern = is_pattern

    def run(self):
        if not self.is_pattern:
            self.joined_pieces()
        for _ in range(8):
            changed = self.temporaries()
            for owner, field in _blocks(self.fn):
                old = getattr(owner, field)
                new = self.block(list(old), owner, field)
                if len(new) != len(old) or any(a is not b for a, b in zip(new, old)):
                    changed = True
                setattr(owner, field, new or [ast.copy_location(ast.Pass(), owner)] if field == 'body' else new)
            if self.temporaries():
                changed = True
            if not changed:
                break

    def joined_pieces(self) -> bool:
        """`L = [a, b]` ... `L += [c]` / `L.append(d)` / `L += [f(e) for e in S]` ... `''.join(L)` (L a local used for nothing else)
        ->  `L = a + b` ... `L += c` / `L += d` / `L += ''.join([f(e) for e in S])` ... `L`:
        a text assembled from a list of pieces is that text assembled by concatenation (the pieces are strings, or join raises)."""
        fn = self.fn
        changed = False
        for d in [n for n in ast.walk(fn) if isinstance(n, ast.Assign)]:
            if not (len(d.targets) == 1 and isinstance(d.targets[0], ast.Name) and isinstance(d.value, (ast.List, ast.Tuple)) and not any(isinstance(e, ast.Starred) for e in d.value.elts)):
                continue
            name = d.targets[0].id
            occ = [n for n in ast.walk(fn) if isinstance(n, ast.Name) and n.id == name and n is not d.targets[0]]
            if not occ or any(a.arg == name for a in getattr(getattr(fn, 'args', None), 'args', [])):
                continue
            joins, augs, appends = [], [], []
            used = set()
            for n in ast.walk(fn):
                if isinstance(n, ast.Call) and isinstance(n.func, ast.Attribute) and n.func.attr == 'join' and isinstance(n.func.value, ast.Constant) and n.func.value.value == '' \
                        and len(n.args) == 1 and not n.keywords and isinstance(n.args[0], ast.Name) and n.args[0].id == name:
                    joins.append(n)
                    used.add(id(n.args[0]))
                elif isinstance(n, ast.AugAssign) and isinstance(n.op, ast.Add) and isinstance(n.target, ast.Name) and n.target.id == name and isinstance(d.value, ast.List) \
                        and isinstance(n.value, (ast.List, ast.ListComp)) and not any(isinstance(e, ast.Starred) for e in getattr(n.value, 'elts', [])):
                    augs.append(n)
                    used.add(id(n.target))
                elif isinstance(n, ast.Expr) and isinstance(n.value, ast.Call) and isinstance(n.value.func, ast.Attribute) and n.value.func.attr == 'append' and isinstance(d.value, ast.List) \
                        and isinstance(n.value.func.value, ast.Name) and n.value.func.value.id == name and len(n.value.args) == 1 and not n.value.keywords:
                    appends.append(n)
                    used.add(id(n.value.func.value))
            if len(joins) != 1 or any(id(n) not in used for n in occ):
                continue
            if any(isinstance(m, ast.Name) and m.id == name for a in augs + appends for m in ast.walk(a.value if isinstance(a, ast.AugAssign) else a.value.args[0])):
                continue
            # the join must come after every addition, in the block of the definition
            blk = next((getattr(o, f) for o, f in _blocks(fn) if any(st is d for st in getattr(o, f))), None)
            if blk is None:
                continue
            i = next(k for k, st in enumerate(blk) if st is d)
            holder = next((k for k, st in enumerate(blk) if k > i and any(m is joins[0] for m in ast.walk(st))), None)
            if holder is None:
                continue
            between = {id(m) for st in blk[i + 1:holder] for m in ast.walk(st)}
            if any(id(a) not in between for a in augs + appends):
                continue
            if any(isinstance(m, (ast.FunctionDef, ast.Lambda)) for st in blk[i:holder + 1] for m in ast.walk(st)):
                continue

            def cat(elts):
                if not elts:
                    return ast.Constant(value='')
                e = elts[0]
                for x in elts[1:]:
                    e = NodeLevel().visit_BinOp(ast.BinOp(left=e, op=ast.Add(), right=x))
                return e
            d.value = ast.copy_location(cat(list(d.value.elts)), d.value)
            for a in augs:
                if isinstance(a.value, ast.List):
                    a.value = ast.copy_location(cat(list(a.value.elts)), a.value)
                else:
                    a.value = ast.copy_location(ast.Call(func=ast.Attribute(value=ast.Constant(value=''), attr='join', ctx=ast.Load()), args=[a.value], keywords=[]), a.value)
            for o, f in _blocks(fn):
                stmts = getattr(o, f)
                for k, st in enumerate(stmts):
                    if any(st is a for a in appends):
                        stmts[k] = ast.copy_location(ast.AugAssign(target=ast.Name(id=name, ctx=ast.Store()), op=ast.Add(), value=st.value.args[0]), st)
            holder_st = blk[holder]
            _replace_node(holder_st, joins[0], ast.copy_location(ast.Name(id=name, ctx=ast.Load()), joins[0]))
            ast.fix_missing_locations(fn)
            changed = True
        return changed

    # ---- one statement list
    def push_return(self, stmts):
        """`if c: x = a else: x = b` + `return x` (x used nowhere else)  ->  `if c: return a else: return b`"""
        out = []
        i = 0
        loads, stores = None, None
        while i < len(stmts):
            st = stmts[i]
            nxt = stmts[i + 1] if i + 1 < len(stmts) else None
            if isinstance(st, ast.If) and st.orelse and isinstance(nxt, ast.Return) and isinstance(nxt.value, ast.Name):
                x = nxt.value.id
                leaves = []

                def arms(node):
                    for arm in (node.body, node.orelse):
                        if len(arm) == 1 and isinstance(arm[0], ast.If) and arm[0].orelse:
                            if not arms(arm[0]):
                                return False
                        elif arm and isinstance(arm[-1], ast.Assign) and len(arm[-1].targets) == 1 and isinstance(arm[-1].targets[0], ast.Name) and arm[-1].targets[0].id == x:
                            leaves.append(arm)
                        else:
                            return False
                    return True

                if arms(st):
                    if loads is None:
                        loads, stores = _loads_stores(self.fn)
                    if loads.get(x) == 1 and stores.get(x) == len(leaves):
                        for arm in leaves:
                            a = arm[-1]
                            arm[-1] = ast.copy_location(ast.Return(value=a.value), a)
                        out.append(st)
                        i += 2
                        continue
            out.append(st)
            i += 1
        return out

    def push_use(self, stmts):
        """`if c: x = a else: x = b` followed by `return x` or by a call statement with x as a plain argument
        ->  that statement, with a resp. b for x, in each arm (x being written only by such arms and read only by such statements)"""
        ok = self._pushable()
        out = []
        i = 0
        while i < len(stmts):
            st = stmts[i]
            nxt = stmts[i + 1] if i + 1 < len(stmts) else None
            cand = self._push_candidate(st, nxt)
            if cand is not None and cand[0] in ok:
                x, leaves = cand
                for arm in leaves:
                    a = arm[-1]
                    use = copy.deepcopy(nxt)
                    for n in ast.walk(use):
                        for field, v in ast.iter_fields(n):
                            if isinstance(v, ast.Name) and v.id == x and isinstance(v.ctx, ast.Load):
                                setattr(n, field, a.value)
                            elif isinstance(v, list):
                                for k, e in enumerate(v):
                                    if isinstance(e, ast.Name) and e.id == x and isinstance(e.ctx, ast.Load):
                                        v[k] = a.value
                    arm[-1] = ast.copy_location(use, a)
                out.append(st)
                i += 2
                continue
            out.append(st)
            i += 1
        return out

    @staticmethod
    def _push_candidate(st, nxt):
        if not (isinstance(st, ast.If) and st.orelse and nxt is not None):
            return None
        direct = isinstance(nxt, ast.Return) and isinstance(nxt.value, ast.Name)
        direct = direct or (isinstance(nxt, ast.Expr) and isinstance(nxt.value, ast.Call) and any(isinstance(a, ast.Name) for a in nxt.value.args) and not any(
            isinstance(n, ast.Name) and isinstance(n.ctx, ast.Load) for a in nxt.value.args if not isinstance(a, ast.Name) for n in ast.walk(a)))
        if not direct:
            return None
        first = st.body[-1] if st.body else None
        x = first.targets[0].id if isinstance(first, ast.Assign) and len(first.targets) == 1 and isinstance(first.targets[0], ast.Name) else None
        if x is None:
            return None
        leaves = []

        def arms(node):
            for arm in (node.body, node.orelse):
                if len(arm) == 1 and isinstance(arm[0], ast.If) and arm[0].orelse:
                    if not arms(arm[0]):
                        return False
                elif arm and isinstance(arm[-1], ast.Assign) and len(arm[-1].targets) == 1 and isinstance(arm[-1].targets[0], ast.Name) and arm[-1].targets[0].id == x:
                    leaves.append(arm)
                else:
                    return False
            return True

        if not arms(st):
            return None
        uses = [n for n in ast.walk(nxt) if isinstance(n, ast.Name) and n.id == x and isinstance(n.ctx, ast.Load)]
        if len(uses) != 1:
            return None
        return x, leaves

    def _pushable(self) -> set:
        """names all of whose writes are arms of such ifs and all of whose reads are the statements that follow them"""
        loads, stores = _loads_stores(self.fn)
        n_pairs: dict[str, int] = {}
        n_leaves: dict[str, int] = {}
        for owner, field in _blocks(self.fn):
            v = getattr(owner, field)
            for a, b in zip(v, v[1:]):
                c = self._push_candidate(a, b)
                if c is not None:
                    n_pairs[c[0]] = n_pairs.get(c[0], 0) + 1
                    n_leaves[c[0]] = n_leaves.get(c[0], 0) + len(c[1])
        return {x for x in n_pairs if loads.get(x) == n_pairs[x] and stores.get(x) == n_leaves[x]}

    def raise_first(self, stmts):
        """a block that ends with `if c: return x` + `raise E` is written `if not c: raise E` + `return x`"""
        if len(stmts) >= 2 and isinstance(stmts[-1], ast.Raise) and isinstance(stmts[-2], ast.If) and not stmts[-2].orelse and len(stmts[-2].body) == 1 and isinstance(stmts[-2].body[0], ast.Return):
            iff, rz = stmts[-2], stmts[-1]
            new_if = ast.copy_location(ast.If(test=nnf(negate(iff.test)), body=[rz], orelse=[]), iff)
            return stmts[:-2] + [new_if, iff.body[0]]
        # (in a pattern the message may be built by a gap `___` in front of the raise)
        if len(stmts) >= 3 and isinstance(stmts[-1], ast.Raise) and _is_pattern_gap(stmts[-2]) and isinstance(stmts[-3], ast.If) and not stmts[-3].orelse and len(stmts[-3].body) == 1 and isinstance(stmts[-3].body[0], ast.Return):
            iff = stmts[-3]
            new_if = ast.copy_location(ast.If(test=nnf(negate(iff.test)), body=[stmts[-2], stmts[-1]], orelse=[]), iff)
            return stmts[:-3] + [new_if, iff.body[0]]
        return stmts

    @staticmethod
    def unchain(stmts):
        """`L = list(chain.from_iterable(f(x) for x in S))`  ->  `L = []` ; `for x in S: L += f(x)`"""
        out = []
        for st in stmts:
            v = st.value if isinstance(st, ast.Assign) and len(st.targets) == 1 and isinstance(st.targets[0], ast.Name) else None
            if isinstance(v, ast.Call) and isinstance(v.func, ast.Name) and v.func.id == 'list' and len(v.args) == 1 and not v.keywords:
                c = v.args[0]
                if isinstance(c, ast.Call) and unparse_safe(c.func) in ('itertools.chain.from_iterable', 'chain.from_iterable') and len(c.args) == 1 and not c.keywords \
                        and isinstance(c.args[0], (ast.GeneratorExp, ast.ListComp)) and len(c.args[0].generators) == 1 and not c.args[0].generators[0].ifs and not c.args[0].generators[0].is_async:
                    g = c.args[0].generators[0]
                    name = st.targets[0].id
                    if not any(isinstance(m, ast.Name) and m.id == name for m in ast.walk(c)):
                        out.append(ast.copy_location(ast.Assign(targets=[ast.Name(id=name, ctx=ast.Store())], value=ast.List(elts=[], ctx=ast.Load()), type_comment=None), st))
                        loop = ast.For(target=_store(copy.deepcopy(g.target)), iter=g.iter, body=[ast.AugAssign(target=ast.Name(id=name, ctx=ast.Store()), op=ast.Add(), value=c.args[0].elt)], orelse=[], type_comment=None)
                        out.append(ast.fix_missing_locations(ast.copy_location(loop, st)))
                        continue
            out.append(st)
        return out if len(out) != len(stmts) else stmts

    def block(self, stmts: list, owner, field) -> list:
        if not self.is_pattern:
            stmts = self.unchain(stmts)
        stmts = self.raise_first(stmts)
        stmts = self.local_accumulator(stmts)
        stmts = self.loop_carried(stmts)
        stmts = self.push_use(stmts)
        stmts = self.expand_ifexp(stmts)
        stmts = self.swap_and_hoist(stmts, self.bare_kind(owner, field))
        stmts = self.return_sign(stmts)
        stmts = self.unguard(stmts, owner, field)
        stmts = self.merge_ifs(stmts)
        stmts = self.loops(stmts)
        stmts = self.merge_accumulators(stmts)
        return stmts

    def local_accumulator(self, stmts):
        """`L = []` ... `L.append(e)` ... `x += L` (L used for nothing else, x untouched in between)  ->  `x.append(e)` in place:
        findings collected in a list of their own and added to the report afterwards are findings added to the report"""
        for i, st in enumerate(stmts):
            if not (isinstance(st, ast.Assign) and len(st.targets) == 1 and isinstance(st.targets[0], ast.Name) and isinstance(st.value, ast.List) and not st.value.elts):
                continue
            name = st.targets[0].id
            for j in range(i + 1, len(stmts)):
                e = stmts[j]
                if isinstance(e, ast.AugAssign) and isinstance(e.op, ast.Add) and isinstance(e.value, ast.Name) and e.value.id == name and isinstance(e.target, (ast.Name, ast.Attribute)):
                    break
            else:
                continue
            x = ast.dump(_load(e.target))
            mid = stmts[i + 1:j]
            appends = [n for m in mid for n in ast.walk(m) if isinstance(n, ast.Call) and isinstance(n.func, ast.Attribute) and n.func.attr == 'append' and isinstance(n.func.value, ast.Name) and n.func.value.id == name]
            loads, stores = _loads_stores(self.fn)
            if not appends or stores.get(name) != 1 or loads.get(name) != len(appends) + 1:
                continue
            if any(ast.dump(_load(n)) == x for m in mid for n in ast.walk(m) if isinstance(n, (ast.Name, ast.Attribute))):
                continue  # (x is read or written in between, in whatever context: the order of the additions would change)
            if any(isinstance(n, (ast.FunctionDef, ast.Lambda)) for m in mid for n in ast.walk(m)):
                continue
            for c in appends:
                c.func.value = copy.deepcopy(_load(e.target))
            return self.local_accumulator(stmts[:i] + mid + stmts[j + 1:])
        return stmts

    def loop_carried(self, stmts):
        """`t = E` ... `while P(t): ...; t = E; ...` (t read only by the loop test, nothing E reads is assigned after the two
        definitions)  ->  `while P(E): ...`: the test always sees E of the current values"""
        for j, w in enumerate(stmts):
            if not isinstance(w, ast.While) or w.orelse:
                continue
            tnames = {n.id for n in ast.walk(w.test) if isinstance(n, ast.Name)}
            for t in sorted(tnames):
                pre = [i for i in range(j) if isinstance(stmts[i], ast.Assign) and len(stmts[i].targets) == 1 and isinstance(stmts[i].targets[0], ast.Name) and stmts[i].targets[0].id == t]
                inb = [k for k, b in enumerate(w.body) if isinstance(b, ast.Assign) and len(b.targets) == 1 and isinstance(b.targets[0], ast.Name) and b.targets[0].id == t]
                if len(pre) != 1 or len(inb) != 1:
                    continue
                i, k = pre[0], inb[0]
                e = stmts[i].value
                if ast.dump(e) != ast.dump(w.body[k].value) or not _no_effect(e):
                    continue
                loads, stores = _loads_stores(self.fn)
                in_test = sum(isinstance(n, ast.Name) and n.id == t for n in ast.walk(w.test))
                if stores.get(t) != 2 or loads.get(t) != in_test:
                    continue
                free = {n.id for n in ast.walk(e) if isinstance(n, ast.Name)}
                later = stmts[i + 1:j] + w.body[k + 1:]
                if any(isinstance(n, ast.Name) and isinstance(n.ctx, ast.Store) and n.id in free for m in later for n in ast.walk(m)):
                    continue
                if any(isinstance(n, (ast.Break, ast.Continue)) for b in w.body[:k] for n in ast.walk(b)):
                    continue
                w.test = _Subst({t: e}, {}).visit(w.test)
                w.body = w.body[:k] + w.body[k + 1:]
                return self.loop_carried(stmts[:i] + stmts[i + 1:])
        return stmts

    def expand_ifexp(self, stmts):
        out = []
        for st in stmts:
            if isinstance(st, ast.Return) and isinstance(st.value, ast.IfExp):
                e = st.value
                out.append(ast.copy_location(ast.If(test=e.test, body=[ast.copy_location(ast.Return(value=e.body), st)], orelse=[]), st))
                out.append(ast.copy_location(ast.Return(value=e.orelse), st))
            elif isinstance(st, ast.Assign) and isinstance(st.value, ast.IfExp) and len(st.targets) == 1:
                e = st.value
                a = ast.copy_location(ast.Assign(targets=[st.targets[0]], value=e.body, type_comment=None), st)
                b = ast.copy_location(ast.Assign(targets=[copy.deepcopy(st.targets[0])], value=e.orelse, type_comment=None), st)
                out.append(ast.copy_location(ast.If(test=e.test, body=[a], orelse=[b]), st))
            elif isinstance(st, ast.Expr) and isinstance(st.value, ast.Call) and sum(isinstance(a, ast.IfExp) for a in st.value.args) == 1 and not any(isinstance(k.value, ast.IfExp) for k in st.value.keywords):
                c = st.value
                k = next(m for m, a in enumerate(c.args) if isinstance(a, ast.IfExp))
                e = c.args[k]

                def mk(v):
                    c2 = ast.Call(func=copy.deepcopy(c.func), args=[copy.deepcopy(a) if m != k else v for m, a in enumerate(c.args)], keywords=copy.deepcopy(c.keywords))
                    return ast.fix_missing_locations(ast.copy_location(ast.Expr(value=ast.copy_location(c2, c)), st))

                out.append(ast.copy_location(ast.If(test=e.test, body=[mk(e.body)], orelse=[mk(e.orelse)]), st))
            else:
                out.append(st)
        return out

    @staticmethod
    def bare_kind(owner, field):
        """the jump that only skips the rest of this block: `continue` in a loop body, a bare `return` in a function body"""
        if field != 'body':
            return None
        if isinstance(owner, (ast.FunctionDef, ast.AsyncFunctionDef)):
            return ast.Return
        if isinstance(owner, (ast.For, ast.While)):
            return ast.Continue
        return None

    def swap_and_hoist(self, stmts, bare=None):
        out = []
        for st in stmts:
            if isinstance(st, ast.If) and st.orelse:
                if bare is not None and ((st.body and _is_bare(st.body[-1], bare)) or _is_bare(st.orelse[-1], bare)):
                    out.append(st)  # structured by unguard()
                    continue
                if st.body and isinstance(st.body[-1], JUMP):
                    rest, st.orelse = st.orelse, []
                    out.append(st)
                    out.extend(self.swap_and_hoist(rest, bare))
                    continue
                if isinstance(st.orelse[-1], JUMP):
                    st.test = nnf(negate(st.test))
                    st.body, st.orelse = st.orelse, st.body
                    rest, st.orelse = st.orelse, []
                    out.append(st)
                    out.extend(self.swap_and_hoist(rest, bare))
                    continue
                # (also for `if not a: X elif b: ...`: the chain becomes the nested form `if a: (if b: ...) else: X`)
                pos = positive(st.test)
                if pos is not None:
                    st.test = pos
                    st.body, st.orelse = st.orelse, st.body
            out.append(st)
        return out

    @staticmethod
    def return_sign(stmts):
        """`if not c: return a` + final `return b`  ->  `if c: return b` + `return a` (the two-way return has one spelling)"""
        if len(stmts) >= 2 and isinstance(stmts[-1], ast.Return) and stmts[-1].value is not None:
            st = stmts[-2]
            if isinstance(st, ast.If) and not st.orelse and len(st.body) == 1 and isinstance(st.body[0], ast.Return) and st.body[0].value is not None:
                pos = positive(st.test)
                if pos is not None:
                    st.test = pos
                    st.body[0].value, stmts[-1].value = stmts[-1].value, st.body[0].value
        return stmts

    def unguard(self, stmts, owner, field):
        """a jump that only skips the rest of the block is written as structure:
        `if c: A; continue` [else: B] + rest  ->  `if c: A else: B; rest`   (`if not c: B; rest` when A is empty);
        the same with a bare `return` in a function body"""
        kind = self.bare_kind(owner, field)
        if kind is None:
            return stmts
        for i, st in enumerate(stmts):
            if not isinstance(st, ast.If):
                continue
            if st.orelse and _is_bare(st.orelse[-1], kind) and not (st.body and _is_bare(st.body[-1], kind)):
                st.test = nnf(negate(st.test))
                st.body, st.orelse = st.orelse, st.body
            if st.body and _is_bare(st.body[-1], kind):
                tail = stmts[i + 1:]
                if not st.orelse and not tail:
                    # `if c: A; continue` as the last statement: the jump is redundant
                    st.body = st.body[:-1] or [ast.copy_location(ast.Pass(), st)]
                    continue
                rest = self.unguard(list(st.orelse) + tail, owner, field)
                a = st.body[:-1]
                if a:
                    new = ast.copy_location(ast.If(test=st.test, body=a, orelse=rest), st)
                    pos = positive(new.test)
                    if pos is not None and not (len(new.orelse) == 1 and isinstance(new.orelse[0], ast.If)):
                        new.test, new.body, new.orelse = pos, new.orelse, new.body
                else:
                    new = ast.copy_location(ast.If(test=nnf(negate(st.test)), body=rest, orelse=[]), st)
                return stmts[:i] + [new]
        return stmts

    def merge_ifs(self, stmts):
        out = []
        for st in stmts:
            # nested ifs without else
            while isinstance(st, ast.If) and not st.orelse and len(st.body) == 1 and isinstance(st.body[0], ast.If) and not st.body[0].orelse:
                inner = st.body[0]
                st = ast.copy_location(ast.If(test=nnf(ast.copy_location(ast.BoolOp(op=ast.And(), values=[st.test, inner.test]), st.test)), body=inner.body, orelse=[]), st)
            # same jump-ending body as the previous if
            if out and isinstance(st, ast.If) and isinstance(out[-1], ast.If) and not st.orelse and not out[-1].orelse and st.body and isinstance(st.body[-1], JUMP) and _same_block(st.body, out[-1].body):
                prev = out[-1]
                out[-1] = ast.copy_location(ast.If(test=nnf(ast.copy_location(ast.BoolOp(op=ast.Or(), values=[prev.test, st.test]), prev.test)), body=prev.body, orelse=[]), prev)
                continue
            out.append(st)
        return out

    def loops(self, stmts):
        out = []
        for st in stmts:
            if isinstance(st, ast.For):
                r = _comp_from_loop(st)
                if r is not None:
                    kind, tgt, comp = r
                    comp = ast.copy_location(comp, st)
                    if kind == 'list':
                        new = ast.AugAssign(target=_store(tgt), op=ast.Add(), value=comp)
                    else:
                        new = ast.Expr(value=ast.Call(func=ast.Attribute(value=_load(tgt), attr='update', ctx=ast.Load()), args=[comp], keywords=[]))
                    out.append(ast.fix_missing_locations(ast.copy_location(new, st)))
                    continue
            out.append(st)
        return out

    def merge_accumulators(self, stmts):
        out = []

        def trivial(a):
            """`y = []` / `{}` / constant / `set()`: an initialisation that commutes with everything"""
            if not (isinstance(a, ast.Assign) and len(a.targets) == 1 and isinstance(a.targets[0], ast.Name)):
                return False
            v = a.value
            return (isinstance(v, (ast.List, ast.Tuple)) and not v.elts) or (isinstance(v, ast.Dict) and not v.keys) or isinstance(v, ast.Constant) \
                or (isinstance(v, ast.Call) and isinstance(v.func, ast.Name) and v.func.id in ('set', 'list', 'dict') and not v.args and not v.keywords)

        def target_of(st):
            if isinstance(st, ast.AugAssign):
                return ast.dump(_load(st.target))
            if isinstance(st, ast.Expr) and isinstance(st.value, ast.Call) and isinstance(st.value.func, ast.Attribute):
                return ast.dump(st.value.func.value)
            return None

        for st in stmts:
            prev = out[-1] if out else None
            tt = target_of(st)
            if tt is not None:
                # initialisations of other names between `x = L` and `x += M` do not separate them
                j = len(out) - 1
                while j >= 0 and trivial(out[j]) and ast.dump(_load(out[j].targets[0])) != tt:
                    j -= 1
                if j >= 0 and isinstance(out[j], ast.Assign) and len(out[j].targets) == 1 and ast.dump(_load(out[j].targets[0])) == tt:
                    prev = out[j]
            if prev is not None and isinstance(prev, ast.Assign) and len(prev.targets) == 1:
                t = ast.dump(_load(prev.targets[0]))
                # x = L ; x += M
                if isinstance(st, ast.AugAssign) and isinstance(st.op, ast.Add) and ast.dump(_load(st.target)) == t and isinstance(prev.value, (ast.List, ast.ListComp, ast.BinOp)) and isinstance(st.value, (ast.List, ast.ListComp)) \
                        and t not in ast.dump(st.value):
                    if isinstance(prev.value, ast.List) and not prev.value.elts:
                        prev.value = st.value
                    else:
                        prev.value = ast.copy_location(ast.BinOp(left=prev.value, op=ast.Add(), right=st.value), prev.value)
                    continue
                # d = {} ; d.update(D)   /   s = set() ; s.update(S)
                if isinstance(st, ast.Expr) and isinstance(st.value, ast.Call) and isinstance(st.value.func, ast.Attribute) and st.value.func.attr == 'update' and len(st.value.args) == 1 and not st.value.keywords \
                        and ast.dump(st.value.func.value) == t and t not in ast.dump(st.value.args[0]):
                    arg = st.value.args[0]
                    empty_dict = isinstance(prev.value, ast.Dict) and not prev.value.keys
                    empty_set = isinstance(prev.value, ast.Call) and isinstance(prev.value.func, ast.Name) and prev.value.func.id == 'set' and not prev.value.args
                    if (empty_dict and isinstance(arg, ast.DictComp)) or (empty_set and isinstance(arg, ast.SetComp)):
                        prev.value = arg
                        continue
            out.append(st)
        return out

    # ---- single-use temporaries in front of return / raise
    def temporaries(self) -> bool:
        loads, stores = _loads_stores(self.fn)

        def slot(nxt, x):
            """where the only reader of x sits in the statement that follows its definition, provided nothing but plain names,
            attributes and constants is evaluated between the definition and that reader: (object, attribute or index)"""
            if sum(isinstance(m, ast.Name) and m.id == x and isinstance(m.ctx, ast.Load) for m in ast.walk(nxt)) != 1:
                return None
            if isinstance(nxt, (ast.Return, ast.Expr, ast.Assign)) and nxt.value is not None:
                return _first_evaluated(nxt, 'value', x)
            if isinstance(nxt, ast.Raise) and nxt.exc is not None and nxt.cause is None:
                return _first_evaluated(nxt, 'exc', x)
            if isinstance(nxt, ast.AugAssign) and _simple_arg(nxt.target):
                return _first_evaluated(nxt, 'value', x)
            if isinstance(nxt, ast.If):
                return _first_evaluated(nxt, 'test', x)
            if isinstance(nxt, ast.For):
                return _first_evaluated(nxt, 'iter', x)
            return None

        # in a pattern a gap or a hole that follows may stand for further readers of the name: the general form is then left alone
        # (the matcher bridges a temporary that only one side has); the forms return x / raise E(x) / call statement are always taken
        order = {}
        holes_at = []
        if self.is_pattern:
            for k, n_ in enumerate(_document_order(self.fn)):
                order[id(n_)] = k
                if isinstance(n_, ast.Name) and (n_.id == '___' or (n_.id.startswith('__') and n_.id[2:3].isupper())):
                    holes_at.append(k)

        def narrow(nxt, x):
            if isinstance(nxt, ast.Return) and isinstance(nxt.value, ast.Name) and nxt.value.id == x:
                return True
            if isinstance(nxt, ast.Raise) and isinstance(nxt.exc, ast.Call) and len(nxt.exc.args) == 1 and not nxt.exc.keywords and isinstance(nxt.exc.args[0], ast.Name) and nxt.exc.args[0].id == x:
                return True
            if isinstance(nxt, ast.Expr) and isinstance(nxt.value, ast.Call) and not nxt.value.keywords and _simple_arg(nxt.value.func):
                return any(isinstance(a, ast.Name) and a.id == x for a in nxt.value.args)
            return False

        def pair(st, nxt, protect=True):
            if not (isinstance(st, ast.Assign) and len(st.targets) == 1 and isinstance(st.targets[0], ast.Name)) or nxt is None:
                return None
            x = st.targets[0].id
            if slot(nxt, x) is None:
                return None
            if isinstance(st.value, ast.IfExp) and not isinstance(nxt, (ast.Return, ast.Raise)):
                return None  # a conditional value is written as an if / else statement (expand_ifexp), not carried into its reader
            if protect and self.is_pattern and not narrow(nxt, x):
                head = nxt.test if isinstance(nxt, ast.If) else nxt.iter if isinstance(nxt, ast.For) else nxt
                end = max((order.get(id(m), 0) for m in ast.walk(head) if not isinstance(m, (ast.expr_context, ast.operator, ast.boolop, ast.unaryop, ast.cmpop))), default=0)
                if any(h > end for h in holes_at):
                    return None
            return x

        blocks = _blocks(self.fn)
        pairs: dict[str, int] = {}
        for n, field in blocks:
            v = getattr(n, field)
            for a, b in zip(v, v[1:]):
                x = pair(a, b, protect=False)  # (every definition has its one reader next to it; which ones are taken is decided per pair)
                if x:
                    pairs[x] = pairs.get(x, 0) + 1
        ok = {x for x, k in pairs.items() if stores.get(x) == k and loads.get(x) == k}
        if not ok:
            return False
        changed = False
        for n, field in blocks:
            stmts = getattr(n, field)
            out = []
            i = 0
            while i < len(stmts):
                st = stmts[i]
                nxt = stmts[i + 1] if i + 1 < len(stmts) else None
                x = pair(st, nxt)
                if x in ok:
                    obj, key = slot(nxt, x)
                    if isinstance(key, str):
                        setattr(obj, key, st.value)
                    else:
                        obj[key] = st.value
                    out.append(nxt)
                    i += 2
                    changed = True
                    continue
                out.append(st)
                i += 1
            setattr(n, field, out)
        return changed


def _document_order(root):
    """the nodes under root, depth first in source order"""
    yield root
    for ch in ast.iter_child_nodes(root):
        yield from _document_order(ch)


def _operands(e):
    """(container, key) of the sub-expressions of e that are always evaluated, in evaluation order; None when e has parts that
    are evaluated conditionally, repeatedly or later (those are listed in the second result)"""
    if isinstance(e, ast.Attribute):
        return [(e, 'value')], []
    if isinstance(e, ast.Call):
        ops = [(e, 'func')] + [((a, 'value') if isinstance(a, ast.Starred) else (e.args, i)) for i, a in enumerate(e.args)] + [(k, 'value') for k in e.keywords]
        return ops, []
    if isinstance(e, ast.BinOp):
        return [(e, 'left'), (e, 'right')], []
    if isinstance(e, ast.UnaryOp):
        return [(e, 'operand')], []
    if isinstance(e, ast.Compare):
        return [(e, 'left'), (e.comparators, 0)], list(e.comparators[1:])
    if isinstance(e, ast.Subscript):
        return [(e, 'value'), (e, 'slice')], []
    if isinstance(e, ast.Slice):
        return [(e, f) for f in ('lower', 'upper', 'step') if getattr(e, f) is not None], []
    if isinstance(e, (ast.Tuple, ast.List, ast.Set)):
        return [((a, 'value') if isinstance(a, ast.Starred) else (e.elts, i)) for i, a in enumerate(e.elts)], []
    if isinstance(e, ast.Dict):
        ops = []
        for i in range(len(e.keys)):
            if e.keys[i] is not None:
                ops.append((e.keys, i))
            ops.append((e.values, i))
        return ops, []
    if isinstance(e, ast.JoinedStr):
        return [(v, 'value') if isinstance(v, ast.FormattedValue) else (e.values, i) for i, v in enumerate(e.values)], [v.format_spec for v in e.values if isinstance(v, ast.FormattedValue) and v.format_spec is not None]
    if isinstance(e, ast.IfExp):
        return [(e, 'test')], [e.body, e.orelse]
    if isinstance(e, ast.BoolOp):
        return [(e.values, 0)], list(e.values[1:])
    if isinstance(e, (ast.ListComp, ast.SetComp, ast.GeneratorExp, ast.DictComp)):
        g0 = e.generators[0]
        rest = [x for x in ([e.elt] if not isinstance(e, ast.DictComp) else [e.key, e.value])] + [g0.target] + list(g0.ifs) + [y for g in e.generators[1:] for y in [g.target, g.iter] + list(g.ifs)]
        return ([(g0, 'iter')] if not isinstance(e, ast.GeneratorExp) else []), rest + ([g0.iter] if isinstance(e, ast.GeneratorExp) else [])
    return None, [e]


def _first_evaluated(owner, key, x: str):
    """(container, key) of the Name x inside owner.<key> when every operand evaluated before it is a plain name / attribute /
    constant and x is evaluated exactly once and unconditionally; else None"""
    def get(c, k):
        return getattr(c, k) if isinstance(k, str) else c[k]

    def has_x(n):
        return any(isinstance(m, ast.Name) and m.id == x for m in ast.walk(n))

    def go(c, k):
        e = get(c, k)
        if isinstance(e, ast.Name) and e.id == x:
            return (c, k)
        if isinstance(e, (ast.Name, ast.Constant)):
            return 'simple'
        ops, later = _operands(e)
        if ops is None:
            return None
        for c2, k2 in ops:
            r = go(c2, k2)
            if r == 'simple':
                continue
            if r == 'pure':
                continue
            return r  # found, or blocked (None)
        if any(has_x(n) for n in later if n is not None):
            return None
        if later:
            return 'complex'
        # all operands are plain and x is not among them: an attribute / subscript chain of plain things is itself plain
        return 'simple' if isinstance(e, (ast.Attribute, ast.Subscript, ast.Slice)) else 'complex'

    def top(c, k):
        r = go(c, k)
        return r if isinstance(r, tuple) else None

    # a non-plain operand without x blocks everything after it
    def go_guarded(c, k):
        e = get(c, k)
        if isinstance(e, ast.Name) and e.id == x:
            return (c, k)
        if not has_x(e):
            return 'simple' if _simple_arg(e) else 'complex'
        ops, later = _operands(e)
        if ops is None:
            return None
        for c2, k2 in ops:
            r = go_guarded(c2, k2)
            if r == 'simple':
                continue
            if r == 'complex':
                return None  # something was computed before x is reached
            return r
        return None

    r = go_guarded(owner, key)
    return r if isinstance(r, tuple) else None


# --------------------------------------------------------------------------- helper inlining


def _simple_arg(e) -> bool:
    return isinstance(e, (ast.Name, ast.Constant)) or (isinstance(e, ast.Attribute) and _simple_arg(e.value)) or (isinstance(e, ast.Subscript) and _simple_arg(e.value) and _simple_arg(e.slice))


class _Subst(ast.NodeTransformer):
    def __init__(self, mapping: dict[str, ast.expr], rename: dict[str, str]):
        self.mapping = mapping
        self.rename = rename

    def visit_Name(self, node):
        if node.id in self.mapping and isinstance(node.ctx, ast.Load):
            return ast.copy_location(copy.deepcopy(self.mapping[node.id]), node)
        if node.id in self.rename:
            node.id = self.rename[node.id]
        return node

    def visit_FunctionDef(self, node):
        return node

    def visit_Lambda(self, node):
        return node


def _tail_returns(stmts: list, res: str):
    """the statements with every return (all of them must be in tail position) replaced by `res = value`, or None"""
    if not stmts:
        return None
    *head, last = stmts
    if any(isinstance(n, ast.Return) for st in head for n in ast.walk(st) if not isinstance(st, ast.If)):
        return None
    for i, st in enumerate(head):
        if isinstance(st, ast.If) and any(isinstance(n, ast.Return) for n in ast.walk(st)):
            # `if c: ...return` followed by the rest: both arms are tails
            if st.orelse or not st.body or not isinstance(st.body[-1], ast.Return):
                return None
            a = _tail_returns(st.body, res)
            b = _tail_returns(stmts[i + 1:], res)
            if a is None or b is None:
                return None
            return head[:i] + [ast.copy_location(ast.If(test=st.test, body=a, orelse=b), st)]
    if isinstance(last, ast.Raise):
        return list(stmts)  # a tail that does not return
    if isinstance(last, ast.Return):
        v = last.value if last.value is not None else ast.Constant(value=None)
        return head + [ast.copy_location(ast.Assign(targets=[ast.Name(id=res, ctx=ast.Store())], value=v, type_comment=None), last)]
    if isinstance(last, ast.If):
        a = _tail_returns(last.body, res)
        b = _tail_returns(last.orelse, res) if last.orelse else None
        if a is None or b is None:
            return None
        return head + [ast.copy_location(ast.If(test=last.test, body=a, orelse=b), last)]
    return None


def _inline_body(helper: ast.FunctionDef, call: ast.Call, is_method: bool, tag: str, line_of):
    """(statements, result expression or None) of the helper applied to the arguments of `call`, or None when it cannot be inlined"""
    a = helper.args
    if a.vararg or a.kwarg:
        return None
    if any(not (isinstance(d, ast.Name) and d.id == 'staticmethod') for d in helper.decorator_list):
        return None  # (a decorated helper is whatever its decorator makes of it)
    positional = [x.arg for x in a.posonlyargs + a.args]
    if is_method:
        positional = positional[1:]
    kwonly = [x.arg for x in a.kwonlyargs]
    params = positional + kwonly
    if any(isinstance(x, ast.Starred) for x in call.args) or any(k.arg is None for k in call.keywords) or len(call.args) > len(positional):
        return None
    bound: dict[str, ast.expr] = dict(zip(positional, call.args))
    posonly = {x.arg for x in a.posonlyargs}
    for k in call.keywords:
        if k.arg not in params or k.arg in bound or k.arg in posonly:
            return None
        bound[k.arg] = k.value
    defaults = dict(zip(positional[len(positional) - len(a.defaults):], a.defaults)) if a.defaults else {}
    defaults.update({n: d for n, d in zip(kwonly, a.kw_defaults) if d is not None})
    for p in params:
        if p not in bound:
            if p not in defaults:
                return None
            bound[p] = defaults[p]
    body = [s for s in helper.body if not (isinstance(s, ast.Expr) and isinstance(s.value, ast.Constant) and isinstance(s.value.value, str))]
    body = copy.deepcopy(body)
    # a chain `if c1: return a1` ... `return z` is the expression `a1 if c1 else ... z`
    if len(body) >= 2 and isinstance(body[-1], ast.Return) and body[-1].value is not None and all(
            isinstance(x, ast.If) and not x.orelse and len(x.body) == 1 and isinstance(x.body[0], ast.Return) and x.body[0].value is not None for x in body[:-1]):
        e = body[-1].value
        for x in reversed(body[:-1]):
            e = ast.IfExp(test=x.test, body=x.body[0].value, orelse=e)
        body = [ast.copy_location(ast.Return(value=e), body[-1])]
    # several returns, all in tail position: `if c: A; return e1` + `B; return e2`  ->  `if c: A; r = e1 else: B; r = e2`
    if sum(isinstance(n, ast.Return) for s in body for n in ast.walk(s)) > 1:
        structured = _tail_returns(body, f'result__{tag}')
        if structured is not None:
            body = structured + [ast.Return(value=ast.Name(id=f'result__{tag}', ctx=ast.Load()))]
            for x in body:
                ast.fix_missing_locations(ast.copy_location(x, helper))
    # returns: none, or one final `return e`
    rets = [n for s in body for n in ast.walk(s) if isinstance(n, ast.Return)]
    result = None
    if rets:
        if len(rets) != 1 or body[-1] is not rets[0]:
            return None
        result = rets[0].value
        body = body[:-1]
    if any(isinstance(n, (ast.Yield, ast.YieldFrom, ast.Await, ast.Global, ast.Nonlocal)) for s in helper.body for n in ast.walk(s)):
        return None
    stored = {n.id for s in body for n in ast.walk(s) if isinstance(n, ast.Name) and isinstance(n.ctx, ast.Store)}
    rename = {x: f'{x}__{tag}' for x in stored}
    pre = []
    mapping = {}
    for p in params:
        arg = bound[p]
        if p in stored or not _simple_arg(arg):
            # the parameter is re-assigned in the helper, or the argument is a computation: keep a local
            rename[p] = f'{p}__{tag}'
            pre.append(ast.Assign(targets=[ast.Name(id=rename[p], ctx=ast.Store())], value=copy.deepcopy(arg), type_comment=None))
        else:
            mapping[p] = arg
    sub = _Subst(mapping, rename)
    body = [sub.visit(s) for s in body]
    if result is not None:
        result = sub.visit(copy.deepcopy(result)) if not isinstance(result, ast.Name) or True else result
    out = pre + body
    for s in pre:
        for n in ast.walk(s):
            n.lineno = n.end_lineno = line_of
            n.col_offset = n.end_col_offset = 0
    # the statements of the helper keep their own positions (they are lines of the same file; reports point at them)
    return out, result


_EXPANSION_NAME = re.compile(r'__h\d+$')


def _coalesce_expansion_copies(fn: ast.AST) -> bool:
    """`x__h = E ... y = x__h`: a local of an expanded helper that is only handed over to a name (or to a slot `v[i]` of a local) of the caller
    IS that name / slot.

    x__h (one plain definition d, written by the expansion) is renamed to y and the copy c removed when, on the statement graph of the function,
    (1) no reader of y can be reached from d without passing a writer of y (c included): y is written before it is read wherever the renamed
        definition now reaches (for a slot: no statement that mentions the container at all, other than through c), and
    (2) no other writer of y (for a slot: of the container, of its index, or of any of its slots) lies between d and a reader of x__h or c.
    Only names created by the expansion are renamed; code that was written with a copy keeps it."""
    if not isinstance(fn, ast.FunctionDef):
        return False
    from .cfg import CFG

    changed = False
    params = {a.arg for a in fn.args.args + fn.args.kwonlyargs + fn.args.posonlyargs}
    for _round in range(12):
        inner = {id(m) for n in ast.walk(fn) if isinstance(n, (ast.FunctionDef, ast.Lambda)) and n is not fn for m in ast.walk(n) if m is not n}
        names = [n for n in ast.walk(fn) if isinstance(n, ast.Name)]
        captured = {n.id for n in names if id(n) in inner}
        comp_targets = {m.id for n in ast.walk(fn) if isinstance(n, ast.comprehension) for m in ast.walk(n.target) if isinstance(m, ast.Name)}
        copies = [st for st in ast.walk(fn) if isinstance(st, ast.Assign) and id(st) not in inner and len(st.targets) == 1
                  and isinstance(st.value, ast.Name) and _EXPANSION_NAME.search(st.value.id)]
        done = False
        cfg = None
        for c in copies:
            x, t = c.value.id, c.targets[0]
            if isinstance(t, ast.Name):
                root, index = t.id, None
            elif isinstance(t, ast.Subscript) and isinstance(t.value, ast.Name) and isinstance(t.slice, (ast.Name, ast.Constant)):
                root, index = t.value.id, (t.slice.id if isinstance(t.slice, ast.Name) else None)
            else:
                continue
            slot = isinstance(t, ast.Subscript)
            involved = {x, root} | ({index} if index else set())
            if x == root or involved & captured or involved & comp_targets or {x, root} & params:
                continue
            stores_x = [n for n in names if n.id == x and isinstance(n.ctx, (ast.Store, ast.Del))]
            if len(stores_x) != 1:
                continue
            d = next((st for st in ast.walk(fn) if isinstance(st, ast.Assign) and len(st.targets) == 1 and st.targets[0] is stores_x[0]), None)
            if d is None:
                continue
            cfg = cfg or CFG(fn)
            nd, nc = cfg.node_of(d), cfg.node_of(c)
            if nd is None or nc is None:
                continue
            in_target = {id(m) for m in ast.walk(t)}
            if not slot:
                writers = {cfg.node_of(n) for n in names if n.id == root and isinstance(n.ctx, (ast.Store, ast.Del))}
                killers = set(writers)
                readers_y = {cfg.node_of(n) for n in names if n.id == root and isinstance(n.ctx, ast.Load)}
            else:
                writers = {cfg.node_of(n) for n in names if n.id in (root, index) and isinstance(n.ctx, (ast.Store, ast.Del))}
                writers |= {cfg.node_of(n) for n in ast.walk(fn) if isinstance(n, ast.Subscript) and isinstance(n.ctx, (ast.Store, ast.Del)) and isinstance(n.value, ast.Name) and n.value.id == root}
                killers = {nc}
                readers_y = {cfg.node_of(n) for n in names if n.id == root and id(n) not in in_target}
            readers_x = {cfg.node_of(n) for n in names if n.id == x and isinstance(n.ctx, ast.Load) and n is not c.value}
            if None in writers or None in readers_y or None in readers_x or nd in readers_y:
                continue
            if any(cfg.path_avoiding(nd, r, killers) for r in readers_y if not (slot and r == nc)):
                continue
            if slot and nc in readers_y and any(isinstance(m, ast.Name) and m.id == root for m in ast.walk(c.value)):
                continue
            others = writers - {nc}
            if any(cfg.reaches(nd, w) and cfg.path_avoiding(w, r, {nd}) for w in others for r in readers_x | {nc}):
                continue
            if not slot:
                for n in names:
                    if n.id == x:
                        n.id = root
            else:
                class _R(ast.NodeTransformer):
                    def visit_Name(self, node):
                        if node.id != x:
                            return node
                        new = copy.deepcopy(t)
                        new.ctx = type(node.ctx)()
                        return ast.copy_location(new, node)
                _R().visit(fn)
            for owner, field in _blocks(fn):
                stmts = getattr(owner, field)
                if any(st is c for st in stmts):
                    rest = [st for st in stmts if st is not c]
                    if not rest and isinstance(owner, ast.If) and field == 'body' and owner.orelse:
                        owner.test = negate(owner.test)
                        owner.body, owner.orelse = owner.orelse, []
                    else:
                        setattr(owner, field, rest or [ast.copy_location(ast.Pass(), c)])
            ast.fix_missing_locations(fn)
            changed = done = True
            break
        if not done:
            break
    return changed


def inline_unknown_helpers(tree: ast.Module, path: str) -> None:
    """calls of functions of this module / class that are not in the inventory of the reference tree are expanded in place"""
    inv = inventory()
    if inv is None:
        return
    mod_helpers = {f.name: f for f in tree.body if isinstance(f, ast.FunctionDef) and f'{path}::{f.name}' not in inv}
    counter = [0]

    def expand_in(fn: ast.AST, cls_helpers: dict[str, ast.FunctionDef], depth: int = 0):
        if depth > 2:
            return

        def helper_of(call):
            if isinstance(call.func, ast.Name) and call.func.id in mod_helpers and mod_helpers[call.func.id] is not fn:
                return mod_helpers[call.func.id], False
            if isinstance(call.func, ast.Attribute) and isinstance(call.func.value, ast.Name) and call.func.value.id in ('self', 'cls') and call.func.attr in cls_helpers and cls_helpers[call.func.attr] is not fn:
                h = cls_helpers[call.func.attr]
                static = any(isinstance(d, ast.Name) and d.id == 'staticmethod' for d in h.decorator_list)
                return h, not static
            return None

        changed = False
        for owner, field in _blocks(fn):
            stmts = getattr(owner, field)
            out = []
            for st in stmts:
                call = None
                if isinstance(st, ast.Expr) and isinstance(st.value, ast.Call):
                    call, kind = st.value, 'expr'
                elif isinstance(st, (ast.Assign, ast.AugAssign, ast.Return)) and isinstance(st.value, ast.Call):
                    call, kind = st.value, 'value'
                h = helper_of(call) if call is not None else None
                if h is not None:
                    counter[0] += 1
                    r = _inline_body(h[0], call, h[1], f'h{counter[0]}', st.lineno)
                    if r is not None:
                        h[0]._verif_expanded = getattr(h[0], '_verif_expanded', 0) + 1
                        body, result = r
                        if kind == 'expr':
                            out.extend(body)
                            changed = True
                            continue
                        if result is None:
                            result = ast.Constant(value=None)
                        if isinstance(st, ast.Assign) and len(st.targets) == 1 and isinstance(st.targets[0], ast.Name) and isinstance(result, ast.Name) and result.id.endswith(f'__h{counter[0]}') \
                                and not any(isinstance(n_, ast.Name) and n_.id == st.targets[0].id for b_ in body for n_ in ast.walk(b_)):
                            # `t = helper()` whose helper returns one of its locals: that local is t
                            old_name, new_name = result.id, st.targets[0].id
                            for b_ in body:
                                for n_ in ast.walk(b_):
                                    if isinstance(n_, ast.Name) and n_.id == old_name:
                                        n_.id = new_name
                            out.extend(body)
                            changed = True
                            continue
                        st.value = ast.copy_location(result, st.value)
                        out.extend(body)
                        out.append(st)
                        changed = True
                        continue
                # a helper that is a single `return e` used inside an expression
                for sub in [n for n in ast.walk(st) if isinstance(n, ast.Call)] if not isinstance(st, (ast.FunctionDef, ast.ClassDef, ast.For, ast.While, ast.If, ast.With, ast.Try)) else []:
                    hh = helper_of(sub)
                    if hh is None:
                        continue
                    if _conditionally_evaluated(st, sub):
                        # a helper that is one expression of its (plain) arguments can be written in its place wherever the call stands
                        counter[0] += 1
                        r = _inline_body(hh[0], sub, hh[1], f'h{counter[0]}', st.lineno)
                        if r is not None and not r[0] and r[1] is not None:
                            hh[0]._verif_expanded = getattr(hh[0], '_verif_expanded', 0) + 1
                            _replace_node(st, sub, r[1])
                            changed = True
                        continue
                    counter[0] += 1
                    r = _inline_body(hh[0], sub, hh[1], f'h{counter[0]}', st.lineno)
                    if r is not None and r[1] is not None:
                        hh[0]._verif_expanded = getattr(hh[0], '_verif_expanded', 0) + 1
                        out.extend(r[0])
                        _replace_node(st, sub, r[1])
                        changed = True
                out.append(st)
            setattr(owner, field, out)
        if changed:
            ast.fix_missing_locations(fn)
            _coalesce_expansion_copies(fn)
            expand_in(fn, cls_helpers, depth + 1)

    for h in mod_helpers.values():
        h._verif_new_helper = True
    for node in tree.body:
        if isinstance(node, ast.ClassDef):
            for f in node.body:
                if isinstance(f, ast.FunctionDef) and f'{path}::{node.name}.{f.name}' not in inv:
                    f._verif_new_helper = True
    def nested(fn):
        return [n for n in ast.walk(fn) if isinstance(n, ast.FunctionDef) and n is not fn]

    for node in tree.body:
        if isinstance(node, ast.FunctionDef):
            for g in nested(node):  # (the wrapper inside a decorator)
                expand_in(g, {})
            expand_in(node, {})
        elif isinstance(node, ast.ClassDef):
            helpers = {f.name: f for f in node.body if isinstance(f, ast.FunctionDef) and f'{path}::{node.name}.{f.name}' not in inv}
            # a method that another class of the module defines too may be an override: `self.m()` is then not the body seen here
            elsewhere = {f.name for c in tree.body if isinstance(c, ast.ClassDef) and c is not node for f in c.body if isinstance(f, ast.FunctionDef)}
            helpers = {k: v for k, v in helpers.items() if k not in elsewhere}
            for f in node.body:
                if isinstance(f, ast.FunctionDef):
                    for g in nested(f):
                        expand_in(g, helpers)
                    expand_in(f, helpers)
    _mark_transparent(tree)


def _mark_transparent(tree: ast.Module) -> None:
    """a new helper none of whose uses is left after the expansion is examined through its callers only"""
    helpers = [n for n in ast.walk(tree) if isinstance(n, ast.FunctionDef) and getattr(n, '_verif_new_helper', False)]
    for h in helpers:
        own = {id(x) for x in ast.walk(h)}
        used = any((isinstance(n, ast.Name) and n.id == h.name) or (isinstance(n, ast.Attribute) and n.attr == h.name) for n in ast.walk(tree) if id(n) not in own)
        # examined through its callers only if it had callers and all of them were expanded; a new function nobody calls is a new entry point
        h._verif_transparent = not used and getattr(h, '_verif_expanded', 0) > 0


def _conditionally_evaluated(st: ast.AST, call: ast.Call) -> bool:
    """the call sits in a part of the statement that is not always evaluated (or evaluated several times)"""
    def inside(n, seen_cond):
        if n is call:
            return seen_cond
        for field, v in ast.iter_fields(n):
            children = v if isinstance(v, list) else [v]
            for ch in children:
                if not isinstance(ch, ast.AST):
                    continue
                cond = seen_cond
                if isinstance(n, ast.IfExp) and field in ('body', 'orelse'):
                    cond = True
                if isinstance(n, ast.BoolOp) and ch is not n.values[0]:
                    cond = True
                if isinstance(n, (ast.Lambda, ast.ListComp, ast.SetComp, ast.DictComp, ast.GeneratorExp)) and not (field == 'generators' and isinstance(v, list) and ch is v[0]):
                    cond = True
                if isinstance(n, ast.comprehension) and field != 'iter':
                    cond = True
                r = inside(ch, cond)
                if r is not None:
                    return r
        return None

    return bool(inside(st, False))


def _replace_node(root: ast.AST, old: ast.AST, new: ast.AST) -> None:
    for parent in ast.walk(root):
        for field, value in ast.iter_fields(parent):
            if value is old:
                setattr(parent, field, ast.copy_location(new, old))
                return
            if isinstance(value, list):
                for i, v in enumerate(value):
                    if v is old:
                        value[i] = ast.copy_location(new, old)
                        return


# --------------------------------------------------------------------------- entry points


def _functions(tree: ast.AST):
    for n in ast.walk(tree):
        if isinstance(n, (ast.FunctionDef, ast.AsyncFunctionDef)):
            yield n


def _inline_new_constants(tree: ast.Module, path: str, inv) -> None:
    """a module-level name that the reference tree does not have, assigned once to a literal (a string or a number moved into
    a named constant), is read as that literal"""
    consts: dict[str, ast.Constant] = {}
    stores: dict[str, int] = {}
    for n in ast.walk(tree):
        if isinstance(n, ast.Name) and isinstance(n.ctx, (ast.Store, ast.Del)):
            stores[n.id] = stores.get(n.id, 0) + 1
        elif isinstance(n, (ast.Global, ast.Nonlocal)):
            for x in n.names:
                stores[x] = stores.get(x, 0) + 2
        elif isinstance(n, ast.arg):
            stores[n.arg] = stores.get(n.arg, 0) + 1
    for st in tree.body:
        if isinstance(st, (ast.Assign, ast.AnnAssign)) and isinstance(getattr(st, 'value', None), ast.Constant) and isinstance(st.value.value, (str, int, float)) and not isinstance(st.value.value, bool):
            tg = st.targets[0] if isinstance(st, ast.Assign) and len(st.targets) == 1 else getattr(st, 'target', None)
            if isinstance(tg, ast.Name) and f'{path}::={tg.id}' not in inv and stores.get(tg.id) == 1 and any(x.startswith(path + '::') for x in inv):
                consts[tg.id] = st.value
    if not consts:
        return

    class Sub(ast.NodeTransformer):
        def visit_Name(self, node):
            if isinstance(node.ctx, ast.Load) and node.id in consts:
                return ast.copy_location(ast.Constant(value=consts[node.id].value), node)
            return node

    for k, st in enumerate(tree.body):
        if isinstance(st, (ast.FunctionDef, ast.ClassDef)):
            tree.body[k] = Sub().visit(st)
    tree = _FoldStrings().visit(tree)


def _is_chain(e) -> bool:
    while isinstance(e, ast.Attribute):
        e = e.value
    return isinstance(e, ast.Name)


def _qualified_functions(tree: ast.Module):
    for n in tree.body:
        if isinstance(n, ast.FunctionDef):
            yield n.name, n
        elif isinstance(n, ast.ClassDef):
            for f in n.body:
                if isinstance(f, ast.FunctionDef):
                    yield f'{n.name}.{f.name}', f


def alias_entries(tree: ast.Module, path: str) -> set[str]:
    """`path::qualname::~x=chain` for every local alias `x = <name or attribute chain>` of the functions of the module"""
    out = set()
    for q, fn in _qualified_functions(tree):
        for st in ast.walk(fn):
            if isinstance(st, (ast.Assign, ast.AnnAssign)) and getattr(st, 'value', None) is not None:
                t = st.targets[0] if isinstance(st, ast.Assign) and len(st.targets) == 1 else getattr(st, 'target', None)
                if isinstance(t, ast.Name) and _is_chain(st.value):
                    out.add(f'{path}::{q}::~{t.id}={ast.unparse(st.value)}')
    return out


def _propagate_new_aliases(tree: ast.Module, path: str, inv) -> None:
    """`x = self.a.b` ... uses of x, where the reference tree has no such local in this function: x IS self.a.b.

    A local that only gives a shorter name to a parameter, a name or an attribute chain is read as that chain, provided the function never
    re-binds x, the root of the chain or one of its prefixes, and no statement between the definition and a use calls a method directly on the
    root object or hands the root object to a call (such a call may re-bind the attribute: the local would then be an older value)."""
    from .cfg import CFG

    for q, fn in _qualified_functions(tree):
        if f'{path}::{q}' not in inv:
            continue  # (new helpers are expanded into their callers first)
        for _round in range(20):
            names = [n for n in ast.walk(fn) if isinstance(n, ast.Name)]
            inner = {id(m) for n in ast.walk(fn) if isinstance(n, (ast.FunctionDef, ast.Lambda)) and n is not fn for m in ast.walk(n) if m is not n}
            comp_targets = {m.id for n in ast.walk(fn) if isinstance(n, ast.comprehension) for m in ast.walk(n.target) if isinstance(m, ast.Name)}
            params = {a.arg for a in fn.args.args + fn.args.kwonlyargs + fn.args.posonlyargs} | ({fn.args.vararg.arg} if fn.args.vararg else set()) | ({fn.args.kwarg.arg} if fn.args.kwarg else set())
            done = False
            cfg = None
            for d in [st for st in ast.walk(fn) if isinstance(st, ast.Assign) and id(st) not in inner]:
                if not (len(d.targets) == 1 and isinstance(d.targets[0], ast.Name) and _is_chain(d.value)):
                    continue
                x = d.targets[0].id
                chain = ast.unparse(d.value)
                if f'{path}::{q}::~{x}={chain}' in inv or _EXPANSION_NAME.search(x):
                    continue
                root = chain.split('.')[0]
                if x == root or x in params or x in comp_targets or root in comp_targets:
                    continue
                if sum(1 for n in names if n.id == x and isinstance(n.ctx, (ast.Store, ast.Del))) != 1:
                    continue
                if any(n.id == root and isinstance(n.ctx, (ast.Store, ast.Del)) for n in names):
                    continue
                uses = [n for n in names if n.id == x and isinstance(n.ctx, ast.Load)]
                if not uses or any(id(n) in inner for n in uses):
                    continue
                # no store to the chain or to one of its prefixes anywhere in the function
                prefixes = {'.'.join(chain.split('.')[:k]) for k in range(2, chain.count('.') + 2)}
                if any(isinstance(n, ast.Attribute) and isinstance(n.ctx, (ast.Store, ast.Del)) and _is_chain(n) and ast.unparse(n) in prefixes for n in ast.walk(fn)):
                    continue
                cfg = cfg or CFG(fn)
                nd = cfg.node_of(d)
                use_nodes = {cfg.node_of(n) for n in uses}
                if nd is None or None in use_nodes:
                    continue
                if not all(cfg.dominates(nd, u) for u in use_nodes):
                    continue
                if '.' in chain:
                    def touches(c: ast.Call) -> bool:
                        # a method call on the root object or on any object on the way to the attribute (`self.database.build_panel_map()`
                        # for `self.database.individualMap`), or a call that is handed one of them
                        on_the_way = prefixes | {root}
                        if isinstance(c.func, ast.Attribute) and _is_chain(c.func.value) and ast.unparse(c.func.value) in on_the_way:
                            return True
                        return any(_is_chain(a) and ast.unparse(a) in on_the_way for a in list(c.args) + [k.value for k in c.keywords])
                    risky = {cfg.node_of(c) for c in ast.walk(fn) if isinstance(c, ast.Call) and id(c) not in inner and touches(c)} - {None}
                    between = {r for r in risky if r != nd and cfg.reaches(nd, r) and any(cfg.path_avoiding(r, u, {nd}) for u in use_nodes)}
                    # (a use in the same statement as such a call is evaluated with it: also refused)
                    if between:
                        continue
                for n in uses:
                    _replace_node(fn, n, ast.copy_location(copy.deepcopy(d.value), n))
                for owner, field in _blocks(fn):
                    stmts = getattr(owner, field)
                    if any(st is d for st in stmts):
                        setattr(owner, field, [st for st in stmts if st is not d] or [ast.copy_location(ast.Pass(), d)])
                ast.fix_missing_locations(fn)
                done = True
                break
            if not done:
                break


def normalise_module(tree: ast.Module, path: str) -> ast.Module:
    tree = NodeLevel(path).visit(tree)
    # helpers that the reference tree does not have are normalised first (several returns become one result), then expanded into
    # callers that still have their statements as written (a call that is a statement of its own is the easy case), then
    # everything is normalised, innermost functions first
    inv = inventory()
    if inv is not None:
        _inline_new_constants(tree, path, inv)
        new = [f for f in tree.body if isinstance(f, ast.FunctionDef) and f'{path}::{f.name}' not in inv]
        new += [f for c in tree.body if isinstance(c, ast.ClassDef) for f in c.body if isinstance(f, ast.FunctionDef) and f'{path}::{c.name}.{f.name}' not in inv]
        for h in new:
            for fn in reversed([h] + [n for n in ast.walk(h) if isinstance(n, ast.FunctionDef) and n is not h]):
                BlockLevel(fn).run()
        inline_unknown_helpers(tree, path)
        if any(getattr(fn, '_verif_expanded', 0) for fn in _functions(tree)):
            tree = _FoldStrings().visit(tree)  # (a constant argument of a helper may now stand in a formatted string)
    if inv is not None and any('::~' in x for x in inv) and not os.environ.get('VERIF_NO_ALIAS'):
        _propagate_new_aliases(tree, path, inv)
    for fn in reversed(list(_functions(tree))):
        BlockLevel(fn).run()
    if inv is not None and any(getattr(fn, '_verif_expanded', 0) for fn in _functions(tree)):
        # (a call that only became a statement of its own through the normal form)
        inline_unknown_helpers(tree, path)
        tree = _FoldStrings().visit(tree)
        for fn in reversed(list(_functions(tree))):
            BlockLevel(fn).run()
    ast.fix_missing_locations(tree)
    number(tree)
    return tree


def number(tree: ast.AST) -> None:
    """document order of the normalised tree (expanded helpers keep the line numbers of their definition, so line numbers do
    not order the statements of a function any more): node._verif_seq"""
    k = [0]

    shared = (ast.expr_context, ast.operator, ast.boolop, ast.unaryop, ast.cmpop)  # singletons shared by all trees

    def go(n, fn):
        if isinstance(n, shared):
            return
        k[0] += 1
        n._verif_seq = k[0]
        n._verif_func = fn
        inner = n if isinstance(n, (ast.FunctionDef, ast.AsyncFunctionDef)) else fn
        for ch in ast.iter_child_nodes(n):
            go(ch, inner)

    go(tree, None)


def single_definitions(fn: ast.AST) -> dict[str, ast.Assign]:
    """locals of the function that are written by exactly one plain assignment `x = e` (not parameters, not loop or with
    targets, not augmented, not global): the temporaries a matcher may look through.  Cached on the function node."""
    cached = getattr(fn, '_verif_single_defs', None)
    if cached is not None:
        return cached
    stores: dict[str, list] = {}
    bad: set[str] = set()
    args = getattr(fn, 'args', None)
    if args is not None:
        for a in args.posonlyargs + args.args + args.kwonlyargs + [x for x in (args.vararg, args.kwarg) if x]:
            bad.add(a.arg)
    for n in ast.walk(fn):
        if isinstance(n, ast.Assign) and len(n.targets) == 1 and isinstance(n.targets[0], ast.Name):
            stores.setdefault(n.targets[0].id, []).append(n)
        elif isinstance(n, ast.Name) and isinstance(n.ctx, (ast.Store, ast.Del)):
            stores.setdefault(n.id, []).append(None)
        elif isinstance(n, (ast.Global, ast.Nonlocal)):
            bad.update(n.names)
    out = {}
    for name, defs in stores.items():
        # every Name store is seen twice when it is a plain assignment target (once through the Assign, once as a Name)
        plain = [d for d in defs if d is not None]
        if name not in bad and len(plain) == 1 and len(defs) == 2:
            out[name] = plain[0]
    try:
        fn._verif_single_defs = out
    except AttributeError:
        pass
    return out


class _PatternFunc(ast.FunctionDef):
    pass


def normalise_pattern(tree: ast.Module) -> ast.Module:
    """the same normal form for a pattern: its statements are treated as (part of) a function body.  Rewritings that need
    to see the end of the function body (bare-return guards) are not applied to the top level of a pattern."""
    n = NodeLevel()
    n.depth = 1
    tree = n.visit(tree)
    for fn in reversed(list(_functions(tree))):
        BlockLevel(fn, is_pattern=True).run()
    if tree.body and (isinstance(tree.body[-1], ast.Return) or any(isinstance(st, ast.If) and ((st.body and _is_bare(st.body[-1], ast.Return)) or (st.orelse and _is_bare(st.orelse[-1], ast.Return))) for st in tree.body)):
        # a pattern that ends with a return describes the end of a function body: it is normalised as one
        fake = ast.FunctionDef(name='_pattern_', args=ast.arguments(posonlyargs=[], args=[], kwonlyargs=[], kw_defaults=[], defaults=[]), body=tree.body, decorator_list=[], lineno=1, col_offset=0)
        BlockLevel(fake, is_pattern=True).run()
        tree.body = fake.body
    else:
        BlockLevel(tree, is_pattern=True).run()
    ast.fix_missing_locations(tree)
    return tree


def as_loop(st: ast.stmt):
    """the explicit loop that the normal form `x += [e for ...]` / `x.update({k: v for ...})` / `x = [e for ...]` stands for
    (statements: optional initialisation + nested for / if with one append / item assignment / add), or None.
    Interpreters that follow loops statement by statement use it to read comprehension statements."""
    init = None
    comp = None
    tgt = None
    if isinstance(st, ast.AugAssign) and isinstance(st.op, ast.Add) and isinstance(st.value, ast.ListComp):
        comp, tgt = st.value, st.target
    elif isinstance(st, ast.Expr) and isinstance(st.value, ast.Call) and isinstance(st.value.func, ast.Attribute) and st.value.func.attr == 'update' and len(st.value.args) == 1 \
            and isinstance(st.value.args[0], (ast.DictComp, ast.SetComp)):
        comp, tgt = st.value.args[0], st.value.func.value
    elif isinstance(st, ast.Assign) and len(st.targets) == 1 and isinstance(st.value, (ast.ListComp, ast.DictComp, ast.SetComp)):
        comp, tgt = st.value, st.targets[0]
        empty = ast.List(elts=[], ctx=ast.Load()) if isinstance(comp, ast.ListComp) else ast.Dict(keys=[], values=[]) if isinstance(comp, ast.DictComp) else ast.Call(func=ast.Name(id='set', ctx=ast.Load()), args=[], keywords=[])
        init = ast.copy_location(ast.Assign(targets=[_store(tgt)], value=empty, type_comment=None), st)
    elif isinstance(st, ast.Assign) and len(st.targets) == 1 and isinstance(st.value, ast.BinOp) and isinstance(st.value.op, ast.Add) and isinstance(st.value.right, ast.ListComp):
        comp, tgt = st.value.right, st.targets[0]
        init = ast.copy_location(ast.Assign(targets=[_store(tgt)], value=st.value.left, type_comment=None), st)
    if comp is None:
        return None
    if isinstance(comp, ast.ListComp):
        inner: ast.stmt = ast.Expr(value=ast.Call(func=ast.Attribute(value=_load(tgt), attr='append', ctx=ast.Load()), args=[comp.elt], keywords=[]))
    elif isinstance(comp, ast.SetComp):
        inner = ast.Expr(value=ast.Call(func=ast.Attribute(value=_load(tgt), attr='add', ctx=ast.Load()), args=[comp.elt], keywords=[]))
    else:
        inner = ast.Assign(targets=[ast.Subscript(value=_load(tgt), slice=comp.key, ctx=ast.Store())], value=comp.value, type_comment=None)
    body = inner
    for g in reversed(comp.generators):
        for t in reversed(g.ifs):
            body = ast.If(test=t, body=[body], orelse=[])
        body = ast.For(target=g.target, iter=g.iter, body=[body], orelse=[], type_comment=None)
    out = ([init] if init is not None else []) + [body]
    for x in out:
        ast.copy_location(x, st)
        ast.fix_missing_locations(x)
    return out


def as_if(st: ast.stmt):
    """the if / else statement that a conditional value stands for: `x = a if c else b`, `return a if c else b`,
    `f(.., a if c else b, ..)` as a statement; or None"""
    def build(make, e):
        return ast.If(test=e.test, body=[make(e.body)], orelse=[make(e.orelse)])

    new = None
    if isinstance(st, ast.Assign) and isinstance(st.value, ast.IfExp) and len(st.targets) == 1:
        new = build(lambda v: ast.Assign(targets=[copy.deepcopy(st.targets[0])], value=v, type_comment=None), st.value)
    elif isinstance(st, ast.Return) and isinstance(st.value, ast.IfExp):
        new = build(lambda v: ast.Return(value=v), st.value)
    elif isinstance(st, ast.Expr) and isinstance(st.value, ast.Call):
        c = st.value
        ks = [k for k, a in enumerate(c.args) if isinstance(a, ast.IfExp)]
        if len(ks) == 1 and not any(isinstance(k.value, ast.IfExp) for k in c.keywords):
            k = ks[0]

            def make(v):
                c2 = ast.Call(func=copy.deepcopy(c.func), args=[copy.deepcopy(a) if m != k else v for m, a in enumerate(c.args)], keywords=copy.deepcopy(c.keywords))
                return ast.Expr(value=c2)

            new = build(make, c.args[k])
    if new is None:
        return None
    ast.copy_location(new, st)
    for x in ast.walk(new):
        if not hasattr(x, 'lineno'):
            ast.copy_location(x, st)
    ast.fix_missing_locations(new)
    return new


def _as_string_loop(st: ast.stmt):
    """`s = A + ''.join([F for x in X])` / `s += ''.join([F for x in X])`  ->  `s = A` ; `for x in X: s += F`  (a text built
    piece by piece, for the interpreters that follow an accumulator)"""
    if not (isinstance(st, (ast.Assign, ast.AugAssign)) and (isinstance(st, ast.AugAssign) or len(st.targets) == 1)):
        return None
    tgt = st.target if isinstance(st, ast.AugAssign) else st.targets[0]
    if not isinstance(tgt, ast.Name) or (isinstance(st, ast.AugAssign) and not isinstance(st.op, ast.Add)):
        return None

    def joined(e):
        if isinstance(e, ast.Call) and isinstance(e.func, ast.Attribute) and e.func.attr == 'join' and isinstance(e.func.value, ast.Constant) and e.func.value.value == '' \
                and len(e.args) == 1 and not e.keywords and isinstance(e.args[0], (ast.ListComp, ast.GeneratorExp)):
            return e.args[0]
        return None

    v = st.value
    head = None
    comp = joined(v)
    if comp is None and isinstance(v, ast.BinOp) and isinstance(v.op, ast.Add):
        comp, head = joined(v.right), v.left
    if comp is None or (head is None and isinstance(st, ast.Assign)):
        return None
    inner: ast.stmt = ast.AugAssign(target=ast.Name(id=tgt.id, ctx=ast.Store()), op=ast.Add(), value=comp.elt)
    for g in reversed(comp.generators):
        for c in reversed(g.ifs):
            inner = ast.If(test=c, body=[inner], orelse=[])
        inner = ast.For(target=g.target, iter=g.iter, body=[inner], orelse=[])
    first = [ast.Assign(targets=[tgt], value=head, type_comment=None) if isinstance(st, ast.Assign) else ast.AugAssign(target=tgt, op=ast.Add(), value=head)] if head is not None else []
    res = first + [inner]
    for x in res:
        ast.copy_location(x, st)
        ast.fix_missing_locations(x)
        for n in ast.walk(x):
            if not hasattr(n, '_verif_seq'):
                n._verif_seq = getattr(st, '_verif_seq', 0)
    return res


def explicit(stmts: list) -> list:
    """the statements with conditional values written as if / else and comprehension statements written as loops, recursively:
    the form read by the interpreters that follow a function statement by statement (record templates, degree typing,
    closed forms); the patterns work on the normal form itself"""
    out = []
    for st in stmts:
        js = _as_string_loop(st)
        if js is not None:
            out.extend(explicit(js))
            continue
        lp = as_loop(st) if not (isinstance(st, ast.Assign) and isinstance(st.value, (ast.ListComp, ast.DictComp, ast.SetComp))) else None
        if lp is not None:
            out.extend(explicit(lp))
            continue
        iff = as_if(st)
        if iff is not None:
            out.extend(explicit([iff]))
            continue
        if isinstance(st, (ast.If, ast.For, ast.While, ast.With, ast.Try)):
            st = copy.copy(st)
            for field in ('body', 'orelse', 'finalbody'):
                v = getattr(st, field, None)
                if isinstance(v, list) and v and isinstance(v[0], ast.stmt):
                    setattr(st, field, explicit(v))
        out.append(st)
    return out

