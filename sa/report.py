"""Obligations, findings, known findings, evidence files."""

from __future__ import annotations

import json
import os
import re
import time
from dataclasses import dataclass, field

from .core import AnalysisError, Program, digest

VERIF = os.path.dirname(os.path.dirname(os.path.abspath(__file__)))
KNOWN_FILE = os.path.join(VERIF, 'known_findings.json')


SHAPE_WORDING = re.compile(r'\b(changed|no longer|not recognised|not in the expected form|does not mirror|not found)\b')


def norm_text(text: str) -> str:
    return re.sub(r'\s+', ' ', text).strip()


@dataclass
class Obligation:
    rule: str
    construct: str  # qualified name of the construct carrying the obligation
    ok: bool
    file: str
    line: int
    message: str
    detail: str = ''  # normalised offending text (part of the finding key)
    recognised: bool = True  # False: the rule could not find the shape it understands - neither holds nor violated

    @property
    def key(self) -> str:
        return f'{self.rule}|{self.construct}|{norm_text(self.detail)}'

    def to_json(self) -> dict:
        return {
            'rule': self.rule,
            'construct': self.construct,
            'verdict': 'holds' if self.ok else ('VIOLATED' if self.recognised else 'NOT-RECOGNISED'),
            'where': f'{self.file}:{self.line}',
            'message': self.message,
            'detail': norm_text(self.detail),
            'key': self.key,
        }


class Ctx:
    """What a rule module talks to."""

    def __init__(self, prog: Program, prop: str, tier: str = 'quick'):
        self.prog = prog
        self.prop = prop
        self.tier = tier
        self.obligations: list[Obligation] = []
        self.notes: list[str] = []
        self.rule_docs: dict[str, str] = {}
        self.floors: list[tuple[str, int, int]] = []
        self.not_decided: list[str] = []
        #: (rule, regular expression on the construct, reason): obligations whose failure is a definite contradiction of the
        #: property, declared by the rule set of the property (module attribute POSITIVE).  Every other failure is "not
        #: recognised" (exit 2): the rule saw something it does not understand and does not accuse.
        self.positive_table: list[tuple[str, str, str]] = []

    def rule(self, rule: str, doc: str) -> None:
        self.rule_docs[rule] = norm_text(doc)

    def add(self, rule: str, construct: str, ok: bool | None, where, message: str, detail: str = '', positive: bool = False) -> bool:
        """where: (file, line) or an object with .file/.line, or (FuncInfo, ast node).
        ok=None: the construct does not have a shape the rule understands (see shape()).
        positive=True: a failure is a definite contradiction of the property even though its message talks about change."""
        file, line = _where(where)
        if ok is False and not positive and not SHAPE_WORDING.search(message):
            positive = any(r == rule and re.search(pat, construct) for r, pat, _why in self.positive_table)
        if ok is False and not positive and (SHAPE_WORDING.search(message) or not os.environ.get('VERIF_LENIENT')):
            # the rule only knows that the construct does not look as expected ("... changed", "... no longer ..."): it has not
            # identified anything that contradicts the property, so this is "not recognised", never an accusation
            ok = None
        self.obligations.append(Obligation(rule, construct, bool(ok), file, line, norm_text(message), detail, recognised=ok is not None))
        return bool(ok)

    def adopt(self, rule: str, o: 'Obligation') -> bool:
        """an obligation decided by the rules of another property, taken over under `rule` with its verdict unchanged
        (discharged / violated / not recognised)"""
        return self.add(rule, o.construct, (o.ok if o.recognised else None), (o.file, o.line), o.message, o.detail, positive=o.recognised and not o.ok)

    def shape(self, rule: str, construct: str, matched, where, ok_message: str, what: str) -> bool:
        """An obligation decided by recognising a shape.  A match discharges it.  No match is NOT a violation: the code may
        have been rewritten in an idiom the rule does not know, so the analysis refuses to vouch (exit 2) instead of
        accusing.  `what`: what the rule was looking for."""
        if matched:
            return self.add(rule, construct, True, where, ok_message, '')
        return self.add(rule, construct, None, where, f'shape not recognised - expected: {what}', 'not-recognised')

    def note(self, text: str) -> None:
        self.notes.append(norm_text(text))

    def floor(self, rule: str, minimum: int) -> None:
        """fail closed when a rule sees fewer instances than confirmed by hand."""
        n = sum(1 for o in self.obligations if o.rule == rule)
        self.floors.append((rule, n, minimum))
        if n < minimum and any(o.rule == rule and not o.ok and o.recognised for o in self.obligations):
            # the rule has already identified a contradiction of the property among the instances it found: that verdict stands,
            # the missing instances are reported as not recognised next to it
            self.add(rule, f'{rule}:instances', None, (self.obligations[-1].file, 1), f'only {n} instance(s) found, at least {minimum} were confirmed by hand: some instances are not in the expected form', 'floor')
            return
        if n < minimum:
            raise AnalysisError(
                f'rule {rule}: only {n} instance(s) found, at least {minimum} were confirmed by hand on the '
                f'reference tree; the code no longer has the shape this rule understands'
            )

    def need(self, cond, what: str):
        """an anchor the rule cannot work without"""
        if not cond:
            raise AnalysisError(f'{self.prop}: anchor missing: {what}')
        return cond


def _where(where) -> tuple[str, int]:
    if isinstance(where, tuple) and len(where) == 2:
        a, b = where
        if isinstance(a, str):
            return a, int(b)
        file = getattr(a, 'file', None) or getattr(a, 'path', '?')
        line = getattr(b, 'lineno', None) or getattr(a, 'line', 0)
        return file, int(line)
    return getattr(where, 'file', '?'), int(getattr(where, 'line', 0))


# --------------------------------------------------------------------------


def load_known() -> dict:
    if not os.path.exists(KNOWN_FILE):
        return {'known': [], 'fixed': []}
    with open(KNOWN_FILE, encoding='utf-8') as f:
        return json.load(f)


def known_keys(prop: str) -> dict[str, dict]:
    return {k['key']: k for k in load_known().get('known', []) if k['property'] == prop}


def finish(ctx: Ctx, t0: float, extra: dict | None = None, write_evidence: bool = True) -> int:
    """Print the report, write replay + evidence, return the exit code."""
    prop = ctx.prop
    known = known_keys(prop)
    unrec = [o for o in ctx.obligations if not o.ok and not o.recognised]
    fails = [o for o in ctx.obligations if not o.ok and o.recognised]
    new, listed = [], []
    for o in fails:
        (listed if o.key in known else new).append(o)
    stale = [k for k in known if k not in {o.key for o in fails}]

    st = ctx.prog.stats()
    print(
        f'[{prop}] analysed {st["modules"]} modules, {st["classes"]} classes, {st["functions"]} functions, '
        f'{st["call_sites"]} call sites; {len(ctx.obligations)} obligations over {len(ctx.rule_docs)} rules'
    )
    per_rule: dict[str, list[Obligation]] = {}
    for o in ctx.obligations:
        per_rule.setdefault(o.rule, []).append(o)
    for r in sorted(per_rule):
        obs = per_rule[r]
        bad = sum(1 for o in obs if not o.ok and o.recognised)
        nr = sum(1 for o in obs if not o.ok and not o.recognised)
        print(f'  {r}: {len(obs)} obligations, {len(obs) - bad - nr} discharged' + (f', {bad} FAILED' if bad else '') + (f', {nr} NOT RECOGNISED' if nr else ''))
    for n in ctx.notes:
        print(f'XREF-NOTE: {n}')
    for o in listed:
        print(f'KNOWN-FINDING: property={prop} {o.rule} {o.construct} at {o.file}:{o.line}: {o.message}')
    for k in stale:
        print(f'NOTE: listed known finding no longer observed (not suppressing anything): {k}')
    rep_dir = os.path.join(VERIF, 'reports', prop)
    for o in new:
        os.makedirs(rep_dir, exist_ok=True)
        path = os.path.join(rep_dir, f'{digest(o.key)}.json')
        with open(path, 'w', encoding='utf-8') as f:
            json.dump({'property': prop, **o.to_json(), 'rule_text': ctx.rule_docs.get(o.rule, '')}, f, indent=1)
        print(f'{o.file}:{o.line}: [{o.rule}] {o.construct}: {o.message}')
        print(f'VIOLATION property={prop} replay={path}')

    if write_evidence:
        constructs = {(o.rule, o.construct) for o in ctx.obligations}
        samples = [o.to_json() for o in (fails[:6] + [o for o in ctx.obligations if o.ok][:: max(1, len(ctx.obligations) // 14)])][:20]
        ev = {
            'property_id': prop,
            'tier': ctx.tier,
            'seed': int(os.environ.get('VERIF_SEED', '0') or 0),
            'level': 'other',
            'coverage': {
                'explanation': (
                    'Static analysis of the source text of /repo/src/biogeme (never imported or run). '
                    'Each rule extracts its instances (classes, call sites, table entries, paths of the '
                    'statement CFG) from the current tree and decides one obligation per instance. '
                    + ' '.join(f'[{r}] {d}' for r, d in sorted(ctx.rule_docs.items()))
                ),
                'obligations': len(ctx.obligations),
                'discharged': len(ctx.obligations) - len(fails) - len(unrec),
                'not_recognised': [o.to_json() for o in unrec],
                'evaluations': len(ctx.obligations),
                'distinct_nontrivial': len(constructs),
                'rule': 'one obligation per (rule, construct) instance found in the parsed tree; distinct = '
                'distinct (rule, qualified construct) pairs; every counted obligation names a concrete '
                'construct of /repo, so none is trivial',
                'samples': samples,
                'analysed': st,
                'rules': {r: len(v) for r, v in per_rule.items()},
                'instance_floors': [{'rule': r, 'found': n, 'minimum': m} for r, n, m in ctx.floors],
                'known_findings_listed': [o.key for o in listed],
                'not_decided': ctx.not_decided,
                'checker_cmd': f'python3-vt /verif/check.py {prop} --tier {ctx.tier}',
                'trusted_base': [
                    'CPython ast module',
                    'frozen reader tables in /verif/sa/tables.py (engine grammar, engine API roles, AS241, operator table)',
                    'the external engine cythonbiogeme, numpy, pandas, scipy behave as documented',
                ],
                'exhaustive': True,
                **(extra or {}),
            },
            'assumptions': [
                'the structural clause named by each rule is a necessary condition of the property; the numeric '
                'behaviour of the compiled engine and of numpy/pandas/scipy is not decided',
            ],
            'wall_s': round(time.time() - t0, 3),
            'violations': len(new),
        }
        os.makedirs(os.path.join(VERIF, 'evidence'), exist_ok=True)
        with open(os.path.join(VERIF, 'evidence', f'{prop}.json'), 'w', encoding='utf-8') as f:
            json.dump(ev, f, indent=1)
    for o in unrec:
        print(f'{o.file}:{o.line}: [{o.rule}] {o.construct}: {o.message}')
    print(
        f'[{prop}] {len(ctx.obligations) - len(fails) - len(unrec)}/{len(ctx.obligations)} obligations discharged, '
        f'{len(listed)} known finding(s), {len(new)} violation(s)' + (f', {len(unrec)} construct(s) not recognised' if unrec else '')
    )
    if new:
        return 1
    if unrec:
        print(f'ANALYSIS-ERROR property={prop}: {len(unrec)} construct(s) no longer have a shape the rules understand '
              f'({", ".join(sorted({o.construct for o in unrec})[:6])}); the analysis does not vouch for this tree and does not accuse it')
        return 2
    return 0
