"""Structural pattern matching on syntax trees with metavariables.

A pattern is ordinary Python source in which

* ``_A``, ``_X1`` ... (underscore + capital)   match any *Name* (a local variable), consistently;
* ``__E``, ``__ANY1`` ... (two underscores + capital) match any *expression*, consistently when repeated;
* ``___`` as a statement matches any run of statements (only meaningful between pattern statements).

Everything else (attributes, calls, literals, keyword names, parameters) must
match exactly, except that a capitalised bare name in the pattern (a class) also
matches the same class reached through a module alias (``excep.BiogemeError``).  Because locals are metavariables a rule written as a pattern
is insensitive to renaming of locals, re-formatting, comments and docstrings.
"""

from __future__ import annotations

import ast
import re
from functools import lru_cache

from .core import normalise_pattern, unparse, walk_no_nested

NAME_MV = re.compile(r'^_[A-Z][A-Z0-9]*$')
EXPR_MV = re.compile(r'^__[A-Z][A-Z0-9]*$')


def _parse(src: str):
    from . import normal

    return _parse_v(src, normal.SIGS_VERSION)


@lru_cache(maxsize=4096)
def _parse_v(src: str, sigs_version: str):
    src = src.strip('\n')
    import textwrap

    t = ast.parse(textwrap.dedent(src))
    t = normalise_pattern(t)  # same normal form as the program model (core._Normalise)
    return t.body


def _is_gap(st: ast.stmt) -> bool:
    return isinstance(st, ast.Expr) and isinstance(st.value, ast.Name) and st.value.id == '___'


def _temp_value(n: ast.AST):
    """the defining expression of a Name that is a single-definition temporary of its function, or None"""
    if not isinstance(n, ast.Name) or not isinstance(n.ctx, ast.Load):
        return None
    fn = getattr(n, '_verif_func', None)
    if fn is None:
        return None
    from .normal import single_definitions

    d = single_definitions(fn).get(n.id)
    if d is None or getattr(d, '_verif_seq', 0) >= getattr(n, '_verif_seq', 0):
        return None
    return d.value


def m_node(p, n, b: dict) -> bool:
    """match pattern node p against node n under bindings b (mutated on success)"""
    if isinstance(p, ast.Name) and NAME_MV.match(p.id) and p.id in b.get('__virtual__', {}) and not (isinstance(n, ast.Name) and p.id in b):
        # a temporary of the pattern that the code does not have: its defining expression must stand where it is used
        return m_node(b['__virtual__'][p.id], n, b)
    if isinstance(n, ast.Name) and isinstance(p, ast.AST) and not isinstance(p, ast.Name):
        # a temporary of the code that the pattern does not have: look through it
        v = _temp_value(n)
        if v is not None:
            return m_node(p, v, b)
    if isinstance(p, ast.Name):
        if EXPR_MV.match(p.id):
            if not isinstance(n, ast.expr):
                return False
            key = p.id
            txt = ast.dump(n)
            if key in b:
                return b[key][0] == txt
            b[key] = (txt, n)
            return True
        if NAME_MV.match(p.id):
            if not isinstance(n, ast.Name):
                return False
            if p.id in b:
                if b[p.id] == n.id:
                    return True
                # an alias of the bound variable (`name = v` ... `types[name]`)
                v = _temp_value(n)
                return isinstance(v, ast.Name) and v.id == b[p.id]
            if n.id in [v for k, v in b.items() if isinstance(v, str)] and p.id not in b.get('__comp_locals__', ()):
                return False  # two metavariables never bind the same name (the variable of a comprehension may shadow one)
            b[p.id] = n.id
            return True
    if isinstance(p, (ast.ListComp, ast.SetComp, ast.DictComp, ast.GeneratorExp)) and type(p) is type(n) and not b.get('__in_comp__'):
        # the variables of a comprehension live in its own scope: their metavariables are bound for this comprehension only
        local = {x.id for g in p.generators for x in ast.walk(g.target) if isinstance(x, ast.Name) and NAME_MV.match(x.id)}
        local = {k for k in local if k not in b}
        b2 = dict(b)
        b2['__in_comp__'] = True
        b2['__comp_locals__'] = local
        if not m_node(p, n, b2):
            return False
        for k, v in b2.items():
            if k not in local and k not in ('__in_comp__', '__comp_locals__'):
                b[k] = v
        return True
    if isinstance(p, ast.Name) and isinstance(n, ast.Attribute) and p.id[:1].isupper() and n.attr == p.id and isinstance(n.value, ast.Name):
        return True  # a class named in the pattern may be reached through a module alias in the code (excep.BiogemeError)
    if type(p) is not type(n):
        return False
    if isinstance(p, ast.Constant):
        if isinstance(p.value, (int, float)) and isinstance(n.value, (int, float)) and not isinstance(p.value, bool) and not isinstance(n.value, bool):
            return float(p.value) == float(n.value)
        return type(p.value) is type(n.value) and p.value == n.value
    for field in p._fields:
        if field in ('ctx', 'type_comment', 'kind'):
            continue
        pv, nv = getattr(p, field, None), getattr(n, field, None)
        if isinstance(pv, list):
            if not isinstance(nv, list):
                return False
            if pv and isinstance(pv[0], ast.stmt):
                if not m_stmts(pv, nv, b, anchored=True):
                    return False
                continue
            if len(pv) != len(nv):
                return False
            for a, c in zip(pv, nv):
                if isinstance(a, ast.AST):
                    if not m_node(a, c, b):
                        return False
                elif a != c:
                    return False
        elif isinstance(pv, ast.AST):
            if not isinstance(nv, ast.AST) or not m_node(pv, nv, b):
                return False
        else:
            if field == 'annotation':
                continue
            if isinstance(pv, str) and NAME_MV.match(pv) and isinstance(nv, str):
                if pv in b:
                    if b[pv] != nv:
                        return False
                else:
                    b[pv] = nv
                continue
            if pv != nv:
                return False
    return True


def _strip(stmts: list[ast.stmt]) -> list[ast.stmt]:
    out = []
    for s in stmts:
        if isinstance(s, ast.Expr) and isinstance(s.value, ast.Constant) and isinstance(s.value.value, str):
            continue  # docstrings / string statements
        if isinstance(s, ast.Expr) and isinstance(s.value, ast.Call) and (unparse(s.value.func).startswith('logger.') or unparse(s.value.func).startswith('logging.')):
            continue  # logging is not behaviour
        out.append(s)
    return out


_PURE_CALLS = {'len', 'list', 'set', 'dict', 'tuple', 'sorted', 'sum', 'min', 'max', 'int', 'float', 'str', 'bool', 'abs'}


def _pure(e: ast.AST) -> bool:
    for n in ast.walk(e):
        if isinstance(n, ast.Call) and not (isinstance(n.func, ast.Name) and n.func.id in _PURE_CALLS):
            return False
        if isinstance(n, (ast.Yield, ast.YieldFrom, ast.Await, ast.NamedExpr, ast.Lambda)):
            return False
    return True


def _trivial(v: ast.AST) -> bool:
    return isinstance(v, ast.Constant) or (isinstance(v, (ast.List, ast.Tuple)) and not v.elts) or (isinstance(v, ast.Dict) and not v.keys) \
        or (isinstance(v, ast.Call) and isinstance(v.func, ast.Name) and v.func.id in ('set', 'list', 'dict') and not v.args and not v.keywords)


def _independent(a: ast.stmt, b: ast.stmt) -> bool:
    """two plain assignments to different locals with pure right-hand sides, neither reading the other's target:
    their order is not behaviour"""
    for st in (a, b):
        if not (isinstance(st, ast.Assign) and len(st.targets) == 1 and isinstance(st.targets[0], ast.Name)):
            return False
    if not (_pure(a.value) and _pure(b.value)) and not (_trivial(a.value) or _trivial(b.value)):
        return False  # (an initialisation with a constant or an empty container commutes with anything)
    ta, tb = a.targets[0].id, b.targets[0].id
    ra = {n.id for n in ast.walk(a.value) if isinstance(n, ast.Name)}
    rb = {n.id for n in ast.walk(b.value) if isinstance(n, ast.Name)}
    return ta != tb and ta not in rb and tb not in ra


def _instantiate(pexpr: ast.AST, b: dict) -> ast.AST:
    import copy

    e = copy.deepcopy(pexpr)
    for n in ast.walk(e):
        if isinstance(n, ast.Name):
            v = b.get(n.id)
            if isinstance(v, str):
                n.id = v
            elif isinstance(v, tuple):
                n.id = '(' + unparse(v[1]) + ')'
    return e


def _is_temp_def(st: ast.Assign) -> bool:
    fn = getattr(st, '_verif_func', None)
    if fn is None:
        return False
    from .normal import single_definitions

    return single_definitions(fn).get(st.targets[0].id) is st


def _runs(ns: list[ast.stmt]) -> list[int]:
    """run id per statement: maximal groups of consecutive, mutually independent plain assignments share an id"""
    ids = []
    cur = 0
    start = 0
    for k, st in enumerate(ns):
        if k > start and all(_independent(ns[m], st) for m in range(start, k)):
            ids.append(cur)
            continue
        if k > 0:
            cur += 1
        start = k
        ids.append(cur)
    return ids


def m_stmts(ps: list[ast.stmt], ns: list[ast.stmt], b: dict, anchored: bool = False) -> bool:
    """pattern statements ps match ns; `___` matches any run.  anchored: ps must cover all of ns (modulo gaps).
    Within a group of consecutive, mutually independent plain assignments of the code (different locals, pure
    right-hand sides, none reading another's target) the order is free: it is not behaviour."""
    ps = _strip(ps)
    ns = _strip(ns)
    run = _runs(ns)

    def match_one(p, n, b2) -> bool:
        # an AnnAssign in the code matches an Assign in the pattern (annotations are not behaviour)
        if isinstance(p, ast.Assign) and isinstance(n, ast.AnnAssign) and n.value is not None and len(p.targets) == 1:
            return m_node(p.targets[0], n.target, b2) and m_node(p.value, n.value, b2)
        return m_node(p, n, b2)

    budget = [4000]

    def rec(i, j, used, bb, slack=3):
        budget[0] -= 1
        if budget[0] < 0:
            return None
        while j in used:
            j += 1
        if i == len(ps):
            if anchored and j != len(ns):
                return None
            return bb
        if _is_gap(ps[i]):
            r = rec(i + 1, j, used, dict(bb), slack)
            if r is not None:
                return r
            if j < len(ns):
                return rec(i, j + 1, used, bb, slack)
            return None
        if j >= len(ns):
            return None
        cands = [j] + [k for k in range(j + 1, len(ns)) if run[k] == run[j] and k not in used]
        for k in cands:
            b2 = dict(bb)
            if match_one(ps[i], ns[k], b2):
                r = rec(i + 1, j + 1, used, b2, slack) if k == j else rec(i + 1, j, used | {k}, b2, slack)
                if r is not None:
                    return r
        if slack <= 0:
            return None
        # the code defines a temporary here that the pattern does not mention: it is looked through where it is used
        st = ns[j]
        if isinstance(st, ast.Assign) and len(st.targets) == 1 and isinstance(st.targets[0], ast.Name) and _is_temp_def(st):
            r = rec(i, j + 1, used, dict(bb), slack - 1)
            if r is not None:
                return r
        # the pattern defines a temporary here that the code does not have: remember its expression
        pst = ps[i]
        if isinstance(pst, ast.Assign) and len(pst.targets) == 1 and isinstance(pst.targets[0], ast.Name) and NAME_MV.match(pst.targets[0].id) and pst.targets[0].id not in bb \
                and any(isinstance(x, ast.Name) and x.id == pst.targets[0].id and isinstance(x.ctx, ast.Load) for later in ps[i + 1:] for x in ast.walk(later)):
            b2 = dict(bb)
            virt = dict(b2.get('__virtual__', {}))
            virt[pst.targets[0].id] = pst.value
            b2['__virtual__'] = virt
            r = rec(i + 1, j, used, b2, slack - 1)
            if r is not None:
                return r
        return None

    r = rec(0, 0, frozenset(), dict(b))
    if r is None:
        return False
    # a temporary that only the pattern has stands for its expression (with the names bound by the match)
    for name, pexpr in r.get('__virtual__', {}).items():
        if name not in r:
            r[name] = unparse(_instantiate(pexpr, r))
    b.clear()
    b.update(r)
    return True


def _bodies(node: ast.AST):
    for n in walk_no_nested(node):
        for field in ('body', 'orelse', 'finalbody'):
            v = getattr(n, field, None)
            if isinstance(v, list) and v and isinstance(v[0], ast.stmt):
                yield v
        if isinstance(n, ast.Try):
            for h in n.handlers:
                yield h.body


def find(node: ast.AST, pattern: str, bindings: dict | None = None) -> dict | None:
    """first match of the statement pattern as a run of consecutive statements (with ``___`` gaps) in any body under node"""
    ps = _parse(pattern)
    ps = _strip(ps)
    for body in _bodies(node):
        body = _strip(body)
        for start in range(len(body)):
            b = dict(bindings or {})
            # consecutive match starting at `start`; trailing statements are free
            if m_stmts(ps + _parse('___'), body[start:], b, anchored=True):
                return b
    return None


def has(node: ast.AST, pattern: str, bindings: dict | None = None) -> bool:
    return find(node, pattern, bindings) is not None


def count(node: ast.AST, pattern: str) -> int:
    ps = _strip(_parse(pattern))
    c = 0
    for body in _bodies(node):
        body = _strip(body)
        for start in range(len(body)):
            b = {}
            if m_stmts(ps + _parse('___'), body[start:], b, anchored=True):
                c += 1
    return c


def find_expr(node: ast.AST, pattern: str, bindings: dict | None = None) -> list[dict]:
    """all sub-expressions of node matching the expression pattern"""
    ps = _parse(pattern)
    assert len(ps) == 1 and isinstance(ps[0], ast.Expr), pattern
    p = ps[0].value
    out = []
    for n in ast.walk(node):
        if isinstance(n, ast.expr):
            b = dict(bindings or {})
            if m_node(p, n, b):
                b['__node__'] = n
                out.append(b)
    return out


def has_expr(node: ast.AST, pattern: str, bindings: dict | None = None) -> bool:
    return bool(find_expr(node, pattern, bindings))


def body_is(stmts: list[ast.stmt], pattern: str, bindings: dict | None = None) -> dict | None:
    """the whole body (docstrings and logging aside) matches the pattern"""
    b = dict(bindings or {})
    if m_stmts(_parse(pattern), stmts, b, anchored=True):
        return b
    return None


def expr_is(node: ast.AST, pattern: str, bindings: dict | None = None) -> dict | None:
    """the expression node itself (temporaries looked through) matches the expression pattern"""
    ps = _parse(pattern)
    assert len(ps) == 1 and isinstance(ps[0], ast.Expr), pattern
    b = dict(bindings or {})
    b.pop('__virtual__', None)
    return b if m_node(ps[0].value, node, b) else None


def bound(b: dict, key: str) -> str:
    v = b.get(key)
    if isinstance(v, tuple):
        return unparse(v[1])
    return v
