"""Closed forms of the MDCEV variants -> sympy (formula normal form, C18.R3).

Each variant implements, per alternative,

* utility_expression_one_alternative   the utility as an expression of the DSL (used for validation),
* utility_one_alternative              the same utility with numbers (used for forecasting),
* derivative_utility_one_alternative   its derivative with respect to the consumption,
* optimal_consumption_one_alternative  the consumption at which that derivative equals the dual variable.

The bodies are straight-line arithmetic guarded by configuration tests (`gamma is None`, `self.scale_parameter
is None`, `self.prices is None`) and by tests of boundary points (consumption or dual variable equal to zero,
alpha close to 0 or 1, overflow guard).  For one configuration the body is translated, statement by statement,
into one sympy expression at a generic interior point: configuration tests are decided by the configuration,
boundary tests are false, `min(., MAX_EXP_ARGUMENT)` is its first argument.  Nothing is executed.
"""

from __future__ import annotations

import ast

import sympy as sp

from .core import AnalysisError, FuncInfo, dotted, unparse

X, E, LAM, V, M, A, G, S, P = sp.symbols('x e lam V M a g s p', positive=True)

#: parameters of the four methods -> symbol
PARAMS = {'the_consumption': X, 'epsilon': E, 'unscaled_epsilon': E, 'dual_variable': LAM}


class NONE:
    pass


class PRICES:
    pass


class Formula:
    def __init__(self, f: FuncInfo, cfg: dict):
        self.f = f
        self.cfg = cfg
        self.env: dict[str, object] = {}
        for p in f.positional_params()[1:]:
            if p in PARAMS:
                self.env[p] = PARAMS[p]
        self.skipped: list[str] = []
        self.ret = self.block(f.explicit_body)
        if self.ret is None:
            raise AnalysisError(f'{f.file}:{f.line}: {f.qualname} returns nothing on the generic path of configuration {cfg}')

    def fail(self, node, what):
        raise AnalysisError(f'{self.f.file}:{getattr(node, "lineno", self.f.line)}: {self.f.qualname}: {what}: {unparse(node)[:70]}')

    # ---- statements
    def block(self, stmts):
        for st in stmts:
            if isinstance(st, ast.Expr) and isinstance(st.value, ast.Constant):
                continue
            if isinstance(st, ast.Assign) and len(st.targets) == 1 and isinstance(st.targets[0], ast.Name):
                self.env[st.targets[0].id] = self.ev(st.value)
            elif isinstance(st, ast.AugAssign) and isinstance(st.target, ast.Name):
                cur = self.env.get(st.target.id)
                if cur is None:
                    self.fail(st, 'augmented assignment to an unknown name')
                self.env[st.target.id] = self.binop(st.op, cur, self.ev(st.value), st)
            elif isinstance(st, ast.If):
                t = self.test(st.test)
                r = self.block(st.body if t else st.orelse)
                if r is not None:
                    return r
            elif isinstance(st, ast.Return):
                return self.ev(st.value)
            elif isinstance(st, ast.Raise):
                self.fail(st, 'the generic path raises')
            elif isinstance(st, ast.Pass):
                continue
            else:
                self.fail(st, 'statement not understood')
        return None

    # ---- tests
    def test(self, t) -> bool:
        if isinstance(t, ast.BoolOp):
            vals = [self.test(v) for v in t.values]
            return all(vals) if isinstance(t.op, ast.And) else any(vals)
        if isinstance(t, ast.UnaryOp) and isinstance(t.op, ast.Not):
            return not self.test(t.operand)
        if isinstance(t, ast.Compare) and len(t.ops) == 1:
            op = t.ops[0]
            if isinstance(op, (ast.Is, ast.IsNot)) and isinstance(t.comparators[0], ast.Constant) and t.comparators[0].value is None:
                v = self.ev(t.left)
                return (v is NONE) == isinstance(op, ast.Is)
            if isinstance(op, (ast.Eq, ast.NotEq)):
                attrs = {n.attr for n in ast.walk(t) if isinstance(n, ast.Attribute)}
                if 'outside_good_key' in attrs or self.boundary(t.left, t.comparators[0]):
                    self.skipped.append(unparse(t))
                    return isinstance(op, ast.NotEq)
        if isinstance(t, ast.Call) and (dotted(t.func) or '').endswith('isclose') and len(t.args) >= 2 and self.boundary(t.args[0], t.args[1]):
            self.skipped.append(unparse(t))
            return False
        if isinstance(t, ast.Attribute) and unparse(t) == 'self.prices':
            return not self.cfg['prices_none']
        self.fail(t, 'test not understood')

    def boundary(self, a, b) -> bool:
        """a comparison of the consumption, the dual variable or alpha with a numeric constant: a boundary point"""
        for u, v in ((a, b), (b, a)):
            if isinstance(v, ast.Constant) and isinstance(v.value, (int, float)):
                try:
                    val = self.ev(u)
                except AnalysisError:
                    continue
                if val in (X, LAM, A):
                    return True
        return False

    # ---- expressions
    def binop(self, op, a, b, node):
        if a is NONE or b is NONE:
            self.fail(node, 'arithmetic on None')
        if isinstance(op, ast.Add):
            return a + b
        if isinstance(op, ast.Sub):
            return a - b
        if isinstance(op, ast.Mult):
            return a * b
        if isinstance(op, ast.Div):
            return a / b
        if isinstance(op, ast.Pow):
            return a**b
        self.fail(node, 'operator not understood')

    def ev(self, e):
        if isinstance(e, ast.Constant):
            if e.value is None:
                return NONE
            if isinstance(e.value, (int, float)) and not isinstance(e.value, bool):
                return sp.nsimplify(e.value, rational=True)
            self.fail(e, 'constant')
        if isinstance(e, ast.Name):
            if e.id in self.env:
                return self.env[e.id]
            self.fail(e, 'unknown name')
        if isinstance(e, ast.BinOp):
            return self.binop(e.op, self.ev(e.left), self.ev(e.right), e)
        if isinstance(e, ast.UnaryOp) and isinstance(e.op, ast.USub):
            return -self.ev(e.operand)
        if isinstance(e, ast.IfExp):
            return self.ev(e.body if self.test(e.test) else e.orelse)
        if isinstance(e, ast.Attribute):
            t = unparse(e)
            if t == 'self.scale_parameter':
                return NONE if self.cfg['scale_none'] else S
            if t == 'self.prices':
                return NONE if self.cfg['prices_none'] else PRICES
            if t == 'np.inf':
                return sp.oo
            self.fail(e, 'attribute')
        if isinstance(e, ast.Subscript):
            base = unparse(e.value)
            idx = unparse(e.slice)
            if idx not in ('the_id', 'alternative_id'):
                self.fail(e, 'subscript')
            table = {'self.baseline_utilities': V, 'self.mu_utilities': M, 'self.alpha_parameters': A}
            if base in table:
                return table[base]
            if base == 'self.gamma_parameters':
                return NONE if self.cfg['gamma_none'] else G
            if base == 'self.prices':
                if self.cfg['prices_none']:
                    self.fail(e, 'prices read although absent')
                return P
            self.fail(e, 'table')
        if isinstance(e, ast.Call):
            name = dotted(e.func) or ''
            if isinstance(e.func, ast.Attribute) and e.func.attr == 'get_value' and not e.args:
                v = self.ev(e.func.value)
                if v is NONE:
                    self.fail(e, 'get_value() of None')
                return v
            if name == 'self.calculate_baseline_utility':
                return V
            if name == 'self.calculate_mu_utility':
                return M
            if name in ('np.log', 'log', 'numpy.log', 'math.log'):
                return sp.log(self.ev(e.args[0]))
            if name in ('np.exp', 'exp', 'numpy.exp', 'math.exp'):
                return sp.exp(self.ev(e.args[0]))
            if name == 'Numeric' and len(e.args) == 1:
                return self.ev(e.args[0])
            if name == 'min' and len(e.args) == 2 and unparse(e.args[1]) == 'MAX_EXP_ARGUMENT':
                self.skipped.append(unparse(e.args[1]))
                return self.ev(e.args[0])
            self.fail(e, 'call')
        self.fail(e, 'expression not understood')


def same(a, b) -> bool:
    """equality of two closed forms over positive symbols: symbolic normal form first, then exact evaluation at
    rational points (a non-zero difference at a point is a definite inequality)"""
    d = a - b
    if d == 0:
        return True
    try:
        s = sp.simplify(sp.powsimp(sp.expand_log(sp.expand(sp.powdenest(d, force=True)), force=True), force=True))
        if s == 0:
            return True
    except Exception:
        pass
    # generic interior points of the regular domain: 0 < alpha < 1, dual variable above mu + epsilon
    for k in range(4):
        pt = {X: sp.Rational(3, 2) + k, E: sp.Rational(1, 7) + sp.Rational(k, 10), LAM: 9 + k, V: sp.Rational(1, 3), M: sp.Rational(1, 5),
              A: sp.Rational(3, 11) + sp.Rational(k, 20), G: sp.Rational(2, 3) + k, S: sp.Rational(5, 4), P: sp.Rational(7, 5)}
        val = sp.N(d.subs(pt), 40)
        if abs(val) > sp.Float(10) ** -25:
            return False
    return True
