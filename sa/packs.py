"""Rule packs shared by several properties: ECC (engine-call contract),
FWD (flag forwarding), ORD (canonical parameter order)."""

from __future__ import annotations

import ast
import os
import re

from .cfg import cfg_of
from .core import seq, AnalysisError, ClassInfo, FuncInfo, Program, call_name, dotted, unparse, walk_no_nested
from .report import Ctx

PYX = '/venv/lib/python3.12/site-packages/cythonbiogeme/cpp/cythonbiogeme.pyx'

#: reader side, read off cythonbiogeme.pyx: method -> parameter names
ENGINE_API = {
    'pyBiogeme': {
        'setPanel': ['panel'],
        'calculateLikelihoodAndDerivatives': ['betas', 'fixedBetas', 'betaIds', 'gmem', 'hmem', 'bmem', 'hessian', 'bhhh', 'draws'],
        'setBounds': ['lb', 'ub'],
        'calculateLikelihood': ['betas', 'fixedBetas'],
        'simulateSimpleFormula': ['formula', 'betas', 'fixedBetas', 'gradient', 'hessian', 'gmem', 'hmem'],
        'simulateFormula': ['formula', 'betas', 'fixedBetas', 'd'],
        'simulateSeveralFormulas': ['formulas', 'betas', 'fixedBetas', 'd', 'nThreads', 'sample_size'],
        'setExpressions': ['loglikeFormulas', 'nbrOfThreads', 'weightFormulas'],
        'setData': ['d'],
        'setDataMap': ['m'],
        'setMissingData': ['md'],
        'setDraws': ['draws'],
    },
    'pyEvaluateOneExpression': {
        'setExpression': ['formula'],
        'setFreeBetas': ['freeBetas'],
        'setFixedBetas': ['fixedBetas'],
        'setNumberOfThreads': ['n'],
        'setData': ['d'],
        'setDraws': ['draws'],
        'setDataMap': ['dm'],
        'setMissingData': ['md'],
        'calculate': ['gradient', 'hessian', 'bhhh', 'aggregation'],
        'getResults': [],
    },
}

#: engine parameter -> admissible origin roles of the actual argument
ROLE_OF_PARAM = {
    'panel': {'LIT:True'},
    'betas': {'FREE', 'PARAM:x'},
    'freeBetas': {'FREE'},
    'fixedBetas': {'FIXED'},
    'betaIds': {'LITERAL_IDS'},
    'gmem': {'BUF1'},
    'hmem': {'BUF2'},
    'bmem': {'BUF2'},
    'hessian': {'PARAM:hessian', 'PARAM:calculate_hessian'},
    'bhhh': {'PARAM:bhhh', 'PARAM:calculate_bhhh'},
    'gradient': {'PARAM:gradient', 'PARAM:calculate_gradient'},
    'aggregation': {'PARAM:aggregation'},
    'formulas': {'SIGS'},
    'formula': {'SIG', 'SIG_LOGLIKE'},
    'loglikeFormulas': {'SIG_LOGLIKE'},
    'weightFormulas': {'SIG_WEIGHT'},
    'nbrOfThreads': {'THREADS'},
    'nThreads': {'THREADS'},
    'n': {'THREADS'},
    'sample_size': {'SAMPLE_SIZE'},
    'd': {'DATA', 'DATA_RESAMPLE'},
    'm': {'MAP', 'MAP_RESAMPLE'},
    'dm': {'MAP', 'MAP_RESAMPLE'},
    'md': {'MISSING'},
    'draws': {'DRAWS'},
}


def check_reader_table(ctx: Ctx, rule: str) -> None:
    """the frozen API equals the one of the installed engine source, when present"""
    if not os.path.exists(PYX):
        ctx.note(f'{rule}: {PYX} absent, frozen engine API table not cross-checked')
        return
    src = open(PYX, encoding='utf-8', errors='replace').read()
    cur = None
    found: dict[str, dict[str, list[str]]] = {}
    for m in re.finditer(r'^cdef class (\w+):|^\tdef (\w+)\(([^)]*)\)', src, re.M | re.S):
        if m.group(1):
            cur = m.group(1)
            found[cur] = {}
        elif cur and not m.group(2).startswith('__'):
            ps = [p.strip().split('=')[0].strip() for p in m.group(3).replace('\n', ' ').split(',')]
            found[cur][m.group(2)] = [p for p in ps if p and p != 'self']
    for c, ms in ENGINE_API.items():
        for name, params in ms.items():
            got = found.get(c, {}).get(name)
            if got != params:
                raise AnalysisError(f'{rule}: frozen engine API {c}.{name}{params} differs from the installed engine source: {got}')


class RoleFinder:
    def __init__(self, prog: Program):
        self.prog = prog

    def attr_values(self, cls: ClassInfo | None, attr: str) -> list[tuple[FuncInfo, ast.expr]]:
        out = []
        if cls is None:
            return out
        for c in cls.mro():
            for f in c.methods.values():
                for n in walk_no_nested(f.node):
                    if isinstance(n, (ast.Assign, ast.AnnAssign)) and getattr(n, 'value', None) is not None:
                        ts = n.targets if isinstance(n, ast.Assign) else [n.target]
                        for t in ts:
                            if unparse(t) == f'self.{attr}':
                                out.append((f, n.value))
        return out

    def role(self, expr: ast.expr, f: FuncInfo, depth: int = 0) -> str:
        cfg = cfg_of(f.node)
        origins = cfg.origins(expr) if isinstance(expr, ast.Name) else [expr]
        roles = {self._role1(o, f, depth) for o in origins}
        if len(roles) == 1:
            return roles.pop()
        return 'MIXED(' + '|'.join(sorted(roles)) + ')'

    def _role1(self, e: ast.expr, f: FuncInfo, depth: int) -> str:
        t = unparse(e)
        if isinstance(e, ast.Constant):
            return f'LIT:{e.value!r}'
        if isinstance(e, ast.Name):
            # one of several names unpacked from an attribute of the object (`g, h, bh = self._memory`)
            for a_ in walk_no_nested(f.node):
                if isinstance(a_, ast.Assign) and isinstance(a_.targets[0], ast.Tuple) and any(isinstance(x, ast.Name) and x.id == e.id for x in a_.targets[0].elts) and isinstance(a_.value, ast.Attribute) and depth < 4:
                    return self._role1(a_.value, f, depth + 1)
            if e.id in f.params():
                return f'PARAM:{e.id}'
            p = f.parent
            while p is not None:
                if e.id in p.params():
                    return f'PARAM:{e.id}'
                p = p.parent
            return f'?{t}'
        if isinstance(e, ast.Call):
            name = call_name(e)
            if name == 'get_signature' and isinstance(e.func, ast.Attribute):
                r = unparse(e.func.value)
                if 'weight' in r:
                    return 'SIG_WEIGHT'
                if 'log_like' in r or 'loglike' in r:
                    return 'SIG_LOGLIKE'
                return 'SIG'
            if name == 'beta_values_dict_to_list':
                return 'FREE'
            if name == 'sample_with_replacement':
                return 'DATA_RESAMPLE'
            if name == 'sample_individual_map_with_replacement':
                return 'MAP_RESAMPLE'
            if name == 'get_sample_size':
                return 'SAMPLE_SIZE'
            if name == 'values' and t.endswith('free_betas.indices.values()'):
                return 'LITERAL_IDS'
            if dotted(e.func) in ('np.empty', 'np.zeros', 'numpy.empty') and e.args:
                a = e.args[0]
                if isinstance(a, (ast.List, ast.Tuple)) and len(a.elts) == 2:
                    return 'BUF2'
                return 'BUF1'
            if name in ('array', 'asarray') and e.args:
                return self.role(e.args[0], f, depth + 1) if depth < 4 else f'?{t}'
            if name == 'get_value' and 'missing_data' in t:
                return 'MISSING'
            return f'?{t[:50]}'
        if isinstance(e, ast.ListComp) and isinstance(e.elt, ast.Call) and call_name(e.elt) == 'get_signature':
            it = unparse(e.generators[0].iter)
            if 'formulas' in it and it.endswith('.values()') and not e.generators[0].ifs:
                return 'SIGS'
            return f'?SIGS({it})'
        if isinstance(e, ast.Attribute):
            if t.endswith('free_betas_values'):
                return 'FREE'
            if t.endswith('fixed_betas_values'):
                return 'FIXED'
            if t.endswith('database.data'):
                return 'DATA'
            if t.endswith('.fullData'):
                return 'DATA_AS_GIVEN_TO_THE_CONSTRUCTOR'  # not kept in step with .data (panel sorting rebinds .data)
            if t.endswith('.individualMap'):
                return 'MAP'
            if t.endswith('.theDraws'):
                return 'DRAWS'
            if t == 'self.number_of_threads':
                return 'THREADS'
            if t.endswith('.missingData'):
                return 'MISSING'
            if isinstance(e.value, ast.Name) and e.value.id == 'self' and depth < 4:
                owner = f
                while owner.cls is None and owner.parent is not None:
                    owner = owner.parent
                vals = self.attr_values(owner.cls, e.attr)
                if any(isinstance(x, ast.Call) and dotted(x.func) in ('np.empty', 'np.zeros', 'numpy.empty', 'numpy.zeros') for _g, v in vals for x in ast.walk(v)):
                    return 'BUFFER_KEPT_ON_THE_OBJECT'  # allocated once and reused: what was returned by an earlier call is overwritten by the next one
                rs = {self.role(v, g, depth + 1) for g, v in vals}
                if len(rs) == 1:
                    return rs.pop()
                if rs:
                    return 'MIXED(' + '|'.join(sorted(rs)) + ')'
        return f'?{t[:50]}'


def engine_receivers(prog: Program) -> list[tuple[FuncInfo, str, str]]:
    """(function, receiver text, engine class) for every object created from the engine"""
    out = []
    for f in prog.all_functions():
        for n in walk_no_nested(f.node):
            if isinstance(n, ast.Assign) and isinstance(n.value, ast.Call):
                cn = call_name(n.value)
                if cn in ENGINE_API:
                    out.append((f, unparse(n.targets[0]), cn))
    return out


def ecc(ctx: Ctx, rule: str, only_class: str | None = None, methods: set[str] | None = None) -> int:
    """Engine-call contract: every argument of every call on an engine object has the role the reader expects."""
    prog = ctx.prog
    check_reader_table(ctx, rule)
    rf = RoleFinder(prog)
    recv = engine_receivers(prog)
    if not recv:
        raise AnalysisError(f'{rule}: no object created from cythonbiogeme found')
    n = 0
    for f0, rtext, ecls in recv:
        if only_class and ecls != only_class:
            continue
        # self.theC is used by every method of the class; a local only by its function
        scope = [f0]
        if rtext.startswith('self.') and f0.cls is not None:
            scope = list(f0.cls.methods.values())
        for g in scope:
            for c in walk_no_nested(g.node):
                if not (isinstance(c, ast.Call) and isinstance(c.func, ast.Attribute) and unparse(c.func.value) == rtext):
                    continue
                m = c.func.attr
                if methods is not None and m not in methods:
                    continue
                construct = f'{g.qualname}:{rtext}.{m}'
                if m not in ENGINE_API[ecls]:
                    ctx.add(rule, construct, False, (g.file, c.lineno), f'{ecls} has no method {m}', m)
                    continue
                params = ENGINE_API[ecls][m]
                bound: list[tuple[str, ast.expr]] = []
                for i, a in enumerate(c.args):
                    if i < len(params):
                        bound.append((params[i], a))
                    else:
                        ctx.add(rule, construct, False, (g.file, c.lineno), f'too many arguments for {m}', unparse(c))
                for k in c.keywords:
                    if k.arg in params:
                        bound.append((k.arg, k.value))
                    else:
                        ctx.add(rule, construct, False, (g.file, c.lineno), f'{m} has no parameter {k.arg}', unparse(c))
                for p, a in bound:
                    role = rf.role(a, g)
                    want = ROLE_OF_PARAM.get(p, set())
                    parts = role[6:-1].split('|') if role.startswith('MIXED(') else [role]
                    ok = all(r_ in want for r_ in parts)
                    known = not any(r_.startswith('?') for r_ in parts)  # an expression whose role the rule cannot tell is not an accusation
                    n += 1
                    ctx.add(rule, f'{construct}({p})', ok if (ok or known) else None, (g.file, c.lineno),
                            f'{m}({p}=...) receives {unparse(a)[:60]} [{role}]' + ('' if ok else (f'; the engine reads this slot as {sorted(want)}' if known else ': the role of this expression is not recognised')),
                            detail=f'{p}<-{role}', positive=known and not ok)
    return n


# --------------------------------------------------------------------------

FLAGS = ('gradient', 'hessian', 'bhhh', 'aggregation', 'scaled', 'prepare_ids', 'named_results', 'number_of_draws', 'database', 'betas', 'batch')


def _strip(n: str) -> str:
    return n[len('calculate_') :] if n.startswith('calculate_') else n


def fwd(ctx: Ctx, rule: str) -> int:
    """flag forwarding: a caller's flag parameter handed over by keyword (or by position to a
    resolved callee) lands in the same-named parameter"""
    prog = ctx.prog
    n = 0
    for f in prog.all_functions():
        own = set()
        p = f
        while p is not None:
            own |= set(p.params())
            p = p.parent
        flags = {x for x in own if _strip(x) in FLAGS}
        if not flags:
            continue
        for c in walk_no_nested(f.node):
            if not isinstance(c, ast.Call):
                continue
            for k in c.keywords:
                if k.arg is None or not isinstance(k.value, ast.Name) or k.value.id not in flags:
                    continue
                if _strip(k.arg) not in FLAGS:
                    continue
                ok = _strip(k.arg) == _strip(k.value.id)
                n += 1
                ctx.add(rule, f'{f.qualname}:{call_name(c)}({k.arg}=)', ok, (f.file, c.lineno),
                        f'{call_name(c)}({k.arg}={k.value.id})' + ('' if ok else f': the flag {k.value.id} of the caller lands in {k.arg}'),
                        detail=f'{k.arg}={k.value.id}')
            # positional hand-over to a resolved callee
            if any(isinstance(a, ast.Name) and a.id in flags for a in c.args):
                tg = prog.resolve_call(f, c)
                if len(tg) >= 1:
                    g = tg[0]
                    ps = g.positional_params()
                    if g.cls is not None and 'staticmethod' not in g.decorators() and not (isinstance(c.func, ast.Attribute) and dotted(c.func.value) and prog.resolve_expr(f.module, c.func.value) and prog.resolve_expr(f.module, c.func.value)[0] == 'class'):
                        ps = ps[1:]
                    elif g.cls is not None and 'staticmethod' not in g.decorators():
                        ps = ps  # Cls.method(self, ...) called explicitly
                    for i, a in enumerate(c.args):
                        if isinstance(a, ast.Name) and a.id in flags and i < len(ps) and _strip(ps[i]) in FLAGS:
                            ok = _strip(ps[i]) == _strip(a.id)
                            n += 1
                            ctx.add(rule, f'{f.qualname}:{call_name(c)}(#{i})', ok, (f.file, c.lineno),
                                    f'{call_name(c)}(..{a.id}..) binds parameter {ps[i]}' + ('' if ok else ' - a different flag'),
                                    detail=f'{ps[i]}={a.id}')
    return n


# --------------------------------------------------------------------------
# ORD - canonical parameter order

NAMES_RE = re.compile(r'^(?P<recv>.*?)\.?(?P<kind>free|fixed)_betas\.names$')
EXPR_RE = re.compile(r'(?P<recv>[\w.]*?)\.?(?P<kind>free|fixed)_betas\.expressions')


def _names_kind(text: str) -> tuple[str, str] | None:
    m = NAMES_RE.match(text)
    if m:
        return m.group('recv'), m.group('kind')
    if text in ('self.free_beta_names',):
        return 'self.id_manager', 'free'
    return None


def _enclosing_loops(tree: ast.AST):
    """yield (node, [(target names, iter expr)]) for every node with the loops/comprehensions around it"""
    def rec(n, stack):
        yield n, stack
        if isinstance(n, (ast.ListComp, ast.SetComp, ast.GeneratorExp, ast.DictComp)):
            st = list(stack)
            for g in n.generators:
                st = st + [({x.id for x in ast.walk(g.target) if isinstance(x, ast.Name)}, g.iter, n)]
            for ch in ast.iter_child_nodes(n):
                yield from rec(ch, st)
            return
        if isinstance(n, ast.For):
            st = stack + [({x.id for x in ast.walk(n.target) if isinstance(x, ast.Name)}, n.iter, n)]
            yield from rec(n.iter, stack)
            for ch in n.body + n.orelse:
                yield from rec(ch, st)
            return
        for ch in ast.iter_child_nodes(n):
            yield from rec(ch, stack)

    yield from rec(tree, [])


def ord_pack(ctx: Ctx, rule: str) -> None:
    prog = ctx.prog
    # O1 / O2 over the whole package
    for f in prog.all_functions():
        if f.parent is not None:
            continue
        for n, stack in _enclosing_loops(f.node):
            # O1: positional structure built from dict order of the per-kind table
            if isinstance(n, (ast.ListComp, ast.GeneratorExp)) or (isinstance(n, ast.For)):
                gens = n.generators if not isinstance(n, ast.For) else [n]
                for g in gens:
                    it = unparse(g.iter)
                    m = EXPR_RE.search(it)
                    if m and re.search(r'_betas\.expressions(\.values\(\)|\.items\(\)|\.keys\(\))?$', it):
                        positional = not isinstance(n, ast.For) or any(
                            isinstance(x, ast.Call) and isinstance(x.func, ast.Attribute) and x.func.attr == 'append' for b in n.body for x in ast.walk(b)
                        )
                        if positional:
                            ctx.add(rule, f'{f.qualname}:appearance-order', False, (f.file, n.lineno),
                                    f'a positional sequence is built by iterating {it}: the order of a dictionary of parameters is their order of appearance in the formula, '
                                    f'not the canonical (sorted) order of {m.group("kind")}_betas.names', detail=it, positive=True)
            # O2: table lookups by loop variable
            if isinstance(n, ast.Subscript):
                t = unparse(n.value)
                m = re.fullmatch(r'(?P<recv>.*?)\.?(?P<kind>free|fixed)_betas\.expressions', t)
                if m and isinstance(n.slice, ast.Name):
                    v = n.slice.id
                    src = next(((names, it, owner) for names, it, owner in reversed(stack) if v in names), None)
                    if src is None:
                        continue
                    itx = src[1]
                    if isinstance(itx, ast.Call) and call_name(itx) == 'enumerate' and itx.args:
                        itx = itx.args[0]
                    nk = _names_kind(unparse(itx))
                    positional = isinstance(src[2], (ast.ListComp, ast.GeneratorExp, ast.For))
                    if not positional:
                        continue
                    ok = nk is not None and nk[1] == m.group('kind') and nk[0] == m.group('recv')
                    ctx.add(rule, f'{f.qualname}:{m.group("kind")}_betas.expressions[{v}]', ok, (f.file, n.lineno),
                            f'{t}[{v}] with {v} ranging over {unparse(src[1])}' + ('' if ok else f'; a per-parameter vector must follow {m.group("recv")}.{m.group("kind")}_betas.names'),
                            detail=f'{t}[{v}] over {unparse(src[1])}', positive=True)

    from .pattern import body_is, find, find_expr, has, has_expr

    def comp_over(f: FuncInfo, target: str, names_text: str, elt_pat: str, what: str):
        """target = [<elt_pat with _X> for _X in <names_text>]"""
        construct = f'{f.qualname}:{target}'
        b = find(f.node, f'{target} = [{elt_pat} for _X in {names_text}]')
        ss = [n for n in walk_no_nested(f.node) if isinstance(n, (ast.Assign, ast.AnnAssign)) and any(unparse(t) == target for t in (n.targets if isinstance(n, ast.Assign) else [n.target])) and not (isinstance(n.value, ast.Constant) and n.value.value is None)]
        if not ss:
            raise AnalysisError(f'{rule}: {f.qualname} no longer assigns {target}')
        ok = b is not None and len(ss) == 1
        if ok:
            ctx.add(rule, construct, True, (f.file, ss[0].lineno), f'{target} = [{what} for each name of {names_text}]')
            return
        # the same list with holes: over which sequence it runs, and what stands for one name
        h = find(f.node, f'{target} = [__ELT for __VAR in __SEQ]') if len(ss) == 1 else None
        if h is not None:
            seq_txt = unparse(h['__SEQ'][1])
            elt = h['__ELT'][1]
            if seq_txt != names_text and not isinstance(h['__SEQ'][1], ast.Name):
                ctx.add(rule, construct, False, (f.file, ss[0].lineno), f'{target} is built by going through {seq_txt}; entry k must belong to the k-th name of {names_text} (the order that defines the ids the engine uses)', seq_txt, positive=True)
                return
            if isinstance(elt, ast.BoolOp) and isinstance(elt.op, ast.Or):
                ctx.add(rule, construct, False, (f.file, ss[0].lineno), f'the value of a name is chosen with `{unparse(elt)[:100]}`: a value that is given but falsy (0, 0.0) is replaced by the alternative', unparse(elt), positive=True)
                return
        ctx.add(rule, construct, None, (f.file, ss[0].lineno), f'{target} = {unparse(ss[0].value)[:120]} is not in the expected form [{what} for each name of {names_text}]', detail=unparse(ss[0].value))

    prep = prog.func('expressions.idmanager', 'IdManager.prepare')
    comp_over(prep, 'self.bounds', 'self.free_betas.names', '(self.free_betas.expressions[_X].lb, self.free_betas.expressions[_X].ub)', '(lb, ub) of that parameter')
    comp_over(prep, 'self.free_betas_values', 'self.free_betas.names', 'self.free_betas.expressions[_X].initValue', 'initValue of that parameter')
    comp_over(prep, 'self.fixed_betas_values', 'self.fixed_betas.names', 'self.fixed_betas.expressions[_X].initValue', 'initValue of that parameter')
    gv = prog.func('expressions.base_expressions', 'Expression.get_value_and_derivatives')
    comp_over(gv, 'self.id_manager.free_betas_values', 'self.id_manager.free_betas.names',
              'betas[_X] if _X in betas else self.id_manager.free_betas.expressions[_X].initValue', 'betas[name] when given, else the initValue of the same name')
    # free-first numbering
    b = find(prep.node, """
_N = self.free_betas.names + self.fixed_betas.names + self.random_variables.names + self.draws.names + self.variables.names
___
_I = {_V: _K for _K, _V in enumerate(_N)}
___
self.elementary_expressions = ElementsTuple(expressions=None, indices=_I, names=_N)
""")
    ok = b is not None
    not_first = None
    if not ok:
        # any other order of the five lists that still starts with the free parameters is accepted
        for n in walk_no_nested(prep.node):
            if isinstance(n, ast.Assign) and isinstance(n.value, ast.BinOp):
                parts = [x.strip() for x in unparse(n.value).replace('\n', ' ').split('+')]
                if sorted(parts) == sorted(['self.free_betas.names', 'self.fixed_betas.names', 'self.random_variables.names', 'self.draws.names', 'self.variables.names']):
                    nm = unparse(n.targets[0])
                    numbered = has(prep.node, f'_I = {{_V: _K for _K, _V in enumerate({nm})}}\n___\nself.elementary_expressions = ElementsTuple(expressions=None, indices=_I, names={nm})')
                    if parts[0] == 'self.free_betas.names':
                        ok = numbered
                    elif numbered:
                        not_first = f'the global numbering enumerates {" + ".join(p_.split(".")[1] for p_ in parts)}: the free parameters do not come first, while the engine differentiates with respect to the literal ids 0..n-1'
    ctx.add(rule, 'IdManager.prepare:free-first', ok if (ok or not_first) else None, prep, not_first if not_first else 'global numbering = position in free + fixed + random variables + draws + variables, free parameters first (the engine differentiates w.r.t. literal ids 0..n-1)' if ok else 'the global numbering no longer enumerates a concatenation that starts with the free parameters', 'free-first', positive=bool(not_first))
    eni = prog.func('expressions.idmanager', 'expressions_names_indices')
    pn = eni.positional_params()[0]
    ok = body_is(eni.body, f"""
_I = {{}}
_N = sorted({pn})
for _K, _V in enumerate(_N):
    _I[_V] = _K
return ElementsTuple(expressions={pn}, indices=_I, names=_N)
""") is not None or body_is(eni.body, f"""
_N = sorted({pn})
_I = {{_V: _K for _K, _V in enumerate(_N)}}
return ElementsTuple(expressions={pn}, indices=_I, names=_N)
""") is not None
    unsorted = None
    if not ok:
        hb = find(eni.node, f'_N = __SRC\n___\nreturn ElementsTuple(expressions={pn}, indices=__IDX, names=_N)')
        if hb is not None and not (isinstance(hb['__SRC'][1], ast.Call) and call_name(hb['__SRC'][1]) == 'sorted'):
            unsorted = f'the names are {unparse(hb["__SRC"][1])}, not sorted({pn}): the canonical order of the parameters then depends on the order in which they appear in the formula'
    ctx.add(rule, 'expressions_names_indices', ok if (ok or unsorted) else None, eni, unsorted if unsorted else 'names are sorted and indices[name] is the position in that sorted list' if ok else 'the canonical order is no longer the sorted list of names with indices = enumerate(names)', 'sorted', positive=bool(unsorted))
    # BIOGEME sites
    B = prog.cls('biogeme', 'BIOGEME')
    f = B.methods['change_init_values']
    ok = has(f.node, """
for _I, _N in enumerate(self.id_manager.free_betas.names):
    _V = betas.get(_N)
    if _V is not None:
        self.id_manager.free_betas_values[_I] = _V
""")
    loops = [n for n in walk_no_nested(f.node) if isinstance(n, ast.For) and 'free_betas_values' in unparse(n)]
    if ok:
        ctx.add(rule, 'BIOGEME.change_init_values', True, f, 'free_betas_values[i] = betas[name] for (i, name) in enumerate(free_betas.names)')
    else:
        # the same update with holes: which sequence numbers the entries, and which values are written
        h = find(f.node, """
for _I, _N in enumerate(__SEQ):
    _V = betas.get(_N)
    if __TEST:
        self.id_manager.free_betas_values[_I] = _V
""")
        why = None
        if h is not None:
            sq, test = unparse(h['__SEQ'][1]), unparse(h['__TEST'][1])
            if sq != 'self.id_manager.free_betas.names':
                why = f'entry i of free_betas_values is given the value of the i-th element of {sq}; the vector is indexed by the sorted names self.id_manager.free_betas.names'
            elif test != f'{h["_V"]} is not None':
                why = f'a value is written only when `{test}`: the guard for "no value given" is `is not None`, a given value of 0.0 is otherwise skipped'
        ctx.add(rule, 'BIOGEME.change_init_values', False if why else None, f, why or f'update of free_betas_values is not in the expected form: {unparse(loops[0])[:150] if loops else "missing"}',
                (unparse(loops[0]) if loops else 'missing'), positive=bool(why))
    f = B.methods['beta_values_dict_to_list']
    ok = has(f.node, """
_L = []
for _X in self.id_manager.free_betas.names:
    _V = beta_dict.get(_X)
    if _V is None:
        ___
        raise BiogemeError(__MSG)
    _L.append(_V)
return _L
""")
    ctx.add(rule, 'BIOGEME.beta_values_dict_to_list', ok, f, 'the list follows free_betas.names, element = beta_dict[name], missing name refused' if ok else 'the conversion of a dictionary of values into a vector no longer follows free_betas.names name by name', 'dict_to_list')
    f = B.methods['calculate_likelihood_and_derivatives']
    ok = bool(find_expr(f.node, 'self.id_manager.free_betas.names[_I]')) and has(f.node, 'for _I, _V in enumerate(x):\n    print(f"{self.id_manager.free_betas.names[_I]} = {_V}", file=_F)')
    ctx.add(rule, 'BIOGEME.calculate_likelihood_and_derivatives:iter-lines', ok, f, 'line i of the iteration file carries free_betas.names[i] and x[i]' if ok else 'the lines of the iteration file no longer pair free_betas.names[i] with x[i]', 'iter')
    f = B.methods['report_array']
    ok = has(f.node, """
_N = self.free_beta_names
_R = ', '.join([f'{_A}={_B:.2g}' for _A, _B in zip(_N[:_L], array[:_L])])
""", ) or has(f.node, "_N = self.free_beta_names\n___\nreturn ', '.join([f'{_A}={_B:.2g}' for _A, _B in zip(_N[:_L], array[:_L])])")
    if not ok:
        ok = bool(find_expr(f.node, 'zip(_N[:_L], array[:_L])')) and has(f.node, '_N = self.free_beta_names')
    ctx.add(rule, 'BIOGEME.report_array', ok, f, 'names and values are paired position by position from free_beta_names' if ok else 'report_array pairing changed', 'report_array')
    f = B.methods['free_beta_names']
    ok = body_is(f.body, 'return self.id_manager.free_betas.names') is not None
    ctx.add(rule, 'BIOGEME.free_beta_names', ok, f, 'free_beta_names is free_betas.names' if ok else unparse(f.body[-1]), unparse(f.body[-1]))
    f = B.methods['get_bounds_on_beta']
    pm = f.positional_params()[1]
    ok = has(f.node, f'_I = self.id_manager.free_betas.indices.get({pm})\n___\nreturn self.id_manager.bounds[_I]') or has(f.node, f'_I = self.id_manager.free_betas.indices[{pm}]\n___\nreturn self.id_manager.bounds[_I]')
    ctx.add(rule, 'BIOGEME.get_bounds_on_beta', ok, f, 'bounds[free_betas.indices[name]]' if ok else 'bounds are no longer looked up through free_betas.indices[name]', 'bounds')
    f = B.methods['check_derivatives']
    calls = [c for c in ast.walk(f.node) if isinstance(c, ast.Call) and unparse(c.func).endswith('derivatives.check_derivatives')]
    ok = len(calls) == 1 and len(calls[0].args) >= 3 and unparse(calls[0].args[2]) == 'self.id_manager.free_betas.names'
    ctx.add(rule, 'BIOGEME.check_derivatives', ok, f, 'names handed to check_derivatives are free_betas.names' if ok else 'check_derivatives receives other names', unparse(calls[0]) if calls else '')
    # results
    R = prog.cls('results', 'RawResults')
    f = R.methods['__init__']
    ok = has(f.node, 'self.betaNames = the_model.id_manager.free_betas.names') and has(f.node, """
self.betas = []
for _V, _N in zip(beta_values, self.betaNames):
    _B = the_model.get_bounds_on_beta(_N)
    self.betas.append(Beta(_N, _V, _B))
""")
    ctx.add(rule, 'RawResults.__init__:betas', ok, f, 'value i is paired with free_betas.names[i] and with the bounds looked up by that name' if ok else 'pairing of estimates, names and bounds in RawResults changed', 'rawresults')
    BR = prog.cls('results', 'bioResults')
    f = BR.methods['get_beta_values']
    from .pattern import _parse, find, m_node

    b = find(f.node, """
for _B in my_betas:
    try:
        _I = __TABLE.index(_B)
        _VALS[_B] = self.data.betas[_I].value
    except KeyError as _EXC:
        ___
""") or find(f.node, "for _B in my_betas:\n    _I = __TABLE.index(_B)\n    _VALS[_B] = self.data.betas[_I].value")
    if b is None:
        ctx.shape(rule, 'bioResults.get_beta_values', False, f, '', 'for each requested name: position = <table>.index(name); value = betas[position].value')
    else:
        tbl = unparse(b['__TABLE'][1])
        ok = tbl == 'self.data.betaNames'
        ctx.add(rule, 'bioResults.get_beta_values', ok, f, 'the value of a requested name is betas[betaNames.index(name)]' if ok
                else f'the position of a requested name is looked up in {tbl}: betas follow betaNames, so the value of another parameter is returned as soon as the request is not the full sorted list', tbl, positive=True)
    f = BR.methods['get_betas_for_sensitivity_analysis']
    def zipped(e):
        return isinstance(e, ast.Call) and isinstance(e.func, ast.Name) and e.func.id == 'dict' and len(e.args) == 1 and isinstance(e.args[0], ast.Call) and unparse(e.args[0].func) == 'zip'

    comps = [c for c in walk_no_nested(f.node) if isinstance(c, ast.ListComp) and (isinstance(c.elt, ast.DictComp) or zipped(c.elt))]
    verdict = True if len(comps) >= 2 else None
    det = ''
    for c in comps:
        b = {}
        # rows of the whole table of draws labelled with the requested names in turn: no selection of the columns of those names
        whole = None
        for pat in ('[{_N: _V for _N, _V in zip(my_betas, _ROW)} for _ROW in __M]', '[dict(zip(my_betas, _ROW)) for _ROW in __M]'):
            bw = {}
            if m_node(_parse(pat)[0].value, c, bw) and not isinstance(bw['__M'][1], ast.Subscript):
                whole = unparse(bw['__M'][1])
        if whole is not None:
            verdict, det = False, f'the rows of {whole} (all parameters, in the order of betaNames) are labelled with my_betas in turn, without selecting the columns of those names: the k-th requested name receives the draw of the k-th parameter'
            break
        if zipped(c.elt):
            # the same table written dict(zip(<labels>, row)): column i of the selection gets the i-th label
            if not m_node(_parse('[dict(zip(__LABELS, _ROW)) for _ROW in __M[:, _IDX]]')[0].value, c, b):
                verdict, det = None, unparse(c)[:160]
                continue
            label, ivar = unparse(b['__LABELS'][1]), None
            if label != 'my_betas':
                verdict, det = False, f'values of the selected columns are labelled with the names of {label} in turn; column i of the selection belongs to my_betas[i]'
                break
        else:
            if not m_node(_parse('[{__LABEL: _V for _I, _V in enumerate(_ROW)} for _ROW in __M[:, _IDX]]')[0].value, c, b):
                verdict, det = None, unparse(c)[:160]
                continue
            label = unparse(b['__LABEL'][1])
            # inside the comprehension the metavariable _I is local: recover its name from the generator
            ivar = unparse(c.elt.generators[0].target.elts[0])
        if ivar is not None and label != f'my_betas[{ivar}]':
            verdict, det = False, f'values of the selected columns are labelled {label}; column i of the selection belongs to my_betas[i]'
            break
        defs = [a for a in walk_no_nested(f.node) if isinstance(a, ast.Assign) and unparse(a.targets[0]) == b['_IDX'] and seq(a) < seq(c)]
        for a in defs:
            bb = {}
            if not m_node(_parse('[__T.index(_B) for _B in my_betas]')[0].value, a.value, bb):
                verdict, det = None, unparse(a)[:160]
            elif unparse(bb['__T'][1]) != 'self.data.betaNames':
                verdict, det = False, f'columns are selected through {unparse(bb["__T"][1])}.index(name); the columns of the draws follow betaNames'
        if not defs:
            verdict, det = None, 'no definition of the selected columns'
    ctx.add(rule, 'bioResults.get_betas_for_sensitivity_analysis', verdict, f,
            'column betaNames.index(name) of the draws is reported under that name, for the names requested and in their order' if verdict
            else (det if verdict is False else f'shape not recognised - expected: [{{my_betas[i]: value for i, value in enumerate(row)}} for row in draws[:, [betaNames.index(b) for b in my_betas]]]: {det}'), det, positive=verdict is False)
