"""Rule packs shared by several properties: ECC (engine-call contract),
FWD (flag forwarding), ORD (canonical parameter order)."""

from __future__ import annotations

import ast
import os
import re

from .cfg import cfg_of
from .core import AnalysisError, ClassInfo, FuncInfo, Program, call_name, dotted, unparse, walk_no_nested
from .report import Ctx

PYX = '/venv/lib/python3.12/site-packages/cythonbiogeme/cpp/cythonbiogeme.pyx'

#: reader side, read off cythonbiogeme.pyx: method -> parameter names
ENGINE_API = {
    'pyBiogeme': {
        'setPanel': ['panel'],
        'calculateLikelihoodAndDerivatives': ['betas', 'fixedBetas', 'betaIds', 'gmem', 'hmem', 'bmem', 'hessian', 'bhhh', 'draws'],
        'setBounds': ['lb', 'ub'],
        'calculateLikelihood': ['betas', 'fixedBetas'],
        'simulateSimpleFormula': ['formula', 'betas', 'fixedBetas', 'gradient', 'hessian', 'gmem', 'hmem'],
        'simulateFormula': ['formula', 'betas', 'fixedBetas', 'd'],
        'simulateSeveralFormulas': ['formulas', 'betas', 'fixedBetas', 'd', 'nThreads', 'sample_size'],
        'setExpressions': ['loglikeFormulas', 'nbrOfThreads', 'weightFormulas'],
        'setData': ['d'],
        'setDataMap': ['m'],
        'setMissingData': ['md'],
        'setDraws': ['draws'],
    },
    'pyEvaluateOneExpression': {
        'setExpression': ['formula'],
        'setFreeBetas': ['freeBetas'],
        'setFixedBetas': ['fixedBetas'],
        'setNumberOfThreads': ['n'],
        'setData': ['d'],
        'setDraws': ['draws'],
        'setDataMap': ['dm'],
        'setMissingData': ['md'],
        'calculate': ['gradient', 'hessian', 'bhhh', 'aggregation'],
        'getResults': [],
    },
}

#: engine parameter -> admissible origin roles of the actual argument
ROLE_OF_PARAM = {
    'panel': {'LIT:True'},
    'betas': {'FREE', 'PARAM:x'},
    'freeBetas': {'FREE'},
    'fixedBetas': {'FIXED'},
    'betaIds': {'LITERAL_IDS'},
    'gmem': {'BUF1'},
    'hmem': {'BUF2'},
    'bmem': {'BUF2'},
    'hessian': {'PARAM:hessian', 'PARAM:calculate_hessian'},
    'bhhh': {'PARAM:bhhh', 'PARAM:calculate_bhhh'},
    'gradient': {'PARAM:gradient', 'PARAM:calculate_gradient'},
    'aggregation': {'PARAM:aggregation'},
    'formulas': {'SIGS'},
    'formula': {'SIG', 'SIG_LOGLIKE'},
    'loglikeFormulas': {'SIG_LOGLIKE'},
    'weightFormulas': {'SIG_WEIGHT'},
    'nbrOfThreads': {'THREADS'},
    'nThreads': {'THREADS'},
    'n': {'THREADS'},
    'sample_size': {'SAMPLE_SIZE'},
    'd': {'DATA', 'DATA_RESAMPLE'},
    'm': {'MAP', 'MAP_RESAMPLE'},
    'dm': {'MAP', 'MAP_RESAMPLE'},
    'md': {'MISSING'},
    'draws': {'DRAWS'},
}


def check_reader_table(ctx: Ctx, rule: str) -> None:
    """the frozen API equals the one of the installed engine source, when present"""
    if not os.path.exists(PYX):
        ctx.note(f'{rule}: {PYX} absent, frozen engine API table not cross-checked')
        return
    src = open(PYX, encoding='utf-8', errors='replace').read()
    cur = None
    found: dict[str, dict[str, list[str]]] = {}
    for m in re.finditer(r'^cdef class (\w+):|^\tdef (\w+)\(([^)]*)\)', src, re.M | re.S):
        if m.group(1):
            cur = m.group(1)
            found[cur] = {}
        elif cur and not m.group(2).startswith('__'):
            ps = [p.strip().split('=')[0].strip() for p in m.group(3).replace('\n', ' ').split(',')]
            found[cur][m.group(2)] = [p for p in ps if p and p != 'self']
    for c, ms in ENGINE_API.items():
        for name, params in ms.items():
            got = found.get(c, {}).get(name)
            if got != params:
                raise AnalysisError(f'{rule}: frozen engine API {c}.{name}{params} differs from the installed engine source: {got}')


class RoleFinder:
    def __init__(self, prog: Program):
        self.prog = prog

    def attr_values(self, cls: ClassInfo | None, attr: str) -> list[tuple[FuncInfo, ast.expr]]:
        out = []
        if cls is None:
            return out
        for c in cls.mro():
            for f in c.methods.values():
                for n in walk_no_nested(f.node):
                    if isinstance(n, (ast.Assign, ast.AnnAssign)) and getattr(n, 'value', None) is not None:
                        ts = n.targets if isinstance(n, ast.Assign) else [n.target]
                        for t in ts:
                            if unparse(t) == f'self.{attr}':
                                out.append((f, n.value))
        return out

    def role(self, expr: ast.expr, f: FuncInfo, depth: int = 0) -> str:
        cfg = cfg_of(f.node)
        origins = cfg.origins(expr) if isinstance(expr, ast.Name) else [expr]
        roles = {self._role1(o, f, depth) for o in origins}
        if len(roles) == 1:
            return roles.pop()
        return 'MIXED(' + '|'.join(sorted(roles)) + ')'

    def _role1(self, e: ast.expr, f: FuncInfo, depth: int) -> str:
        t = unparse(e)
        if isinstance(e, ast.Constant):
            return f'LIT:{e.value!r}'
        if isinstance(e, ast.Name):
            if e.id in f.params():
                return f'PARAM:{e.id}'
            p = f.parent
            while p is not None:
                if e.id in p.params():
                    return f'PARAM:{e.id}'
                p = p.parent
            return f'?{t}'
        if isinstance(e, ast.Call):
            name = call_name(e)
            if name == 'get_signature' and isinstance(e.func, ast.Attribute):
                r = unparse(e.func.value)
                if 'weight' in r:
                    return 'SIG_WEIGHT'
                if 'log_like' in r or 'loglike' in r:
                    return 'SIG_LOGLIKE'
                return 'SIG'
            if name == 'beta_values_dict_to_list':
                return 'FREE'
            if name == 'sample_with_replacement':
                return 'DATA_RESAMPLE'
            if name == 'sample_individual_map_with_replacement':
                return 'MAP_RESAMPLE'
            if name == 'get_sample_size':
                return 'SAMPLE_SIZE'
            if name == 'values' and t.endswith('free_betas.indices.values()'):
                return 'LITERAL_IDS'
            if dotted(e.func) in ('np.empty', 'np.zeros', 'numpy.empty') and e.args:
                a = e.args[0]
                if isinstance(a, (ast.List, ast.Tuple)) and len(a.elts) == 2:
                    return 'BUF2'
                return 'BUF1'
            if name in ('array', 'asarray') and e.args:
                return self.role(e.args[0], f, depth + 1) if depth < 4 else f'?{t}'
            if name == 'get_value' and 'missing_data' in t:
                return 'MISSING'
            return f'?{t[:50]}'
        if isinstance(e, ast.ListComp) and isinstance(e.elt, ast.Call) and call_name(e.elt) == 'get_signature':
            it = unparse(e.generators[0].iter)
            if 'formulas' in it and it.endswith('.values()') and not e.generators[0].ifs:
                return 'SIGS'
            return f'?SIGS({it})'
        if isinstance(e, ast.Attribute):
            if t.endswith('free_betas_values'):
                return 'FREE'
            if t.endswith('fixed_betas_values'):
                return 'FIXED'
            if t.endswith('database.data'):
                return 'DATA'
            if t.endswith('.individualMap'):
                return 'MAP'
            if t.endswith('.theDraws'):
                return 'DRAWS'
            if t == 'self.number_of_threads':
                return 'THREADS'
            if t.endswith('.missingData'):
                return 'MISSING'
            if isinstance(e.value, ast.Name) and e.value.id == 'self' and depth < 4:
                owner = f
                while owner.cls is None and owner.parent is not None:
                    owner = owner.parent
                vals = self.attr_values(owner.cls, e.attr)
                rs = {self.role(v, g, depth + 1) for g, v in vals}
                if len(rs) == 1:
                    return rs.pop()
                if rs:
                    return 'MIXED(' + '|'.join(sorted(rs)) + ')'
        return f'?{t[:50]}'


def engine_receivers(prog: Program) -> list[tuple[FuncInfo, str, str]]:
    """(function, receiver text, engine class) for every object created from the engine"""
    out = []
    for f in prog.all_functions():
        for n in walk_no_nested(f.node):
            if isinstance(n, ast.Assign) and isinstance(n.value, ast.Call):
                cn = call_name(n.value)
                if cn in ENGINE_API:
                    out.append((f, unparse(n.targets[0]), cn))
    return out


def ecc(ctx: Ctx, rule: str, only_class: str | None = None) -> int:
    """Engine-call contract: every argument of every call on an engine object has the role the reader expects."""
    prog = ctx.prog
    check_reader_table(ctx, rule)
    rf = RoleFinder(prog)
    recv = engine_receivers(prog)
    if not recv:
        raise AnalysisError(f'{rule}: no object created from cythonbiogeme found')
    n = 0
    for f0, rtext, ecls in recv:
        if only_class and ecls != only_class:
            continue
        # self.theC is used by every method of the class; a local only by its function
        scope = [f0]
        if rtext.startswith('self.') and f0.cls is not None:
            scope = list(f0.cls.methods.values())
        for g in scope:
            for c in walk_no_nested(g.node):
                if not (isinstance(c, ast.Call) and isinstance(c.func, ast.Attribute) and unparse(c.func.value) == rtext):
                    continue
                m = c.func.attr
                construct = f'{g.qualname}:{rtext}.{m}'
                if m not in ENGINE_API[ecls]:
                    ctx.add(rule, construct, False, (g.file, c.lineno), f'{ecls} has no method {m}', m)
                    continue
                params = ENGINE_API[ecls][m]
                bound: list[tuple[str, ast.expr]] = []
                for i, a in enumerate(c.args):
                    if i < len(params):
                        bound.append((params[i], a))
                    else:
                        ctx.add(rule, construct, False, (g.file, c.lineno), f'too many arguments for {m}', unparse(c))
                for k in c.keywords:
                    if k.arg in params:
                        bound.append((k.arg, k.value))
                    else:
                        ctx.add(rule, construct, False, (g.file, c.lineno), f'{m} has no parameter {k.arg}', unparse(c))
                for p, a in bound:
                    role = rf.role(a, g)
                    want = ROLE_OF_PARAM.get(p, set())
                    ok = role in want
                    n += 1
                    ctx.add(rule, f'{construct}({p})', ok, (g.file, c.lineno),
                            f'{m}({p}=...) receives {unparse(a)[:60]} [{role}]' + ('' if ok else f'; the engine reads this slot as {sorted(want)}'),
                            detail=f'{p}<-{role}')
    return n


# --------------------------------------------------------------------------

FLAGS = ('gradient', 'hessian', 'bhhh', 'aggregation', 'scaled', 'prepare_ids', 'named_results', 'number_of_draws', 'database', 'betas', 'batch')


def _strip(n: str) -> str:
    return n[len('calculate_') :] if n.startswith('calculate_') else n


def fwd(ctx: Ctx, rule: str) -> int:
    """flag forwarding: a caller's flag parameter handed over by keyword (or by position to a
    resolved callee) lands in the same-named parameter"""
    prog = ctx.prog
    n = 0
    for f in prog.all_functions():
        own = set()
        p = f
        while p is not None:
            own |= set(p.params())
            p = p.parent
        flags = {x for x in own if _strip(x) in FLAGS}
        if not flags:
            continue
        for c in walk_no_nested(f.node):
            if not isinstance(c, ast.Call):
                continue
            for k in c.keywords:
                if k.arg is None or not isinstance(k.value, ast.Name) or k.value.id not in flags:
                    continue
                if _strip(k.arg) not in FLAGS:
                    continue
                ok = _strip(k.arg) == _strip(k.value.id)
                n += 1
                ctx.add(rule, f'{f.qualname}:{call_name(c)}({k.arg}=)', ok, (f.file, c.lineno),
                        f'{call_name(c)}({k.arg}={k.value.id})' + ('' if ok else f': the flag {k.value.id} of the caller lands in {k.arg}'),
                        detail=f'{k.arg}={k.value.id}')
            # positional hand-over to a resolved callee
            if any(isinstance(a, ast.Name) and a.id in flags for a in c.args):
                tg = prog.resolve_call(f, c)
                if len(tg) >= 1:
                    g = tg[0]
                    ps = g.positional_params()
                    if g.cls is not None and 'staticmethod' not in g.decorators() and not (isinstance(c.func, ast.Attribute) and dotted(c.func.value) and prog.resolve_expr(f.module, c.func.value) and prog.resolve_expr(f.module, c.func.value)[0] == 'class'):
                        ps = ps[1:]
                    elif g.cls is not None and 'staticmethod' not in g.decorators():
                        ps = ps  # Cls.method(self, ...) called explicitly
                    for i, a in enumerate(c.args):
                        if isinstance(a, ast.Name) and a.id in flags and i < len(ps) and _strip(ps[i]) in FLAGS:
                            ok = _strip(ps[i]) == _strip(a.id)
                            n += 1
                            ctx.add(rule, f'{f.qualname}:{call_name(c)}(#{i})', ok, (f.file, c.lineno),
                                    f'{call_name(c)}(..{a.id}..) binds parameter {ps[i]}' + ('' if ok else ' - a different flag'),
                                    detail=f'{ps[i]}={a.id}')
    return n
