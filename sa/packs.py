"""Rule packs shared by several properties: ECC (engine-call contract),
FWD (flag forwarding), ORD (canonical parameter order)."""

from __future__ import annotations

import ast
import os
import re

from .cfg import cfg_of
from .core import seq, AnalysisError, ClassInfo, FuncInfo, Program, call_name, dotted, unparse, walk_no_nested
from .report import Ctx

PYX = '/venv/lib/python3.12/site-packages/cythonbiogeme/cpp/cythonbiogeme.pyx'

#: reader side, read off cythonbiogeme.pyx: method -> parameter names
ENGINE_API = {
    'pyBiogeme': {
        'setPanel': ['panel'],
        'calculateLikelihoodAndDerivatives': ['betas', 'fixedBetas', 'betaIds', 'gmem', 'hmem', 'bmem', 'hessian', 'bhhh', 'draws'],
        'setBounds': ['lb', 'ub'],
        'calculateLikelihood': ['betas', 'fixedBetas'],
        'simulateSimpleFormula': ['formula', 'betas', 'fixedBetas', 'gradient', 'hessian', 'gmem', 'hmem'],
        'simulateFormula': ['formula', 'betas', 'fixedBetas', 'd'],
        'simulateSeveralFormulas': ['formulas', 'betas', 'fixedBetas', 'd', 'nThreads', 'sample_size'],
        'setExpressions': ['loglikeFormulas', 'nbrOfThreads', 'weightFormulas'],
        'setData': ['d'],
        'setDataMap': ['m'],
        'setMissingData': ['md'],
        'setDraws': ['draws'],
    },
    'pyEvaluateOneExpression': {
        'setExpression': ['formula'],
        'setFreeBetas': ['freeBetas'],
        'setFixedBetas': ['fixedBetas'],
        'setNumberOfThreads': ['n'],
        'setData': ['d'],
        'setDraws': ['draws'],
        'setDataMap': ['dm'],
        'setMissingData': ['md'],
        'calculate': ['gradient', 'hessian', 'bhhh', 'aggregation'],
        'getResults': [],
    },
}

#: engine parameter -> admissible origin roles of the actual argument
ROLE_OF_PARAM = {
    'panel': {'LIT:True'},
    'betas': {'FREE', 'PARAM:x'},
    'freeBetas': {'FREE'},
    'fixedBetas': {'FIXED'},
    'betaIds': {'LITERAL_IDS'},
    'gmem': {'BUF1'},
    'hmem': {'BUF2'},
    'bmem': {'BUF2'},
    'hessian': {'PARAM:hessian', 'PARAM:calculate_hessian'},
    'bhhh': {'PARAM:bhhh', 'PARAM:calculate_bhhh'},
    'gradient': {'PARAM:gradient', 'PARAM:calculate_gradient'},
    'aggregation': {'PARAM:aggregation'},
    'formulas': {'SIGS'},
    'formula': {'?SIG', 'SIG_LOGLIKE'},  # ?SIG: the signature of a formula that is neither .log_like nor .weight of the object
    'loglikeFormulas': {'SIG_LOGLIKE'},
    'weightFormulas': {'SIG_WEIGHT'},
    'nbrOfThreads': {'THREADS'},
    'nThreads': {'THREADS'},
    'n': {'THREADS'},
    'sample_size': {'SAMPLE_SIZE'},
    'd': {'DATA', 'DATA_RESAMPLE'},
    'm': {'MAP', 'MAP_RESAMPLE'},
    'dm': {'MAP', 'MAP_RESAMPLE'},
    'md': {'MISSING'},
    'draws': {'DRAWS'},
}

#: (engine class, method, parameter) whose default is None in the engine source: None handed over there is the parameter not being given
ENGINE_DEFAULT_NONE = {('pyBiogeme', 'setExpressions', 'weightFormulas')}

#: parameter names the slots are described by: such a parameter is a role of its own and is not traced to the call sites
PARAM_ROLES = {r for v in ROLE_OF_PARAM.values() for r in v if r.startswith('PARAM:')}


def check_reader_table(ctx: Ctx, rule: str) -> None:
    """the frozen API equals the one of the installed engine source, when present"""
    if not os.path.exists(PYX):
        ctx.note(f'{rule}: {PYX} absent, frozen engine API table not cross-checked')
        return
    src = open(PYX, encoding='utf-8', errors='replace').read()
    cur = None
    found: dict[str, dict[str, list[str]]] = {}
    defaults: set[tuple[str, str, str]] = set()
    for m in re.finditer(r'^cdef class (\w+):|^\tdef (\w+)\(([^)]*)\)', src, re.M | re.S):
        if m.group(1):
            cur = m.group(1)
            found[cur] = {}
        elif cur and not m.group(2).startswith('__'):
            ps = [p.strip().split('=')[0].strip() for p in m.group(3).replace('\n', ' ').split(',')]
            found[cur][m.group(2)] = [p for p in ps if p and p != 'self']
            for p in m.group(3).replace('\n', ' ').split(','):
                if '=' in p and p.split('=')[1].strip() == 'None':
                    defaults.add((cur, m.group(2), p.split('=')[0].strip()))
    for c, ms in ENGINE_API.items():
        for name, params in ms.items():
            got = found.get(c, {}).get(name)
            if got != params:
                raise AnalysisError(f'{rule}: frozen engine API {c}.{name}{params} differs from the installed engine source: {got}')
    if not ENGINE_DEFAULT_NONE <= defaults:
        raise AnalysisError(f'{rule}: frozen table of the engine parameters that default to None {sorted(ENGINE_DEFAULT_NONE)} differs from the installed engine source: {sorted(defaults)}')


class RoleFinder:
    def __init__(self, prog: Program):
        self.prog = prog

    def attr_values(self, cls: ClassInfo | None, attr: str) -> list[tuple[FuncInfo, ast.expr]]:
        out = []
        if cls is None:
            return out
        for c in cls.mro():
            for f in c.methods.values():
                for n in walk_no_nested(f.node):
                    if isinstance(n, (ast.Assign, ast.AnnAssign)) and getattr(n, 'value', None) is not None:
                        ts = n.targets if isinstance(n, ast.Assign) else [n.target]
                        for t in ts:
                            if unparse(t) == f'self.{attr}':
                                out.append((f, n.value))
        return out

    def _origins(self, expr: ast.expr, f: FuncInfo) -> list[ast.expr]:
        """the expressions a local name (or an attribute of the object assigned earlier in the same function) stands for at
        the place where it is read: plain copies followed backwards along the reaching definitions"""
        cfg = cfg_of(f.node)
        if isinstance(expr, ast.Name):
            at = cfg.node_of(expr)
            ds = cfg.reaching(at, expr.id) if at is not None else []
            keep = [x for x in ds if not self._contradicted(cfg, f.node, x, at)]
            if keep and len(keep) < len(ds) and all(x.kind == 'assign' and x.value is not None for x in keep):
                # `if t: v = A else: v = B` ... `if t: use(v)`: the definition made under the opposite outcome of the same test is not what is read
                out: list[ast.expr] = []
                for x in keep:
                    out += cfg.origins(x.value, x.node) if isinstance(x.value, ast.Name) else [x.value]
                return out
            return cfg.origins(expr)
        d = dotted(expr) if isinstance(expr, ast.Attribute) else None
        at = cfg.node_of(expr)
        if d and d.startswith('self.') and d.count('.') == 1 and at is not None:
            ds = cfg.reaching(at, d)
            if ds and all(x.kind == 'assign' and x.value is not None for x in ds):
                out: list[ast.expr] = []
                for x in ds:
                    out += cfg.origins(x.value, x.node) if isinstance(x.value, ast.Name) else [x.value]
                return out
        return [expr]

    @staticmethod
    def _branches(func: ast.AST) -> dict[int, tuple]:
        """id(statement) -> the (if statement, outcome of its test) pairs the statement is executed under"""
        c = getattr(func, '_verif_branches', None)
        if c is not None:
            return c
        out: dict[int, tuple] = {}

        def rec(stmts, ctx_):
            for st in stmts:
                out[id(st)] = ctx_
                if isinstance(st, (ast.FunctionDef, ast.AsyncFunctionDef, ast.ClassDef)):
                    continue
                if isinstance(st, ast.If):
                    rec(st.body, ctx_ + ((st, True),))
                    rec(st.orelse, ctx_ + ((st, False),))
                    continue
                for field in ('body', 'orelse', 'finalbody'):
                    v = getattr(st, field, None)
                    if isinstance(v, list) and v and isinstance(v[0], ast.stmt):
                        rec(v, ctx_)
                for h in getattr(st, 'handlers', []) or []:
                    rec(h.body, ctx_)

        rec(func.body, ())
        try:
            func._verif_branches = out
        except Exception:  # noqa
            pass
        return out

    def _contradicted(self, cfg, func: ast.AST, d, at: int) -> bool:
        """the definition d is made under one outcome of a test and the read at node `at` happens under the opposite outcome of
        the same test (two `if` statements with the same test over plain locals), while nothing the test reads is assigned
        between the two on a path that carries d to the read"""
        from .cfg import ENTRY

        br = self._branches(func)
        sd, su = cfg.stmt.get(d.node), cfg.stmt.get(at)
        cd, cu = br.get(id(sd)), br.get(id(su))
        if not cd or not cu:
            return False
        plain = (ast.Name, ast.Load, ast.UnaryOp, ast.Not, ast.BoolOp, ast.And, ast.Or, ast.Compare, ast.cmpop, ast.Constant)
        for i1, p1 in cd:
            for i2, p2 in cu:
                if i1 is i2 or p1 == p2 or unparse(i1.test) != unparse(i2.test):
                    continue
                if not all(isinstance(x, plain) for x in ast.walk(i1.test)):
                    continue
                names = {x.id for x in ast.walk(i1.test) if isinstance(x, ast.Name)}
                if not names:
                    continue
                inside = {id(x) for x in ast.walk(i1)} | {id(x) for x in ast.walk(i2)}
                alldefs = cfg.defs()
                kills = {n for n, xs in alldefs.items() if n != d.node and any(x.name == d.name for x in xs)}
                sites = [n for n, xs in alldefs.items() if n != ENTRY and any(x.name in names for x in xs)]
                if any(id(cfg.stmt.get(n)) in inside for n in sites):
                    continue
                if any(cfg.path_avoiding(d.node, n, kills) and cfg.path_avoiding(n, at, kills | {d.node}) for n in sites if n not in kills):
                    continue
                return True
        return False

    def _rebinds(self, method: str, attr: str, depth: int = 2) -> bool:
        """some method of that name assigns `self.<attr>` (itself, or through a method it calls on self)"""
        cache = self.__dict__.setdefault('_rebinds_cache', {})
        key = (method, attr)
        if key in cache:
            return cache[key]
        cache[key] = False
        out = False
        for g in self.prog.methods_named(method):
            for n in walk_no_nested(g.node):
                ts = n.targets if isinstance(n, ast.Assign) else [n.target] if isinstance(n, (ast.AugAssign, ast.AnnAssign)) else []
                if any(isinstance(x, ast.Attribute) and isinstance(x.ctx, ast.Store) and x.attr == attr and isinstance(x.value, ast.Name) and x.value.id == 'self' for t in ts for x in ast.walk(t)):
                    out = True
                elif depth > 0 and isinstance(n, ast.Call) and isinstance(n.func, ast.Attribute) and isinstance(n.func.value, ast.Name) and n.func.value.id == 'self' and n.func.attr != method:
                    out = out or self._rebinds(n.func.attr, attr, depth - 1)
            if out:
                break
        cache[key] = out
        return out

    def _read_before_rebind(self, expr: ast.expr, f: FuncInfo, depth: int = 3) -> str | None:
        """a local that is a plain copy of an attribute `<owner>.<attr>` stands for that attribute only as long as nothing re-binds the attribute between
        the copy and the read: the name of the call `<owner>.<method>()` on a path from the copy to the read, where a method of that name assigns
        self.<attr> (the local then holds what the attribute was before: `m = db.individualMap; db.build_panel_map(); engine.setDataMap(m)`)"""
        from .core import inline_locals

        if not isinstance(expr, ast.Name):
            return None
        cfg = cfg_of(f.node)
        at = cfg.node_of(expr)
        if at is None:
            return None
        todo = [(expr.id, at, at, depth)]
        while todo:
            name, read_at, use_at, dp = todo.pop()
            ds = cfg.reaching(read_at, name)
            kills = {x.node for x in ds}
            for d in ds:
                if d.kind != 'assign' or d.value is None:
                    continue
                if isinstance(d.value, ast.Name) and dp > 0:
                    todo.append((d.value.id, d.node, use_at, dp - 1))
                    continue
                if not isinstance(d.value, ast.Attribute):
                    continue
                owner = unparse(inline_locals(f.node, d.value.value))
                for c in walk_no_nested(f.node):
                    if not (isinstance(c, ast.Call) and isinstance(c.func, ast.Attribute)):
                        continue
                    n = cfg.node_of(c)
                    if n is None or n in (d.node, use_at):
                        continue
                    if unparse(inline_locals(f.node, c.func.value)) != owner or not self._rebinds(c.func.attr, d.value.attr):
                        continue
                    if cfg.path_avoiding(d.node, n, kills - {d.node}) and cfg.path_avoiding(n, use_at, {d.node}):
                        return f'{unparse(c.func)}()'
        return None

    def role(self, expr: ast.expr, f: FuncInfo, depth: int = 0) -> str:
        r_ = self._role(expr, f, depth)
        if isinstance(expr, ast.Name) and not r_.startswith('?'):
            late = self._read_before_rebind(expr, f)
            if late is not None:
                # the table / the map as it was before it was rebuilt is another object than the one the engine must read; for the other roles the
                # rule only says that it does not know
                return f'{r_}_AS_IT_WAS_BEFORE_{late}' if r_ in ('MAP', 'DATA') else f'?{unparse(expr)} (read before {late})'
        return r_

    def _role(self, expr: ast.expr, f: FuncInfo, depth: int = 0) -> str:
        origins = self._origins(expr, f)
        roles = {self._role1(o, f, depth) for o in origins}
        if len(roles) == 1:
            return roles.pop()
        parts = set()
        for r_ in roles:
            parts |= set(r_[6:-1].split('|')) if r_.startswith('MIXED(') else {r_}
        return 'MIXED(' + '|'.join(sorted(parts)) + ')'

    def _param_role(self, name: str, f: FuncInfo, depth: int) -> str:
        """role of a parameter: a parameter the engine slots are described by (x, hessian, ...) is its own role; a parameter
        of a private method or of a nested function has the role of what every call site hands over, when they all agree"""
        own = f'PARAM:{name}'
        if own in PARAM_ROLES or depth >= 4:
            return own
        private = f.name.startswith('_') and not (f.name.startswith('__') and f.name.endswith('__'))
        if not (private or f.parent is not None):
            return own
        roles = set()
        for g, c in self.prog.callers_of(f.name):
            tg = self.prog.resolve_call(g, c)
            if f not in tg:
                if isinstance(c.func, ast.Attribute) and not tg:
                    return own  # a call by that name on a receiver that does not resolve: may be another call site
                continue
            bound = self.prog.bind_call(g, c)
            if bound is None or name not in bound:
                return own
            roles.add(self.role(bound[name], g, depth + 1))
        if len(roles) == 1:
            r_ = roles.pop()
            return own if r_.startswith('?') else r_
        return own

    def _role1(self, e: ast.expr, f: FuncInfo, depth: int) -> str:
        t = unparse(e)
        if isinstance(e, ast.Constant):
            return f'LIT:{e.value!r}'
        if isinstance(e, ast.Name):
            # one of several names unpacked from an attribute of the object (`g, h, bh = self._memory`)
            for a_ in walk_no_nested(f.node):
                if isinstance(a_, ast.Assign) and isinstance(a_.targets[0], ast.Tuple) and any(isinstance(x, ast.Name) and x.id == e.id for x in a_.targets[0].elts) and isinstance(a_.value, ast.Attribute) and depth < 4:
                    return self._role1(a_.value, f, depth + 1)
            if e.id in f.params():
                return self._param_role(e.id, f, depth)
            p = f.parent
            while p is not None:
                if e.id in p.params():
                    return self._param_role(e.id, p, depth)
                p = p.parent
            return f'?{t}'
        if isinstance(e, ast.Call):
            name = call_name(e)
            if name == 'get_signature' and isinstance(e.func, ast.Attribute):
                # which formula is serialised: read off the attribute of the object the receiver stands for, not off its spelling
                kinds = set()
                for r in (cfg_of(f.node).origins(e.func.value) if isinstance(e.func.value, ast.Name) else [e.func.value]):
                    if isinstance(r, ast.Attribute) and r.attr in ('log_like', 'loglike'):
                        kinds.add('SIG_LOGLIKE')
                    elif isinstance(r, ast.Attribute) and r.attr == 'weight':
                        kinds.add('SIG_WEIGHT')
                    else:
                        kinds.add('?SIG')
                return kinds.pop() if len(kinds) == 1 else '?SIG'
            if name == 'beta_values_dict_to_list':
                return 'FREE'
            if name == 'sample_with_replacement':
                return 'DATA_RESAMPLE'
            if name == 'sample_individual_map_with_replacement':
                return 'MAP_RESAMPLE'
            if name == 'get_sample_size':
                return 'SAMPLE_SIZE'
            if name == 'values' and t.endswith('free_betas.indices.values()'):
                return 'LITERAL_IDS'
            if dotted(e.func) in ('np.empty', 'np.zeros', 'numpy.empty', 'numpy.zeros'):
                shape = e.args[0] if e.args else next((k.value for k in e.keywords if k.arg == 'shape'), None)
                if shape is None:
                    return f'?{t[:50]}'
                dims = set()
                for a in self._origins(shape, f):
                    if isinstance(a, (ast.List, ast.Tuple)) and len(a.elts) in (1, 2) and not any(isinstance(x, ast.Starred) for x in a.elts):
                        dims.add(len(a.elts))
                    elif (isinstance(a, ast.Constant) and isinstance(a.value, int)) or (isinstance(a, ast.Call) and call_name(a) == 'len'):
                        dims.add(1)
                    else:
                        dims.add(0)  # a shape the rule cannot read (a parameter, an attribute, a computed tuple)
                if dims == {2}:
                    return 'BUF2'
                if dims == {1}:
                    return 'BUF1'
                return f'?BUF({unparse(shape)[:40]})'
            if name in ('array', 'asarray') and e.args:
                return self.role(e.args[0], f, depth + 1) if depth < 4 else f'?{t}'
            if name == 'get_value' and 'missing_data' in t:
                return 'MISSING'
            return f'?{t[:50]}'
        if isinstance(e, ast.ListComp) and isinstance(e.elt, ast.Call) and call_name(e.elt) == 'get_signature':
            it = unparse(e.generators[0].iter)
            if 'formulas' in it and it.endswith('.values()') and not e.generators[0].ifs:
                return 'SIGS'
            return f'?SIGS({it})'
        if isinstance(e, ast.Attribute):
            if t.endswith('free_betas_values'):
                return 'FREE'
            if t.endswith('fixed_betas_values'):
                return 'FIXED'
            if t.endswith('database.data'):
                return 'DATA'
            if t.endswith('.fullData'):
                return 'DATA_AS_GIVEN_TO_THE_CONSTRUCTOR'  # not kept in step with .data (panel sorting rebinds .data)
            if t.endswith('.individualMap'):
                return 'MAP'
            if t.endswith('.theDraws'):
                return 'DRAWS'
            if t == 'self.number_of_threads':
                return 'THREADS'
            if t.endswith('.missingData'):
                return 'MISSING'
            if isinstance(e.value, ast.Name) and e.value.id == 'self' and depth < 4:
                owner = f
                while owner.cls is None and owner.parent is not None:
                    owner = owner.parent
                vals = self.attr_values(owner.cls, e.attr)
                if any(isinstance(x, ast.Call) and dotted(x.func) in ('np.empty', 'np.zeros', 'numpy.empty', 'numpy.zeros') for _g, v in vals for x in ast.walk(v)):
                    return 'BUFFER_KEPT_ON_THE_OBJECT'  # allocated once and reused: what was returned by an earlier call is overwritten by the next one
                rs = {self.role(v, g, depth + 1) for g, v in vals}
                if len(rs) == 1:
                    return rs.pop()
                if rs:
                    parts = set()
                    for r_ in rs:
                        parts |= set(r_[6:-1].split('|')) if r_.startswith('MIXED(') else {r_}
                    return 'MIXED(' + '|'.join(sorted(parts)) + ')'
        return f'?{t[:50]}'


def positional_args(fn: ast.AST, call: ast.Call) -> tuple[list[ast.expr], bool]:
    """(the positional arguments of the call in the order the callee receives them, complete): `*t` where t is a tuple / list written out (in place, or
    a local bound once to one and not changed in place) is its elements; complete is False when some other `*` stands among the arguments: what comes
    after it lands in slots the rule cannot number, and the list stops there"""
    from .core import _single_definitions

    out: list[ast.expr] = []
    for a in call.args:
        if not isinstance(a, ast.Starred):
            out.append(a)
            continue
        v = a.value
        if isinstance(v, ast.Name):
            v = _single_definitions(fn).get(v.id)  # (the statement's own nodes: their place in the function is known)
        if isinstance(v, (ast.Tuple, ast.List)) and not any(isinstance(x, ast.Starred) for x in v.elts):
            out.extend(v.elts)
            continue
        return out, False
    return out, True


def _stmt_of(fn: ast.AST, node: ast.AST) -> ast.stmt | None:
    """the innermost statement of fn that holds node"""
    best = None
    for st in walk_no_nested(fn):
        if isinstance(st, ast.stmt) and st is not fn and any(x is node for x in ast.walk(st)):
            if best is None or any(x is st for x in ast.walk(best)):
                best = st
    return best


def engine_receivers(prog: Program) -> list[tuple[FuncInfo, str, str]]:
    """(function, receiver text, engine class) for every object created from the engine"""
    out = []
    for f in prog.all_functions():
        for n in walk_no_nested(f.node):
            if isinstance(n, ast.Assign) and isinstance(n.value, ast.Call):
                cn = call_name(n.value)
                if cn in ENGINE_API:
                    out.append((f, unparse(n.targets[0]), cn))
    return out


def ecc(ctx: Ctx, rule: str, only_class: str | None = None, methods: set[str] | None = None) -> int:
    """Engine-call contract: every argument of every call on an engine object has the role the reader expects."""
    prog = ctx.prog
    check_reader_table(ctx, rule)
    rf = RoleFinder(prog)
    recv = engine_receivers(prog)
    if not recv:
        raise AnalysisError(f'{rule}: no object created from cythonbiogeme found')
    n = 0
    for f0, rtext, ecls in recv:
        if only_class and ecls != only_class:
            continue
        # self.theC is used by every method of the class; a local only by its function
        scope = [f0]
        if rtext.startswith('self.') and f0.cls is not None:
            # (a helper that is new and whose calls were all expanded in place is examined through its callers: sa/normal.py)
            scope = [g for g in f0.cls.methods.values() if not getattr(g.node, '_verif_transparent', False)]
            # (the closures of these methods talk to the same engine object)
            def _top(h):
                while h.parent is not None:
                    h = h.parent
                return h
            scope += [h for h in f0.module.all_functions if h.parent is not None and any(_top(h) is g for g in scope)]
        for g in scope:
            for c in walk_no_nested(g.node):
                if not (isinstance(c, ast.Call) and isinstance(c.func, ast.Attribute) and unparse(c.func.value) == rtext):
                    continue
                m = c.func.attr
                if methods is not None and m not in methods:
                    continue
                construct = f'{g.qualname}:{rtext}.{m}'
                if m not in ENGINE_API[ecls]:
                    ctx.add(rule, construct, False, (g.file, c.lineno), f'{ecls} has no method {m}', m)
                    continue
                params = ENGINE_API[ecls][m]
                bound: list[tuple[str, ast.expr]] = []
                pos, whole = positional_args(g.node, c)
                for i, a in enumerate(pos):
                    if i < len(params):
                        bound.append((params[i], a))
                    else:
                        ctx.add(rule, construct, False, (g.file, c.lineno), f'too many arguments for {m}', unparse(c))
                if not whole:
                    # a `*` the rule cannot read: the slots after it are not numbered
                    n += 1
                    ctx.add(rule, f'{construct}(*)', None, (g.file, c.lineno), f'{m}(...) is called with a starred argument the rule cannot read ({unparse(c)[:80]}): which slot the arguments after it land in is not decided', unparse(c))
                for k in c.keywords:
                    if k.arg is None:
                        n += 1
                        ctx.add(rule, f'{construct}(**)', None, (g.file, c.lineno), f'{m}(...) is called with `**{unparse(k.value)[:40]}`: the slots it fills are not decided', unparse(c))
                    elif k.arg in params:
                        bound.append((k.arg, k.value))
                    else:
                        ctx.add(rule, construct, False, (g.file, c.lineno), f'{m} has no parameter {k.arg}', unparse(c))
                for p, a in bound:
                    role = rf.role(a, g)
                    want = ROLE_OF_PARAM.get(p, set())
                    if role == 'LIT:None' and (ecls, m, p) in ENGINE_DEFAULT_NONE:
                        # None where the engine's own default is None: the argument is not given.  Whether leaving it out is right there is the
                        # business of the test the call stands under, which the rule reads only in its plain form
                        under = RoleFinder._branches(g.node).get(id(_stmt_of(g.node, c)), ())
                        absent = any((unparse(i_.test), o_) in ((f'self.{q_} is None', True), (f'self.{q_} is not None', False), (f'not self.{q_} is None', False)) for i_, o_ in under for q_ in ('weight',))
                        n += 1
                        ctx.add(rule, f'{construct}({p})', True if absent else None, (g.file, c.lineno),
                                f'{m}({p}=None): not given (the default of the engine)' + ('' if absent else '; the call does not stand under a test that says that there is no such formula: not decided'), detail=f'{p}<-{role}')
                        continue
                    parts = role[6:-1].split('|') if role.startswith('MIXED(') else [role]
                    ok = all(r_ in want for r_ in parts)
                    # what the rule cannot tell is not an accusation: an expression without a role; a parameter that is not one
                    # of the flags the slots are described by (what it stands for is decided by the callers); several origins
                    # (branches the rule does not correlate) of which some have the right role
                    known = not any(r_.startswith('?') or (r_.startswith('PARAM:') and r_ not in PARAM_ROLES) for r_ in parts)
                    if known and not ok and any(r_ in want for r_ in parts):
                        known = False
                    n += 1
                    ctx.add(rule, f'{construct}({p})', ok if (ok or known) else None, (g.file, c.lineno),
                            f'{m}({p}=...) receives {unparse(a)[:60]} [{role}]' + ('' if ok else (f'; the engine reads this slot as {sorted(want)}' if known else ': the role of this expression is not recognised')),
                            detail=f'{p}<-{role}', positive=known and not ok)
    return n


# --------------------------------------------------------------------------

FLAGS = ('gradient', 'hessian', 'bhhh', 'aggregation', 'scaled', 'prepare_ids', 'named_results', 'number_of_draws', 'database', 'betas', 'batch')


def _strip(n: str) -> str:
    return n[len('calculate_') :] if n.startswith('calculate_') else n


def fwd(ctx: Ctx, rule: str) -> int:
    """flag forwarding: a caller's flag parameter handed over by keyword (or by position to a
    resolved callee) lands in the same-named parameter"""
    prog = ctx.prog
    n = 0
    for f in prog.all_functions():
        own = set()
        p = f
        while p is not None:
            own |= set(p.params())
            p = p.parent
        flags = {x for x in own if _strip(x) in FLAGS}
        if not flags:
            continue
        for c in walk_no_nested(f.node):
            if not isinstance(c, ast.Call):
                continue
            for k in c.keywords:
                if k.arg is None or not isinstance(k.value, ast.Name) or k.value.id not in flags:
                    continue
                if _strip(k.arg) not in FLAGS:
                    continue
                ok = _strip(k.arg) == _strip(k.value.id)
                n += 1
                ctx.add(rule, f'{f.qualname}:{call_name(c)}({k.arg}=)', ok, (f.file, c.lineno),
                        f'{call_name(c)}({k.arg}={k.value.id})' + ('' if ok else f': the flag {k.value.id} of the caller lands in {k.arg}'),
                        detail=f'{k.arg}={k.value.id}')
            # positional hand-over to a resolved callee
            pos_args, _whole = positional_args(f.node, c)  # (`*t` with t written out is its elements; the list stops at a `*` the rule cannot read)
            if any(isinstance(a, ast.Name) and a.id in flags for a in pos_args):
                tg = prog.resolve_call(f, c)
                if len(tg) >= 1:
                    g = tg[0]
                    ps = g.positional_params()
                    if g.cls is not None and 'staticmethod' not in g.decorators() and not (isinstance(c.func, ast.Attribute) and dotted(c.func.value) and prog.resolve_expr(f.module, c.func.value) and prog.resolve_expr(f.module, c.func.value)[0] == 'class'):
                        ps = ps[1:]
                    elif g.cls is not None and 'staticmethod' not in g.decorators():
                        ps = ps  # Cls.method(self, ...) called explicitly
                    for i, a in enumerate(pos_args):
                        if isinstance(a, ast.Name) and a.id in flags and i < len(ps) and _strip(ps[i]) in FLAGS:
                            ok = _strip(ps[i]) == _strip(a.id)
                            n += 1
                            ctx.add(rule, f'{f.qualname}:{call_name(c)}(#{i})', ok, (f.file, c.lineno),
                                    f'{call_name(c)}(..{a.id}..) binds parameter {ps[i]}' + ('' if ok else ' - a different flag'),
                                    detail=f'{ps[i]}={a.id}')
    return n


# --------------------------------------------------------------------------
# ORD - canonical parameter order

NAMES_RE = re.compile(r'^(?P<recv>.*?)\.?(?P<kind>free|fixed)_betas\.names$')
EXPR_RE = re.compile(r'(?P<recv>[\w.]*?)\.?(?P<kind>free|fixed)_betas\.expressions')


def _own_property(cls: ClassInfo | None, attr: str) -> ast.expr | None:
    """the expression a read-only property of the class stands for, when its body is a single `return <expr>`"""
    g = cls.resolve(attr) if cls is not None else None
    if g is None or 'property' not in g.decorators():
        return None
    body = g.body
    if len(body) == 1 and isinstance(body[0], ast.Return) and body[0].value is not None:
        return body[0].value
    return None


def _resolve(f: FuncInfo, e: ast.expr) -> ast.expr:
    """the expression with the single-definition locals of the function replaced by their definition and the own
    single-return properties of the class (`self.free_beta_names`) replaced by what they return"""
    import copy

    from .core import inline_locals

    owner = f
    while owner.cls is None and owner.parent is not None:
        owner = owner.parent
    cls = owner.cls

    class Props(ast.NodeTransformer):
        def __init__(self, d):
            self.d = d

        def visit_Attribute(self, node):
            if isinstance(node.value, ast.Name) and node.value.id == 'self' and isinstance(node.ctx, ast.Load) and self.d > 0:
                v = _own_property(cls, node.attr)
                if v is not None:
                    return Props(self.d - 1).visit(copy.deepcopy(v))
            return self.generic_visit(node)

    try:
        e = inline_locals(f.node, e)
    except Exception:  # noqa
        e = copy.deepcopy(e)
    return ast.fix_missing_locations(Props(3).visit(e))


_TABLE_RE = re.compile(r'^(?P<recv>.*?)\.?(?P<kind>free|fixed)_betas\.expressions$')


def _order_of(e: ast.expr) -> tuple[str, str, str] | None:
    """In which order a (resolved) sequence of parameter names/objects runs, when the rule can tell:
    ('names', receiver, kind): the canonical order - <receiver>.<kind>_betas.names, or sorted(<the per-kind dictionary>);
    ('dict', receiver, kind): the order of the per-kind dictionary (appearance in the formula).  None: unknown."""
    while isinstance(e, ast.Call) and isinstance(e.func, ast.Name) and e.func.id in ('list', 'tuple') and len(e.args) == 1 and not e.keywords:
        e = e.args[0]
    m = NAMES_RE.match(unparse(e))
    if m:
        return 'names', m.group('recv'), m.group('kind')

    def table(x):
        if isinstance(x, ast.Call) and isinstance(x.func, ast.Attribute) and x.func.attr in ('keys', 'values', 'items') and not x.args and not x.keywords:
            x = x.func.value
        return _TABLE_RE.match(unparse(x))

    if isinstance(e, ast.Call) and isinstance(e.func, ast.Name) and e.func.id == 'sorted' and len(e.args) == 1 and not e.keywords:
        a = e.args[0]
        if not (isinstance(a, ast.Call) and isinstance(a.func, ast.Attribute) and a.func.attr in ('values', 'items')):
            m = table(a)
            if m:
                return 'names', m.group('recv'), m.group('kind')
        return None
    m = table(e)
    if m:
        return 'dict', m.group('recv'), m.group('kind')
    return None


#: consumers for which the order of what they are given does not matter (a dictionary keyed by name is not positional)
ORDER_FREE = {'dict', 'set', 'frozenset', 'sorted', 'any', 'all', 'len', 'sum', 'min', 'max', 'Counter'}


_TABLE_ITER_RE = re.compile(r'^(?P<table>[\w.]*?\.?(free|fixed)_betas\.expressions)(\.values\(\)|\.items\(\)|\.keys\(\))?$')


def _sequence_use(func: ast.AST, parents: dict, node: ast.AST) -> str:
    """how the sequence built at `node` (a comprehension over a table of parameters, or a loop over it appending to lists) is consumed:
    'free': without regard to its order: handed to dict/set/sorted/..., to <dict>.update, iterated by a dictionary comprehension (the result is keyed by
            what the elements carry), zipped with sequences built by going through the same table and then consumed so, or kept in a local that is
            sorted in place or only read in these ways;
    'positional': stored in an attribute, in an element of an attribute, or returned: a per-parameter vector whose k-th entry others read by position;
    'unknown': anything else (handed to a function the rule does not know, formatted in a message, ...)"""
    def built_over(name: str) -> str | None:
        """the table a local list was built by going through, entry by entry: `L = [.. for .. in T]` (no filter), or `L.append(..)` once per turn of `for .. in T`"""
        tables = set()
        for st in walk_no_nested(func):
            if isinstance(st, ast.Assign) and len(st.targets) == 1 and isinstance(st.targets[0], ast.Name) and st.targets[0].id == name:
                v = st.value
                if isinstance(v, ast.ListComp) and len(v.generators) == 1 and not v.generators[0].ifs:
                    m = _TABLE_ITER_RE.match(unparse(v.generators[0].iter))
                    tables.add(m.group('table') if m else None)
                elif isinstance(v, ast.List) and not v.elts:
                    continue
                else:
                    tables.add(None)
            elif isinstance(st, ast.For):
                app = [x for x_ in st.body for x in [x_.value if isinstance(x_, ast.Expr) else None] if isinstance(x, ast.Call) and isinstance(x.func, ast.Attribute)
                       and x.func.attr == 'append' and isinstance(x.func.value, ast.Name) and x.func.value.id == name]
                deeper = [x for x in ast.walk(st) if isinstance(x, ast.Attribute) and x.attr in ('append', 'extend', 'insert', 'remove', 'pop') and isinstance(x.value, ast.Name) and x.value.id == name]
                if not deeper:
                    continue
                m = _TABLE_ITER_RE.match(unparse(st.iter))
                tables.add(m.group('table') if (m and len(app) == 1 and len(deeper) == 1 and not st.orelse) else None)
        return tables.pop() if len(tables) == 1 else None

    def over_table(e: ast.expr) -> str | None:
        while isinstance(e, ast.Call) and isinstance(e.func, ast.Name) and e.func.id in ('list', 'tuple') and len(e.args) == 1 and not e.keywords:
            e = e.args[0]
        if isinstance(e, ast.Name):
            return built_over(e.id)
        if isinstance(e, ast.ListComp) and len(e.generators) == 1 and not e.generators[0].ifs:
            e = e.generators[0].iter
        m = _TABLE_ITER_RE.match(unparse(e))
        return m.group('table') if m else None

    def climb(x):
        """x, or the zip(...) it is an argument of when everything zipped was built by going through the same table (entry k of each belongs to the
        same parameter, whatever the order of the table)"""
        p = parents.get(id(x))
        if isinstance(p, ast.Call) and isinstance(p.func, ast.Name) and p.func.id == 'zip' and not p.keywords and any(x is a_ for a_ in p.args):
            ts = {over_table(a_) for a_ in p.args}
            if len(ts) == 1 and None not in ts:
                return p
        return x

    def consumed(x):
        x = climb(x)
        p = parents.get(id(x))
        if isinstance(p, ast.comprehension) and p.iter is x:
            owner = parents.get(id(p))
            return isinstance(owner, (ast.DictComp, ast.SetComp)) and owner.generators[0] is p  # {key(e): value(e) for e in <sequence>}
        if not isinstance(p, ast.Call) or not any(x is a_ for a_ in p.args):
            return False
        if isinstance(p.func, ast.Name) and p.func.id in ORDER_FREE:
            return True
        # <dictionary or set>.update(<pairs or elements>) files what it is given under its key; dict.fromkeys(<names>) likewise
        if isinstance(p.func, ast.Attribute) and p.func.attr in ('update', 'fromkeys', 'union', 'intersection', 'difference', 'issubset', 'issuperset', 'isdisjoint', 'symmetric_difference',
                                                                  'difference_update', 'intersection_update'):
            return True
        return False

    def stored(x):
        """the sequence (through list / tuple / array wrappers) is stored on an object or returned"""
        p = parents.get(id(x))
        while isinstance(p, ast.Call) and call_name(p) in ('list', 'tuple', 'array', 'asarray') and p.args and p.args[0] is x:
            x, p = p, parents.get(id(p))
        if isinstance(p, ast.Return):
            return True
        if isinstance(p, (ast.Assign, ast.AnnAssign)) and p.value is x:
            ts = p.targets if isinstance(p, ast.Assign) else [p.target]
            return any(isinstance(t, (ast.Attribute, ast.Subscript)) for t in ts)
        return False

    locals_: list[str] = []
    if isinstance(node, ast.For):
        for b in node.body:
            for x in ast.walk(b):
                if isinstance(x, ast.Call) and isinstance(x.func, ast.Attribute) and x.func.attr == 'append' and isinstance(x.func.value, ast.Name) and x.func.value.id not in locals_:
                    locals_.append(x.func.value.id)
    else:
        if consumed(node):
            return 'free'
        if stored(node):
            return 'positional'
        p = parents.get(id(node))
        if isinstance(p, (ast.Assign, ast.AnnAssign)) and p.value is node:
            ts = p.targets if isinstance(p, ast.Assign) else [p.target]
            if len(ts) == 1 and isinstance(ts[0], ast.Name):
                locals_ = [ts[0].id]
    if not locals_:
        return 'unknown'
    verdicts = []
    for local in locals_:
        reads, in_place = [], False
        for x in walk_no_nested(func):
            if isinstance(x, ast.Name) and x.id == local and isinstance(x.ctx, ast.Load):
                p = parents.get(id(x))
                if isinstance(p, ast.Attribute) and p.attr == 'sort' and isinstance(parents.get(id(p)), ast.Call):
                    in_place = True
                if isinstance(p, ast.Call) and unparse(p.func) == 'list.sort' and p.args and p.args[0] is x:
                    in_place = True  # list.sort(x) is x.sort()
                if isinstance(p, ast.Attribute) and p.attr in ('append', 'extend'):
                    continue
                reads.append(x)
        if in_place or (reads and all(consumed(x) for x in reads)):
            verdicts.append('free')
        elif any(stored(x) for x in reads):
            verdicts.append('positional')
        else:
            verdicts.append('unknown')
    if 'positional' in verdicts:
        return 'positional'
    return 'free' if all(v == 'free' for v in verdicts) else 'unknown'


def _order_free_use(func: ast.AST, parents: dict, node: ast.AST) -> bool:
    return _sequence_use(func, parents, node) == 'free'


def _none_guard(test: ast.expr, v: str) -> str | None:
    """what a test says about the local v: 'given' (v is not None, in any spelling), 'absent' (v is None), 'truthy' / 'falsy'
    (a truthiness test or a comparison with 0: a given 0.0 is taken for absent), None when the rule cannot classify it"""
    def isv(e):
        return isinstance(e, ast.Name) and e.id == v

    def isnone(e):
        return isinstance(e, ast.Constant) and e.value is None

    def iszero(e):
        return isinstance(e, ast.Constant) and isinstance(e.value, (int, float)) and not isinstance(e.value, bool) and e.value == 0

    flip = {'given': 'absent', 'absent': 'given', 'truthy': 'falsy', 'falsy': 'truthy'}
    if isinstance(test, ast.UnaryOp) and isinstance(test.op, ast.Not):
        r = _none_guard(test.operand, v)
        return flip.get(r)
    if isv(test):
        return 'truthy'
    if isinstance(test, ast.Call) and isinstance(test.func, ast.Name) and not test.keywords:
        if test.func.id == 'bool' and len(test.args) == 1 and isv(test.args[0]):
            return 'truthy'
        if test.func.id == 'isinstance' and len(test.args) == 2 and isv(test.args[0]) and unparse(test.args[1]) in ('type(None)', 'NoneType', 'types.NoneType'):
            return 'absent'
    if isinstance(test, ast.Compare) and len(test.ops) == 1:
        l, r, op = test.left, test.comparators[0], test.ops[0]
        if (isv(l) and isnone(r)) or (isnone(l) and isv(r)):
            if isinstance(op, (ast.IsNot, ast.NotEq)):
                return 'given'
            if isinstance(op, (ast.Is, ast.Eq)):
                return 'absent'
            return None
        if (isv(l) and iszero(r)) or (iszero(l) and isv(r)):
            return 'falsy' if isinstance(op, (ast.Eq, ast.Is)) else 'truthy'
    return None


def _enclosing_loops(tree: ast.AST):
    """yield (node, [(target names, iter expr)]) for every node with the loops/comprehensions around it"""
    def rec(n, stack):
        yield n, stack
        if isinstance(n, (ast.ListComp, ast.SetComp, ast.GeneratorExp, ast.DictComp)):
            st = list(stack)
            for g in n.generators:
                st = st + [({x.id for x in ast.walk(g.target) if isinstance(x, ast.Name)}, g.iter, n)]
            for ch in ast.iter_child_nodes(n):
                yield from rec(ch, st)
            return
        if isinstance(n, ast.For):
            st = stack + [({x.id for x in ast.walk(n.target) if isinstance(x, ast.Name)}, n.iter, n)]
            yield from rec(n.iter, stack)
            for ch in n.body + n.orelse:
                yield from rec(ch, st)
            return
        for ch in ast.iter_child_nodes(n):
            yield from rec(ch, stack)

    yield from rec(tree, [])


def _vector_update_contradiction(f: FuncInfo, vec: str = 'self.id_manager.free_betas_values') -> tuple[ast.AST, str] | None:
    """The single loop of the function that writes the vector of free parameters entry by entry, `for I, E in enumerate(SEQ): ... VEC[I] = W`
    (VEC the vector or a local that is bound once to it; the write directly in the loop or under one `if` of the loop), decided from its
    resolved structure.  Returns (node, what is wrong) when the loop contradicts one of two necessary conditions:
      order: entry I of the vector belongs to the I-th *sorted name*; a value computed from the element E may be written at position I only
             when SEQ runs in that order (free_betas.names / sorted(table)), not in the order of a dictionary (the table of expressions:
             order of appearance in the formula; the dictionary of the caller: order of its keys) nor over the fixed parameters;
      zero:  whether a value is given is a question of `is not None`; a truth test of the given value (`if V:`, `V or X`, `V if V else X`)
             takes a given 0.0 for "not given".
    None when there is no such contradiction or the shape is not one the rule understands (never an accusation on an unknown shape)."""
    import copy

    from .normal import as_loop

    class Expand(ast.NodeTransformer):
        """the normal form `VEC.update({I: W for I, E in SEQ if T})` of a loop of item assignments, read as that loop again"""
        def visit_Expr(self, node):
            v = node.value
            if isinstance(v, ast.Call) and isinstance(v.func, ast.Attribute) and v.func.attr == 'update' and unparse(v.func.value) == vec:
                lp_ = as_loop(node)
                if lp_ is not None:
                    return lp_
            return node

        def visit_If(self, node):
            # `else: VEC[I] = VEC[I]` (what `VEC[I] = V if T else VEC[I]` stands for) writes nothing
            self.generic_visit(node)

            def noop(st):
                return (isinstance(st, ast.Assign) and len(st.targets) == 1 and isinstance(st.targets[0], ast.Subscript) and unparse(st.targets[0].value) == vec
                        and isinstance(st.targets[0].slice, ast.Name) and unparse(st.targets[0]) == unparse(st.value))

            body, orelse = [s for s in node.body if not noop(s)], [s for s in node.orelse if not noop(s)]
            if len(body) + len(orelse) == len(node.body) + len(node.orelse):
                return node
            if not body and not orelse:
                return ast.copy_location(ast.Pass(), node)
            if not body:
                return ast.fix_missing_locations(ast.copy_location(ast.If(test=ast.UnaryOp(op=ast.Not(), operand=node.test), body=orelse, orelse=[]), node))
            return ast.copy_location(ast.If(test=node.test, body=body, orelse=orelse), node)

    func = Expand().visit(copy.deepcopy(f.node))
    stores: dict[str, int] = {}
    for x in ast.walk(func):
        if isinstance(x, ast.Name) and isinstance(x.ctx, (ast.Store, ast.Del)):
            stores[x.id] = stores.get(x.id, 0) + 1
    params = set(f.params())
    aliases = {st.targets[0].id for st in walk_no_nested(func)
               if isinstance(st, ast.Assign) and len(st.targets) == 1 and isinstance(st.targets[0], ast.Name) and unparse(st.value) == vec
               and stores.get(st.targets[0].id) == 1 and st.targets[0].id not in params}

    def is_vec(e):
        return unparse(e) == vec or (isinstance(e, ast.Name) and e.id in aliases)

    def vec_targets(st):
        ts = st.targets if isinstance(st, ast.Assign) else [st.target] if isinstance(st, (ast.AugAssign, ast.AnnAssign)) else []
        return [t for t_ in ts for t in ([t_] if not isinstance(t_, (ast.Tuple, ast.List)) else t_.elts) if isinstance(t, ast.Subscript) and is_vec(t.value)]

    writes = [st for st in ast.walk(func) if vec_targets(st)]
    loops = [lp for lp in walk_no_nested(func) if isinstance(lp, ast.For) and any(st in writes for st in ast.walk(lp))]
    if len(writes) != 1 or len(loops) != 1:
        return None
    w, lp = writes[0], loops[0]
    # any other way of changing the vector (a call of one of its methods, it is handed to a function, rebound) makes the loop only part of the story
    for x in ast.walk(func):
        if (isinstance(x, ast.Attribute) and isinstance(x.ctx, ast.Store) and unparse(x) == vec) or (isinstance(x, ast.Call) and isinstance(x.func, ast.Attribute) and is_vec(x.func.value)):
            return None
    if not (isinstance(w, ast.Assign) and len(w.targets) == 1 and isinstance(w.targets[0], ast.Subscript)) or lp.orelse:
        return None
    it = lp.iter
    if not (isinstance(it, ast.Call) and isinstance(it.func, ast.Name) and it.func.id == 'enumerate' and len(it.args) == 1 and not it.keywords):
        return None
    if not (isinstance(lp.target, ast.Tuple) and len(lp.target.elts) == 2 and isinstance(lp.target.elts[0], ast.Name)):
        return None
    counter = lp.target.elts[0].id
    elem = {x.id for x in ast.walk(lp.target.elts[1]) if isinstance(x, ast.Name)}
    if not elem or counter in elem or any(stores.get(n) != 1 for n in elem | {counter}) or (elem | {counter}) & params:
        return None
    idx = w.targets[0].slice
    if not (isinstance(idx, ast.Name) and idx.id == counter):
        return None
    # where the write stands: directly in the loop, or under one `if` (no else) of the loop
    test = None
    if any(st is w for st in lp.body):
        pass
    else:
        holder = [st for st in lp.body if isinstance(st, ast.If) and any(s is w for s in st.body)]
        if len(holder) != 1 or holder[0].orelse:
            return None
        test = holder[0].test
    # locals of the loop body that are bound once, by a plain assignment directly in the body
    local_defs = {st.targets[0].id: st.value for st in lp.body
                  if isinstance(st, ast.Assign) and len(st.targets) == 1 and isinstance(st.targets[0], ast.Name) and stores.get(st.targets[0].id) == 1 and st.targets[0].id not in params}
    where = (f.file, w.lineno)
    wtxt = unparse(w)

    # ---- order
    tainted = set(elem)
    grew = True
    while grew:
        grew = False
        for k, v in local_defs.items():
            if k not in tainted and any(isinstance(x, ast.Name) and x.id in tainted for x in ast.walk(v)):
                tainted.add(k)
                grew = True
    from_elem = any(isinstance(x, ast.Name) and x.id in tainted for x in ast.walk(w.value))
    seq = _resolve(f, it.args[0])
    od = _order_of(seq)
    given = seq
    while (isinstance(given, ast.Call) and not given.keywords and ((isinstance(given.func, ast.Name) and given.func.id in ('list', 'tuple') and len(given.args) == 1)
                                                                or (isinstance(given.func, ast.Attribute) and given.func.attr in ('keys', 'values', 'items') and not given.args))):
        given = given.args[0] if given.args else given.func.value
    pos = f.positional_params()
    if from_elem:
        sq = unparse(it.args[0])
        if od is not None and od[0] == 'dict':
            return where, (f'`{wtxt}`: entry {counter} of free_betas_values is given a value taken from the {counter}-th element of {sq}, a dictionary that runs in the order in which the '
                           f'parameters appear in the formulas; the vector is indexed by the sorted names self.id_manager.free_betas.names, so the values are permuted among the parameters')
        if od is not None and od[2] != 'free':
            return where, (f'`{wtxt}`: entry {counter} of free_betas_values is given a value taken from the {counter}-th element of {sq}, which lists the {od[2]} parameters; '
                           f'the vector is indexed by the sorted names of the free parameters self.id_manager.free_betas.names')
        if isinstance(given, ast.Name) and given.id in params and given.id in pos[1:] and stores.get(given.id) is None:
            return where, (f'`{wtxt}`: entry {counter} of free_betas_values is given a value taken from the {counter}-th entry of the dictionary handed in by the caller ({sq}); '
                           f'the vector is indexed by the sorted names self.id_manager.free_betas.names')

    # ---- zero
    def is_lookup(e):
        """<parameter of the function>.get(<name>) / .get(<name>, None): the value the caller gives for a name, None when it gives none"""
        return (isinstance(e, ast.Call) and isinstance(e.func, ast.Attribute) and e.func.attr == 'get' and isinstance(e.func.value, ast.Name) and e.func.value.id in pos[1:]
                and stores.get(e.func.value.id) is None and not e.keywords
                and (len(e.args) == 1 or (len(e.args) == 2 and isinstance(e.args[1], ast.Constant) and e.args[1].value is None)))

    given_names = {k for k, v in local_defs.items() if is_lookup(v)}

    def is_given(e):
        return is_lookup(e) or (isinstance(e, ast.Name) and e.id in given_names)

    def truth(t, e):
        """what test t says about the given value e (a local, or the lookup itself spelt again)"""
        if isinstance(e, ast.Name):
            return _none_guard(t, e.id)
        if unparse(t) == unparse(e):
            return 'truthy'
        if isinstance(t, ast.UnaryOp) and isinstance(t.op, ast.Not) and unparse(t.operand) == unparse(e):
            return 'falsy'
        return None

    val = w.value
    if isinstance(val, ast.Name) and val.id in local_defs and val.id not in given_names:
        val = local_defs[val.id]
    zero = 'a value 0.0 given for a parameter is not written to free_betas_values (the vector the optimiser starts from keeps the previous value); whether a value is given must be tested with `is not None`'
    if isinstance(val, ast.BoolOp) and isinstance(val.op, ast.Or) and is_given(val.values[0]):
        return where, f'`{wtxt}`: `{unparse(val)}` takes a given value for absent when it is falsy: {zero}'
    if isinstance(val, ast.IfExp):
        if (is_given(val.body) and truth(val.test, val.body) == 'truthy') or (is_given(val.orelse) and truth(val.test, val.orelse) == 'falsy'):
            return where, f'`{wtxt}`: the given value is kept only when `{unparse(val.test)}`, a truth test: {zero}'
    if test is not None and is_given(val) and truth(test, val) == 'truthy':
        return where, f'`{wtxt}` is executed only when `{unparse(test)}`, a truth test of the given value: {zero}'
    return None


def ord_pack(ctx: Ctx, rule: str) -> None:
    prog = ctx.prog
    # O1 / O2 over the whole package
    for f in prog.all_functions():
        if f.parent is not None:
            continue
        parents = {id(ch): pa for pa in ast.walk(f.node) for ch in ast.iter_child_nodes(pa)}
        for n, stack in _enclosing_loops(f.node):
            # O1: positional structure built from dict order of the per-kind table
            if isinstance(n, (ast.ListComp, ast.GeneratorExp)) or (isinstance(n, ast.For)):
                gens = n.generators if not isinstance(n, ast.For) else [n]
                for g in gens:
                    it = unparse(g.iter)
                    m = EXPR_RE.search(it)
                    if m and re.search(r'_betas\.expressions(\.values\(\)|\.items\(\)|\.keys\(\))?$', it):
                        positional = not isinstance(n, ast.For) or any(
                            isinstance(x, ast.Call) and isinstance(x.func, ast.Attribute) and x.func.attr == 'append' for b in n.body for x in ast.walk(b)
                        )
                        if not positional:
                            continue
                        use = _sequence_use(f.node, parents, n)
                        if use == 'free':
                            continue  # e.g. dict((name, value) for name, beta in <table>.items()): keyed by name
                        # a contradiction only when the sequence is kept as a per-parameter vector (stored on an object, returned); a sequence that
                        # goes where the rule does not follow it is not an accusation
                        ctx.add(rule, f'{f.qualname}:appearance-order', False if use == 'positional' else None, (f.file, n.lineno),
                                f'a positional sequence is built by iterating {it}: the order of a dictionary of parameters is their order of appearance in the formula, '
                                f'not the canonical (sorted) order of {m.group("kind")}_betas.names' + ('' if use == 'positional' else ' (where the sequence is used is not followed: not decided)'),
                                detail=it, positive=use == 'positional')
            # O2: table lookups by loop variable
            if isinstance(n, ast.Subscript):
                t = unparse(n.value)
                m = re.fullmatch(r'(?P<recv>.*?)\.?(?P<kind>free|fixed)_betas\.expressions', t)
                if m and isinstance(n.slice, ast.Name):
                    v = n.slice.id
                    src = next(((names, it, owner) for names, it, owner in reversed(stack) if v in names), None)
                    if src is None:
                        continue
                    itx = src[1]
                    if isinstance(itx, ast.Call) and call_name(itx) == 'enumerate' and itx.args:
                        itx = itx.args[0]
                    positional = isinstance(src[2], (ast.ListComp, ast.GeneratorExp, ast.For))
                    if not positional:
                        continue
                    if isinstance(src[2], ast.For):
                        # a loop builds a positional sequence when it appends / extends / yields; one that only files values under the name it
                        # goes through (`d[name] = ...`) and binds locals builds something keyed by name
                        # (an augmented assignment grows a sequence only when it adds a list: `d |= {name: v}`, a counter, a text do not)
                        grows = any((isinstance(x, ast.Attribute) and x.attr in ('append', 'extend', 'insert')) or isinstance(x, (ast.Yield, ast.YieldFrom))
                                    or (isinstance(x, ast.AugAssign) and isinstance(x.op, ast.Add) and isinstance(x.value, (ast.List, ast.Tuple, ast.ListComp)))
                                    for b_ in src[2].body for x in ast.walk(b_))
                        unread_aug = any(isinstance(x, ast.AugAssign) and not (isinstance(x.op, ast.Add) and isinstance(x.value, (ast.List, ast.Tuple, ast.ListComp))) for b_ in src[2].body for x in ast.walk(b_))
                        stores = [t_ for b_ in src[2].body for x in ast.walk(b_) if isinstance(x, (ast.Assign, ast.AnnAssign)) for t_ in (x.targets if isinstance(x, ast.Assign) else [x.target])]
                        keyed = all(isinstance(t_, ast.Name) or (isinstance(t_, ast.Subscript) and isinstance(t_.slice, ast.Name) and t_.slice.id in src[0]) for t_ in stores)
                        calls_out = any(isinstance(x, ast.Call) and not (isinstance(x.func, ast.Attribute) and x.func.attr in ('append', 'extend', 'insert')) and any(isinstance(y, ast.Name) and y.id == v for a_ in list(x.args) + [k_.value for k_ in x.keywords] for y in ast.walk(a_))
                                        for b_ in src[2].body for x in ast.walk(b_))
                        use = 'positional' if grows else ('free' if (keyed and stores and not calls_out and not unread_aug) else 'unknown')
                        if grows:
                            u2 = _sequence_use(f.node, parents, src[2])
                            use = u2 if u2 != 'unknown' else 'positional' if not [x for b_ in src[2].body for x in ast.walk(b_) if isinstance(x, ast.Attribute) and x.attr == 'append' and isinstance(x.value, ast.Name)] else 'unknown'
                    else:
                        use = _sequence_use(f.node, parents, src[2])
                    if use == 'free':
                        continue
                    # the sequence the loop variable ranges over, with locals and own properties of the class resolved
                    od = _order_of(_resolve(f, itx))
                    mr = re.fullmatch(r'(?P<recv>.*?)\.?(?P<kind>free|fixed)_betas\.expressions', unparse(_resolve(f, n.value))) or m
                    ok = od == ('names', mr.group('recv'), mr.group('kind')) or _order_of(itx) == ('names', m.group('recv'), m.group('kind'))
                    # a contradiction only when the order is known to be another one: the dictionary order, or the names of the
                    # other kind; a sequence the rule cannot classify is not an accusation
                    wrong = od is not None and (od[0] == 'dict' or od[2] != m.group('kind')) and use == 'positional'
                    ctx.add(rule, f'{f.qualname}:{m.group("kind")}_betas.expressions[{v}]', ok if (ok or wrong) else None, (f.file, n.lineno),
                            f'{t}[{v}] with {v} ranging over {unparse(src[1])}' + ('' if ok else f'; a per-parameter vector must follow {m.group("recv")}.{m.group("kind")}_betas.names' if wrong else
                                                                                    f': the order of this sequence is not recognised (expected {m.group("recv")}.{m.group("kind")}_betas.names)'),
                            detail=f'{t}[{v}] over {unparse(src[1])}', positive=wrong)

    from .pattern import body_is, find, find_expr, has, has_expr

    def comp_over(f: FuncInfo, target: str, names_text: str, elt_pat: str, what: str):
        """target = [<elt_pat with _X> for _X in <names_text>]"""
        construct = f'{f.qualname}:{target}'
        b = find(f.node, f'{target} = [{elt_pat} for _X in {names_text}]')
        ss = [n for n in walk_no_nested(f.node) if isinstance(n, (ast.Assign, ast.AnnAssign)) and any(unparse(t) == target for t in (n.targets if isinstance(n, ast.Assign) else [n.target])) and not (isinstance(n.value, ast.Constant) and n.value.value is None)]
        if not ss:
            raise AnalysisError(f'{rule}: {f.qualname} no longer assigns {target}')
        ok = b is not None and len(ss) == 1
        if ok:
            ctx.add(rule, construct, True, (f.file, ss[0].lineno), f'{target} = [{what} for each name of {names_text}]')
            return
        # the same list with holes: over which sequence it runs, and what stands for one name
        h = find(f.node, f'{target} = [__ELT for __VAR in __SEQ]') if len(ss) == 1 else None
        if h is not None:
            seq_node = h['__SEQ'][1]
            seq_txt = unparse(seq_node)
            elt = h['__ELT'][1]
            want = _order_of(ast.parse(names_text, mode='eval').body)
            od = _order_of(_resolve(f, seq_node))
            if od is not None and od == want:
                # the same order under another spelling (a cached local, sorted(<the dictionary>), an own property)
                if find(f.node, f'{target} = [{elt_pat} for _X in {seq_txt}]') is not None:
                    ctx.add(rule, construct, True, (f.file, ss[0].lineno), f'{target} = [{what} for each name of {names_text}]')
                    return
            elif od is not None and want is not None and (od[0] == 'dict' or od[2] != want[2]):
                # the order is known and is another one: the order of the dictionary, or the names of the other kind
                ctx.add(rule, construct, False, (f.file, ss[0].lineno), f'{target} is built by going through {seq_txt}; entry k must belong to the k-th name of {names_text} (the order that defines the ids the engine uses)', seq_txt, positive=True)
                return
            if isinstance(elt, ast.BoolOp) and isinstance(elt.op, ast.Or):
                ctx.add(rule, construct, False, (f.file, ss[0].lineno), f'the value of a name is chosen with `{unparse(elt)[:100]}`: a value that is given but falsy (0, 0.0) is replaced by the alternative', unparse(elt), positive=True)
                return
            whole = _resolve(f, ss[0].value)
            if any(isinstance(x, ast.Attribute) and isinstance(x.ctx, ast.Load) and unparse(x) == target for x in ast.walk(whole)):
                ctx.add(rule, construct, False, (f.file, ss[0].lineno), f'the new {target} is computed from the {target} it replaces: an entry the computation does not set anew keeps what an earlier call left there, '
                        f'not {what}', 'reads-itself', positive=True)
                return
        ctx.add(rule, construct, None, (f.file, ss[0].lineno), f'{target} = {unparse(ss[0].value)[:120]} is not in the expected form [{what} for each name of {names_text}]', detail=unparse(ss[0].value))

    prep = prog.func('expressions.idmanager', 'IdManager.prepare')
    comp_over(prep, 'self.bounds', 'self.free_betas.names', '(self.free_betas.expressions[_X].lb, self.free_betas.expressions[_X].ub)', '(lb, ub) of that parameter')
    comp_over(prep, 'self.free_betas_values', 'self.free_betas.names', 'self.free_betas.expressions[_X].initValue', 'initValue of that parameter')
    comp_over(prep, 'self.fixed_betas_values', 'self.fixed_betas.names', 'self.fixed_betas.expressions[_X].initValue', 'initValue of that parameter')
    gv = prog.func('expressions.base_expressions', 'Expression.get_value_and_derivatives')
    comp_over(gv, 'self.id_manager.free_betas_values', 'self.id_manager.free_betas.names',
              'betas[_X] if _X in betas else self.id_manager.free_betas.expressions[_X].initValue', 'betas[name] when given, else the initValue of the same name')
    # free-first numbering
    b = find(prep.node, """
_N = self.free_betas.names + self.fixed_betas.names + self.random_variables.names + self.draws.names + self.variables.names
___
_I = {_V: _K for _K, _V in enumerate(_N)}
___
self.elementary_expressions = ElementsTuple(expressions=None, indices=_I, names=_N)
""")
    ok = b is not None
    not_first = None
    if not ok:
        # any other order of the five lists that still starts with the free parameters is accepted
        for n in walk_no_nested(prep.node):
            if isinstance(n, ast.Assign) and isinstance(n.value, ast.BinOp):
                parts = [x.strip() for x in unparse(n.value).replace('\n', ' ').split('+')]
                if sorted(parts) == sorted(['self.free_betas.names', 'self.fixed_betas.names', 'self.random_variables.names', 'self.draws.names', 'self.variables.names']):
                    nm = unparse(n.targets[0])
                    numbered = has(prep.node, f'_I = {{_V: _K for _K, _V in enumerate({nm})}}\n___\nself.elementary_expressions = ElementsTuple(expressions=None, indices=_I, names={nm})')
                    if parts[0] == 'self.free_betas.names':
                        ok = numbered
                    elif numbered:
                        not_first = f'the global numbering enumerates {" + ".join(p_.split(".")[1] for p_ in parts)}: the free parameters do not come first, while the engine differentiates with respect to the literal ids 0..n-1'
    ctx.add(rule, 'IdManager.prepare:free-first', ok if (ok or not_first) else None, prep, not_first if not_first else 'global numbering = position in free + fixed + random variables + draws + variables, free parameters first (the engine differentiates w.r.t. literal ids 0..n-1)' if ok else 'the global numbering no longer enumerates a concatenation that starts with the free parameters', 'free-first', positive=bool(not_first))
    eni = prog.func('expressions.idmanager', 'expressions_names_indices')
    pn = eni.positional_params()[0]
    import copy

    def keys_of(e):
        """the dictionary whose keys e lists: list(d), d.keys(), list(d.keys()), [*d] -> d"""
        while True:
            if isinstance(e, ast.Call) and isinstance(e.func, ast.Name) and e.func.id in ('list', 'tuple') and len(e.args) == 1 and not e.keywords:
                e = e.args[0]
            elif isinstance(e, ast.Call) and isinstance(e.func, ast.Attribute) and e.func.attr == 'keys' and not e.args and not e.keywords:
                e = e.func.value
            elif isinstance(e, ast.List) and len(e.elts) == 1 and isinstance(e.elts[0], ast.Starred):
                e = e.elts[0].value
            else:
                return e

    def sorted_form(body):
        """`x = list(d)` followed by `x.sort()` is `x = sorted(d)`; sorted(list(d)) / sorted(d.keys()) is sorted(d)"""
        out = []
        for st in body:
            prev = out[-1] if out else None
            sorted_name = None
            if isinstance(st, ast.Expr) and isinstance(st.value, ast.Call) and isinstance(st.value.func, ast.Attribute) and st.value.func.attr == 'sort' and not st.value.keywords:
                if not st.value.args and isinstance(st.value.func.value, ast.Name):
                    sorted_name = st.value.func.value.id  # x.sort()
                elif unparse(st.value.func.value) == 'list' and len(st.value.args) == 1 and isinstance(st.value.args[0], ast.Name):
                    sorted_name = st.value.args[0].id  # list.sort(x)
            if (sorted_name is not None
                    and isinstance(prev, ast.Assign) and len(prev.targets) == 1 and isinstance(prev.targets[0], ast.Name) and prev.targets[0].id == sorted_name):
                new_ = copy.copy(prev)
                new_.value = ast.copy_location(ast.Call(func=ast.Name(id='sorted', ctx=ast.Load()), args=[keys_of(prev.value)], keywords=[]), prev.value)
                ast.fix_missing_locations(new_.value)
                out[-1] = new_
                continue
            if isinstance(st, ast.Assign) and isinstance(st.value, ast.Call) and isinstance(st.value.func, ast.Name) and st.value.func.id == 'sorted' and len(st.value.args) == 1 and not st.value.keywords:
                k = keys_of(st.value.args[0])
                if k is not st.value.args[0]:
                    new_ = copy.copy(st)
                    new_.value = ast.copy_location(ast.Call(func=st.value.func, args=[k], keywords=[]), st.value)
                    out.append(new_)
                    continue
            out.append(st)
        return out

    eni_body = sorted_form(eni.body)
    eni_node = copy.copy(eni.node)
    eni_node.body = eni_body
    ok = body_is(eni_body, f"""
_I = {{}}
_N = sorted({pn})
for _K, _V in enumerate(_N):
    _I[_V] = _K
return ElementsTuple(expressions={pn}, indices=_I, names=_N)
""") is not None or body_is(eni_body, f"""
_N = sorted({pn})
_I = {{_V: _K for _K, _V in enumerate(_N)}}
return ElementsTuple(expressions={pn}, indices=_I, names=_N)
""") is not None
    unsorted = None
    if not ok:
        hb = find(eni_node, f'_N = __SRC\n___\nreturn ElementsTuple(expressions={pn}, indices=__IDX, names=_N)')
        if hb is not None:
            srcx = keys_of(_resolve(eni, hb['__SRC'][1]))
            if isinstance(srcx, ast.ListComp) and len(srcx.generators) == 1 and not srcx.generators[0].ifs and isinstance(srcx.elt, ast.Name) and unparse(srcx.elt) == unparse(srcx.generators[0].target):
                srcx = keys_of(srcx.generators[0].iter)
            # (x.sort(), list.sort(x), sorted(...) anywhere, a sort through a function of another module such as np.sort / heapq)
            sorted_later = any(isinstance(x, ast.Attribute) and x.attr in ('sort', 'sorted', 'argsort', 'nsmallest', 'nlargest', 'merge') for x in ast.walk(eni.node)) or any(
                isinstance(x, ast.Name) and x.id in ('sorted', 'sort', 'nsmallest', 'nlargest') for x in ast.walk(eni.node))
            # a contradiction only when the names are known to be the keys of the dictionary as they come and nothing sorts them
            if isinstance(srcx, ast.Name) and srcx.id == pn and srcx is not hb['__SRC'][1] and not sorted_later:
                unsorted = f'the names are {unparse(hb["__SRC"][1])}, not sorted({pn}): the canonical order of the parameters then depends on the order in which they appear in the formula'
    ctx.add(rule, 'expressions_names_indices', ok if (ok or unsorted) else None, eni, unsorted if unsorted else 'names are sorted and indices[name] is the position in that sorted list' if ok else 'the canonical order is no longer the sorted list of names with indices = enumerate(names)', 'sorted', positive=bool(unsorted))
    # BIOGEME sites
    B = prog.cls('biogeme', 'BIOGEME')
    f = B.methods['change_init_values']
    ok = has(f.node, """
for _I, _N in enumerate(self.id_manager.free_betas.names):
    _V = betas.get(_N)
    if _V is not None:
        self.id_manager.free_betas_values[_I] = _V
""")
    loops = [n for n in walk_no_nested(f.node) if isinstance(n, ast.For) and 'free_betas_values' in unparse(n)]
    if ok:
        ctx.add(rule, 'BIOGEME.change_init_values', True, f, 'free_betas_values[i] = betas[name] for (i, name) in enumerate(free_betas.names)')
    else:
        # the same update with holes: which sequence numbers the entries, and which values are written
        h = find(f.node, """
for _I, _N in enumerate(__SEQ):
    _V = betas.get(_N)
    if __TEST:
        self.id_manager.free_betas_values[_I] = _V
""")
        why = None
        same = False
        if h is not None:
            sq, test = unparse(h['__SEQ'][1]), unparse(h['__TEST'][1])
            # the sequence with locals and own properties of the class resolved; the guard in any spelling of `is not None`
            od = _order_of(_resolve(f, h['__SEQ'][1]))
            guard = _none_guard(h['__TEST'][1], h['_V'])
            given = _resolve(f, h['__SEQ'][1])
            while (isinstance(given, ast.Call) and not given.keywords and ((isinstance(given.func, ast.Name) and given.func.id in ('list', 'tuple') and len(given.args) == 1)
                                                                        or (isinstance(given.func, ast.Attribute) and given.func.attr == 'keys' and not given.args))):
                given = given.args[0] if given.args else given.func.value
            if isinstance(given, ast.Name) and given.id == 'betas' and 'betas' in f.params():
                # the positions are those of the keys of the dictionary the caller gives, which the loop also looks the values up in
                why = f'entry i of free_betas_values is given the value of the i-th key of the dictionary handed in by the caller ({sq}); the vector is indexed by the sorted names self.id_manager.free_betas.names'
            elif od is not None and (od[0] == 'dict' or od[2] != 'free'):
                why = f'entry i of free_betas_values is given the value of the i-th element of {sq}; the vector is indexed by the sorted names self.id_manager.free_betas.names'
            elif guard in ('truthy',):
                why = f'a value is written only when `{test}`: the guard for "no value given" is `is not None`, a given value of 0.0 is otherwise skipped'
            same = od == ('names', 'self.id_manager', 'free') and guard == 'given'
        if same:
            ctx.add(rule, 'BIOGEME.change_init_values', True, f, 'free_betas_values[i] = betas[name] for (i, name) in enumerate(free_betas.names)')
        else:
            at = f
            if why is None:
                # any other spelling of the loop: decided from its resolved structure (which sequence numbers the entries, what is written, under which test)
                found = _vector_update_contradiction(f)
                if found is not None:
                    at, why = found
            ctx.add(rule, 'BIOGEME.change_init_values', False if why else None, at, why or f'update of free_betas_values is not in the expected form: {unparse(loops[0])[:150] if loops else "missing"}',
                    (unparse(loops[0]) if loops else 'missing'), positive=bool(why))
    f = B.methods['beta_values_dict_to_list']
    ok = has(f.node, """
_L = []
for _X in self.id_manager.free_betas.names:
    _V = beta_dict.get(_X)
    if _V is None:
        ___
        raise BiogemeError(__MSG)
    _L.append(_V)
return _L
""")
    ctx.add(rule, 'BIOGEME.beta_values_dict_to_list', ok, f, 'the list follows free_betas.names, element = beta_dict[name], missing name refused' if ok else 'the conversion of a dictionary of values into a vector no longer follows free_betas.names name by name', 'dict_to_list')
    f = B.methods['calculate_likelihood_and_derivatives']
    ok = bool(find_expr(f.node, 'self.id_manager.free_betas.names[_I]')) and has(f.node, 'for _I, _V in enumerate(x):\n    print(f"{self.id_manager.free_betas.names[_I]} = {_V}", file=_F)')
    ctx.add(rule, 'BIOGEME.calculate_likelihood_and_derivatives:iter-lines', ok, f, 'line i of the iteration file carries free_betas.names[i] and x[i]' if ok else 'the lines of the iteration file no longer pair free_betas.names[i] with x[i]', 'iter')
    f = B.methods['report_array']
    ok = has(f.node, """
_N = self.free_beta_names
_R = ', '.join([f'{_A}={_B:.2g}' for _A, _B in zip(_N[:_L], array[:_L])])
""", ) or has(f.node, "_N = self.free_beta_names\n___\nreturn ', '.join([f'{_A}={_B:.2g}' for _A, _B in zip(_N[:_L], array[:_L])])")
    if not ok:
        ok = bool(find_expr(f.node, 'zip(_N[:_L], array[:_L])')) and has(f.node, '_N = self.free_beta_names')
    ctx.add(rule, 'BIOGEME.report_array', ok, f, 'names and values are paired position by position from free_beta_names' if ok else 'report_array pairing changed', 'report_array')
    f = B.methods['free_beta_names']
    ok = body_is(f.body, 'return self.id_manager.free_betas.names') is not None
    ctx.add(rule, 'BIOGEME.free_beta_names', ok, f, 'free_beta_names is free_betas.names' if ok else unparse(f.body[-1]), unparse(f.body[-1]))
    f = B.methods['get_bounds_on_beta']
    pm = f.positional_params()[1]
    ok = has(f.node, f'_I = self.id_manager.free_betas.indices.get({pm})\n___\nreturn self.id_manager.bounds[_I]') or has(f.node, f'_I = self.id_manager.free_betas.indices[{pm}]\n___\nreturn self.id_manager.bounds[_I]')
    ctx.add(rule, 'BIOGEME.get_bounds_on_beta', ok, f, 'bounds[free_betas.indices[name]]' if ok else 'bounds are no longer looked up through free_betas.indices[name]', 'bounds')
    f = B.methods['check_derivatives']
    calls = [c for c in ast.walk(f.node) if isinstance(c, ast.Call) and unparse(c.func).endswith('derivatives.check_derivatives')]
    ok = len(calls) == 1 and len(calls[0].args) >= 3 and unparse(calls[0].args[2]) == 'self.id_manager.free_betas.names'
    ctx.add(rule, 'BIOGEME.check_derivatives', ok, f, 'names handed to check_derivatives are free_betas.names' if ok else 'check_derivatives receives other names', unparse(calls[0]) if calls else '')
    # results
    R = prog.cls('results', 'RawResults')
    f = R.methods['__init__']
    ok = has(f.node, 'self.betaNames = the_model.id_manager.free_betas.names') and has(f.node, """
self.betas = []
for _V, _N in zip(beta_values, self.betaNames):
    _B = the_model.get_bounds_on_beta(_N)
    self.betas.append(Beta(_N, _V, _B))
""")
    ctx.add(rule, 'RawResults.__init__:betas', ok, f, 'value i is paired with free_betas.names[i] and with the bounds looked up by that name' if ok else 'pairing of estimates, names and bounds in RawResults changed', 'rawresults')
    BR = prog.cls('results', 'bioResults')
    f = BR.methods['get_beta_values']
    from .pattern import _parse, find, m_node

    b = find(f.node, """
for _B in my_betas:
    try:
        _I = __TABLE.index(_B)
        _VALS[_B] = self.data.betas[_I].value
    except KeyError as _EXC:
        ___
""") or find(f.node, "for _B in my_betas:\n    _I = __TABLE.index(_B)\n    _VALS[_B] = self.data.betas[_I].value")
    if b is None:
        ctx.shape(rule, 'bioResults.get_beta_values', False, f, '', 'for each requested name: position = <table>.index(name); value = betas[position].value')
    else:
        tbl = unparse(b['__TABLE'][1])
        rtbl = unparse(_resolve(f, b['__TABLE'][1]))
        ok = rtbl == 'self.data.betaNames'
        # a contradiction: the position is looked up in the request itself (position in the request, not in betaNames)
        wrong = not ok and rtbl == 'my_betas'
        ctx.add(rule, 'bioResults.get_beta_values', ok if (ok or wrong) else None, f, 'the value of a requested name is betas[betaNames.index(name)]' if ok
                else f'the position of a requested name is looked up in {tbl}: betas follow betaNames, so the value of another parameter is returned as soon as the request is not the full sorted list' if wrong
                else f'the position of a requested name is looked up in {tbl}: not recognised as self.data.betaNames', tbl, positive=wrong)
    f = BR.methods['get_betas_for_sensitivity_analysis']
    def zipped(e):
        return isinstance(e, ast.Call) and isinstance(e.func, ast.Name) and e.func.id == 'dict' and len(e.args) == 1 and isinstance(e.args[0], ast.Call) and unparse(e.args[0].func) == 'zip'

    comps = [c for c in walk_no_nested(f.node) if isinstance(c, ast.ListComp) and (isinstance(c.elt, ast.DictComp) or zipped(c.elt))]
    verdict = True if len(comps) >= 2 else None
    det = ''
    for c in comps:
        b = {}
        # rows of the whole table of draws labelled with the requested names in turn: no selection of the columns of those names
        whole = None
        unknown_rows = None
        for pat in ('[{_N: _V for _N, _V in zip(my_betas, _ROW)} for _ROW in __M]', '[dict(zip(my_betas, _ROW)) for _ROW in __M]'):
            bw = {}
            if m_node(_parse(pat)[0].value, c, bw):
                mres = _resolve(f, bw['__M'][1])
                if isinstance(mres, ast.Subscript):
                    continue
                # the whole table of draws: the bootstrap sample kept in the results, or the draws just generated
                if (isinstance(mres, ast.Attribute) and mres.attr == 'bootstrap') or (isinstance(mres, ast.Call) and call_name(mres) == 'multivariate_normal'):
                    whole = unparse(mres)
                else:
                    unknown_rows = unparse(bw['__M'][1])
        if whole is not None:
            verdict, det = False, f'the rows of {whole} (all parameters, in the order of betaNames) are labelled with my_betas in turn, without selecting the columns of those names: the k-th requested name receives the draw of the k-th parameter'
            break
        if unknown_rows is not None:
            verdict, det = None, f'rows of {unknown_rows}'
            continue
        if zipped(c.elt):
            # the same table written dict(zip(<labels>, row)): column i of the selection gets the i-th label
            if not m_node(_parse('[dict(zip(__LABELS, _ROW)) for _ROW in __M[:, _IDX]]')[0].value, c, b):
                verdict, det = None, unparse(c)[:160]
                continue
            label, ivar = unparse(_resolve(f, b['__LABELS'][1])), None
            if label != 'my_betas':
                if label == 'self.data.betaNames':
                    verdict, det = False, f'values of the selected columns are labelled with the names of {label} in turn; column i of the selection belongs to my_betas[i]'
                    break
                verdict, det = None, f'labels {label}'
                continue
        else:
            if not m_node(_parse('[{__LABEL: _V for _I, _V in enumerate(_ROW)} for _ROW in __M[:, _IDX]]')[0].value, c, b):
                verdict, det = None, unparse(c)[:160]
                continue
            label = unparse(_resolve(f, b['__LABEL'][1]))
            # inside the comprehension the metavariable _I is local: recover its name from the generator
            ivar = unparse(c.elt.generators[0].target.elts[0])
        if ivar is not None and label != f'my_betas[{ivar}]':
            if label == f'self.data.betaNames[{ivar}]':
                verdict, det = False, f'values of the selected columns are labelled {label}; column i of the selection belongs to my_betas[i]'
                break
            verdict, det = None, f'label {label}'
            continue
        defs = [a for a in walk_no_nested(f.node) if isinstance(a, ast.Assign) and unparse(a.targets[0]) == b['_IDX'] and seq(a) < seq(c)]
        for a in defs:
            bb = {}
            if not m_node(_parse('[__T.index(_B) for _B in my_betas]')[0].value, a.value, bb):
                verdict, det = None, unparse(a)[:160]
            else:
                tres = unparse(_resolve(f, bb['__T'][1]))
                if tres == 'my_betas':
                    verdict, det = False, f'columns are selected through {unparse(bb["__T"][1])}.index(name): the position of the name in the request; the columns of the draws follow betaNames'
                elif tres != 'self.data.betaNames':
                    verdict, det = None, f'columns selected through {unparse(bb["__T"][1])}'
        if not defs:
            verdict, det = None, 'no definition of the selected columns'
    ctx.add(rule, 'bioResults.get_betas_for_sensitivity_analysis', verdict, f,
            'column betaNames.index(name) of the draws is reported under that name, for the names requested and in their order' if verdict
            else (det if verdict is False else f'shape not recognised - expected: [{{my_betas[i]: value for i, value in enumerate(row)}} for row in draws[:, [betaNames.index(b) for b in my_betas]]]: {det}'), det, positive=verdict is False)
