"""Syntax tree -> sympy expression (a *normaliser*: two syntax trees are
compared through a canonical form; nothing is executed and no program path
is explored)."""

from __future__ import annotations

import ast
import copy
from fractions import Fraction

import sympy as sp

from .core import AnalysisError, dotted, unparse

FUNCS = {
    'log': sp.log,
    'exp': sp.exp,
    'sqrt': sp.sqrt,
    'abs': sp.Abs,
    'sin': sp.sin,
    'cos': sp.cos,
    'logzero': sp.log,  # differs from log only at 0
    'float': lambda x: x,
    'int': None,
}


def num(v) -> sp.Expr:
    if isinstance(v, bool):
        return sp.Integer(int(v))
    if isinstance(v, int):
        return sp.Integer(v)
    if isinstance(v, float):
        fr = Fraction(repr(v))
        return sp.Rational(fr.numerator, fr.denominator)
    raise AnalysisError(f'not a number: {v!r}')


class ToSympy:
    def __init__(self, names: dict[str, sp.Expr] | None = None, hook=None, positive: bool = False):
        self.names = dict(names or {})
        self.hook = hook
        self.positive = positive

    def sym(self, name: str) -> sp.Symbol:
        if name not in self.names:
            self.names[name] = sp.Symbol(name, positive=True) if self.positive else sp.Symbol(name)
        return self.names[name]

    def __call__(self, node: ast.AST) -> sp.Expr:
        if self.hook is not None:
            r = self.hook(node, self)
            if r is not None:
                return r
        if isinstance(node, ast.Constant):
            if isinstance(node.value, (int, float)):
                return num(node.value)
            raise AnalysisError(f'constant {node.value!r} in a formula')
        if isinstance(node, ast.Name):
            return self.sym(node.id)
        if isinstance(node, ast.Attribute):
            d = dotted(node)
            if d in ('np.pi', 'math.pi', 'numpy.pi'):
                return sp.pi
            if d in ('np.inf', 'math.inf'):
                return sp.oo
            return self.sym(d or unparse(node))
        if isinstance(node, ast.UnaryOp):
            v = self(node.operand)
            if isinstance(node.op, ast.USub):
                return -v
            if isinstance(node.op, ast.UAdd):
                return v
        if isinstance(node, ast.BinOp):
            l, r = self(node.left), self(node.right)
            if isinstance(node.op, ast.Add):
                return l + r
            if isinstance(node.op, ast.Sub):
                return l - r
            if isinstance(node.op, ast.Mult):
                return l * r
            if isinstance(node.op, ast.Div):
                return l / r
            if isinstance(node.op, ast.Pow):
                return l**r
            if isinstance(node.op, ast.FloorDiv):
                return sp.floor(l / r)
            if isinstance(node.op, ast.Mod):
                return sp.Mod(l, r)
        if isinstance(node, ast.Call):
            name = (dotted(node.func) or '').split('.')[-1]
            args = [self(a) for a in node.args]
            if name in FUNCS and FUNCS[name] is not None and len(args) == 1 and not node.keywords:
                return FUNCS[name](args[0])
            if name == 'int' and len(args) == 1:
                return sp.floor(args[0])
            if name == 'len' and len(node.args) == 1:
                return self.sym(f'len({unparse(node.args[0])})')
            f = sp.Function(dotted(node.func) or unparse(node.func))
            return f(*args)
        if isinstance(node, ast.Subscript):
            return self.sym(unparse(node))
        raise AnalysisError(f'cannot normalise {unparse(node)[:80]}')


def unknowns(e: sp.Expr, known) -> list[str]:
    """What a translated formula contains besides the quantities in `known`: free symbols that stand for a name, an
    attribute or a subscript the caller has not mapped to a quantity, and applications of functions the translation does not
    interpret.  A formula with unknowns cannot be compared with a defining formula: a difference of normal forms then says
    nothing about the quantity that is computed (the unknown may well be one of the known quantities under another name)."""
    from sympy.core.function import AppliedUndef

    known = set(known)
    out = sorted(str(s) for s in e.free_symbols if s not in known)
    return out + sorted({str(f.func) for f in e.atoms(AppliedUndef)})


class _MatrixIndex(ast.NodeTransformer):
    def visit_Subscript(self, node: ast.Subscript):
        self.generic_visit(node)
        ix = node.slice
        if isinstance(ix, (ast.Tuple, ast.Slice, ast.Starred)) or not isinstance(node.ctx, ast.Load):
            return node
        v = node.value
        two = None
        if isinstance(v, ast.Call) and not v.keywords:
            if dotted(v.func) in ('np.diag', 'numpy.diag', 'np.diagonal', 'numpy.diagonal') and len(v.args) == 1:
                two = (v.args[0], ix, ix)
            elif isinstance(v.func, ast.Attribute) and v.func.attr == 'diagonal' and not v.args:
                two = (v.func.value, ix, ix)
        elif isinstance(v, ast.Subscript) and not isinstance(v.slice, (ast.Tuple, ast.Slice, ast.Starred)):
            two = (v.value, v.slice, ix)
        if two is None:
            return node
        m, a, b = two
        return ast.copy_location(ast.Subscript(value=m, slice=ast.Tuple(elts=[copy.deepcopy(a), copy.deepcopy(b)], ctx=ast.Load()), ctx=ast.Load()), node)


def matrix_index(expr: ast.expr) -> ast.expr:
    """Copy of expr with the element reads of a two-dimensional array written in one form: np.diag(M)[i] and
    M.diagonal()[i] become M[i, i]; M[i][j] becomes M[i, j].  Only meaningful where M is a matrix and i, j are scalar
    indices (the callers apply it to formulas over variance-covariance matrices)."""
    return ast.fix_missing_locations(_MatrixIndex().visit(copy.deepcopy(expr)))


def inline_defs(func_node: ast.AST, expr: ast.expr, depth: int = 6) -> ast.expr:
    """Copy of expr in which every local of the function that is BOUND exactly once, by a plain `x = <expr>`, is replaced by
    that expression, recursively.  Like core.inline_locals, but only binding occurrences count as definitions (a name read in
    the subscript of an assignment target, `t[key] = v`, is not a definition of `key`); parameters, loop targets, with / except
    / import names, unpacking assignments, walrus targets, global / nonlocal names are never replaced.  A local bound by one
    plain `x = a` and then only modified by `x op= b` statements of the same statement list is, where it is read after the last
    of them (in that list, or inside a later statement of it), the operation `(a op b)...`: such a read is replaced when the
    expression handed over is a node of the function itself (the place of a read is only known there)."""
    from .core import walk_no_nested

    a = func_node.args
    never = {x.arg for x in a.posonlyargs + a.args + a.kwonlyargs} | ({a.vararg.arg} if a.vararg else set()) | ({a.kwarg.arg} if a.kwarg else set())
    defs: dict[str, list] = {}
    for n in walk_no_nested(func_node):
        if isinstance(n, ast.Assign) and len(n.targets) == 1 and isinstance(n.targets[0], ast.Name):
            defs.setdefault(n.targets[0].id, []).append(n.value)
        elif isinstance(n, ast.AnnAssign) and isinstance(n.target, ast.Name) and n.value is not None:
            defs.setdefault(n.target.id, []).append(n.value)
        elif isinstance(n, ast.Name) and isinstance(n.ctx, (ast.Store, ast.Del)):
            defs.setdefault(n.id, []).append(None)  # any other binding (the two plain forms above are met a second time here)
        elif isinstance(n, (ast.Global, ast.Nonlocal)):
            never |= set(n.names)
        elif isinstance(n, ast.ExceptHandler) and n.name:
            never.add(n.name)
        elif isinstance(n, (ast.Import, ast.ImportFrom)):
            never |= {(al.asname or al.name).split('.')[0] for al in n.names}
        elif isinstance(n, (ast.FunctionDef, ast.AsyncFunctionDef, ast.ClassDef)) and n is not func_node:
            never.add(n.name)
    # a plain definition is recorded twice (its value, then None for its Store name): single = one value and one None
    single = {k: v[0] if v[0] is not None else v[1] for k, v in defs.items() if len(v) == 2 and (v[0] is None) != (v[1] is None) and k not in never}

    # x = a ; x op= b ; ... in one statement list: name -> (the list, index of the last `op=`, the folded operation)
    folded: dict[str, tuple[list, int, ast.expr]] = {}
    augs: dict[str, list[ast.AugAssign]] = {}
    for n in walk_no_nested(func_node):
        if isinstance(n, ast.AugAssign) and isinstance(n.target, ast.Name):
            augs.setdefault(n.target.id, []).append(n)
    parent: dict[int, ast.AST] = {}
    if augs:
        parent = {id(c): p_ for p_ in ast.walk(func_node) for c in ast.iter_child_nodes(p_)}
        for name, aa in augs.items():
            v = defs.get(name, [])
            values = [x for x in v if x is not None]
            # one plain definition (value + its Store name) and one Store name per `op=`: nothing else binds the name
            if name in never or len(values) != 1 or len(v) != 2 + len(aa):
                continue
            first = next((x for x in walk_no_nested(func_node) if isinstance(x, (ast.Assign, ast.AnnAssign)) and x.value is values[0]), None)
            par = parent.get(id(first))
            blk = next((b for b in (getattr(par, f, None) for f in ('body', 'orelse', 'finalbody')) if isinstance(b, list) and any(x is first for x in b)), None)
            if blk is None or any(not any(x is a for x in blk) for a in aa):
                continue
            pos = {id(x): k for k, x in enumerate(blk)}
            if any(pos[id(a)] < pos[id(first)] for a in aa):
                continue
            e = values[0]
            for a in sorted(aa, key=lambda a: pos[id(a)]):
                e = ast.copy_location(ast.BinOp(left=e, op=a.op, right=a.value), a)
            folded[name] = (blk, max(pos[id(a)] for a in aa), e)

    def read_after(node: ast.Name) -> bool:
        """node (a node of the function) is read after the last `op=` of its name, in the statement list of its definition"""
        blk, last, _ = folded[node.id]
        cur = node
        while cur is not None:
            for k, x in enumerate(blk):
                if x is cur:
                    return k > last
            cur = parent.get(id(cur))
        return False

    def build(n, d: int):
        """copy of n with the replacements made (n itself is left as it is: its nodes keep their place in the function)"""
        if isinstance(n, ast.Name) and isinstance(n.ctx, ast.Load) and d > 0:
            if n.id in single:
                return build(single[n.id], d - 1)
            if n.id in folded and read_after(n):
                return build(folded[n.id][2], d - 1)
        if isinstance(n, ast.AST):
            new = n.__class__(**{f: build(getattr(n, f), d) for f in n._fields if hasattr(n, f)})
            return ast.copy_location(new, n) if hasattr(n, 'lineno') else new
        if isinstance(n, list):
            return [build(x, d) for x in n]
        return n

    return ast.fix_missing_locations(build(expr, depth))


def inline_returns(prog, f, expr: ast.expr, depth: int = 3) -> ast.expr:
    """Copy of expr in which a call of a function of the package whose body is a single `return <expression>` is replaced
    by that expression with the arguments put in the place of the parameters (positional, keyword and constant defaults
    alike).  `f` is the function the expression is taken from (calls are resolved from there).  Calls that do not resolve
    to exactly one such function, methods called on anything but `self`, and callees with * / ** parameters stay as they are."""

    def body_of(g):
        from .core import strip_docstring

        b = strip_docstring(g.node.body)
        a = g.node.args
        if len(b) != 1 or not isinstance(b[0], ast.Return) or b[0].value is None or a.vararg or a.kwarg or g.node.decorator_list:
            return None
        return b[0].value

    class Sub(ast.NodeTransformer):
        def __init__(self, d):
            self.d = d

        def visit_Call(self, node: ast.Call):
            self.generic_visit(node)
            if self.d <= 0:
                return node
            try:
                cands = prog.resolve_call(f, node)
            except Exception:  # noqa: an unresolved call is simply not expanded
                return node
            if len(cands) != 1 or cands[0].node is getattr(f, 'node', None):
                return node
            g = cands[0]
            if g.cls is not None and not (isinstance(node.func, ast.Attribute) and isinstance(node.func.value, ast.Name) and node.func.value.id == 'self'):
                return node
            ret = body_of(g)
            bound = prog.bind_call(f, node) if ret is not None else None
            if bound is None:
                return node
            a = g.node.args
            pos = a.posonlyargs + a.args
            for p_, dflt in list(zip(pos[len(pos) - len(a.defaults):], a.defaults)) + [(p_, d_) for p_, d_ in zip(a.kwonlyargs, a.kw_defaults) if d_ is not None]:
                if p_.arg not in bound and isinstance(dflt, ast.Constant):
                    bound[p_.arg] = dflt
            params = [x.arg for x in pos + a.kwonlyargs]
            if g.cls is not None and 'staticmethod' not in g.decorators():
                params = params[1:]
            if any(p_ not in bound for p_ in params):
                return node

            class Put(ast.NodeTransformer):
                def visit_Name(self, n):
                    if isinstance(n.ctx, ast.Load) and n.id in bound:
                        return copy.deepcopy(bound[n.id])
                    return n

                def visit_Lambda(self, n):
                    return n

            out = Put().visit(copy.deepcopy(ret))
            return ast.copy_location(Sub(self.d - 1).visit(out), node)

    return ast.fix_missing_locations(Sub(depth).visit(copy.deepcopy(expr)))


def equal(a: sp.Expr, b: sp.Expr) -> bool:
    """True iff a - b normalises to zero.  Raises AnalysisError when sympy
    can neither prove nor refute the identity on the monomial level."""
    d = sp.simplify(a - b)
    if d == 0:
        return True
    d2 = sp.simplify(sp.expand(sp.expand_log(a - b, force=True)))
    if d2 == 0:
        return True
    d3 = sp.simplify(sp.powsimp(sp.expand_power_base(sp.expand(a - b), force=True), force=True))
    return d3 == 0
