"""Syntax tree -> sympy expression (a *normaliser*: two syntax trees are
compared through a canonical form; nothing is executed and no program path
is explored)."""

from __future__ import annotations

import ast
from fractions import Fraction

import sympy as sp

from .core import AnalysisError, dotted, unparse

FUNCS = {
    'log': sp.log,
    'exp': sp.exp,
    'sqrt': sp.sqrt,
    'abs': sp.Abs,
    'sin': sp.sin,
    'cos': sp.cos,
    'logzero': sp.log,  # differs from log only at 0
    'float': lambda x: x,
    'int': None,
}


def num(v) -> sp.Expr:
    if isinstance(v, bool):
        return sp.Integer(int(v))
    if isinstance(v, int):
        return sp.Integer(v)
    if isinstance(v, float):
        fr = Fraction(repr(v))
        return sp.Rational(fr.numerator, fr.denominator)
    raise AnalysisError(f'not a number: {v!r}')


class ToSympy:
    def __init__(self, names: dict[str, sp.Expr] | None = None, hook=None, positive: bool = False):
        self.names = dict(names or {})
        self.hook = hook
        self.positive = positive

    def sym(self, name: str) -> sp.Symbol:
        if name not in self.names:
            self.names[name] = sp.Symbol(name, positive=True) if self.positive else sp.Symbol(name)
        return self.names[name]

    def __call__(self, node: ast.AST) -> sp.Expr:
        if self.hook is not None:
            r = self.hook(node, self)
            if r is not None:
                return r
        if isinstance(node, ast.Constant):
            if isinstance(node.value, (int, float)):
                return num(node.value)
            raise AnalysisError(f'constant {node.value!r} in a formula')
        if isinstance(node, ast.Name):
            return self.sym(node.id)
        if isinstance(node, ast.Attribute):
            d = dotted(node)
            if d in ('np.pi', 'math.pi', 'numpy.pi'):
                return sp.pi
            if d in ('np.inf', 'math.inf'):
                return sp.oo
            return self.sym(d or unparse(node))
        if isinstance(node, ast.UnaryOp):
            v = self(node.operand)
            if isinstance(node.op, ast.USub):
                return -v
            if isinstance(node.op, ast.UAdd):
                return v
        if isinstance(node, ast.BinOp):
            l, r = self(node.left), self(node.right)
            if isinstance(node.op, ast.Add):
                return l + r
            if isinstance(node.op, ast.Sub):
                return l - r
            if isinstance(node.op, ast.Mult):
                return l * r
            if isinstance(node.op, ast.Div):
                return l / r
            if isinstance(node.op, ast.Pow):
                return l**r
            if isinstance(node.op, ast.FloorDiv):
                return sp.floor(l / r)
            if isinstance(node.op, ast.Mod):
                return sp.Mod(l, r)
        if isinstance(node, ast.Call):
            name = (dotted(node.func) or '').split('.')[-1]
            args = [self(a) for a in node.args]
            if name in FUNCS and FUNCS[name] is not None and len(args) == 1 and not node.keywords:
                return FUNCS[name](args[0])
            if name == 'int' and len(args) == 1:
                return sp.floor(args[0])
            if name == 'len' and len(node.args) == 1:
                return self.sym(f'len({unparse(node.args[0])})')
            f = sp.Function(dotted(node.func) or unparse(node.func))
            return f(*args)
        if isinstance(node, ast.Subscript):
            return self.sym(unparse(node))
        raise AnalysisError(f'cannot normalise {unparse(node)[:80]}')


def equal(a: sp.Expr, b: sp.Expr) -> bool:
    """True iff a - b normalises to zero.  Raises AnalysisError when sympy
    can neither prove nor refute the identity on the monomial level."""
    d = sp.simplify(a - b)
    if d == 0:
        return True
    d2 = sp.simplify(sp.expand(sp.expand_log(a - b, force=True)))
    if d2 == 0:
        return True
    d3 = sp.simplify(sp.powsimp(sp.expand_power_base(sp.expand(a - b), force=True), force=True))
    return d3 == 0
