"""Thorough tier: the rules are re-run on in-memory variants of today's sources.

* ``MUTANTS`` of a rule module: seeded breaks (one text edit each) that still
  parse; the named rule must report them.
* ``NEUTRAL``: behaviour-preserving edits; no new report is allowed.

Nothing is written to disk and nothing is executed.  The outcome is recorded
in the evidence file; it never changes the verdict about /repo itself (a
variant whose anchor text is absent from the current tree is counted as
skipped).
"""

from __future__ import annotations

import os
from concurrent.futures import ProcessPoolExecutor

from .core import AnalysisError, Program
from .report import Ctx

_PROG = None
_MOD = None
_PROP = None
_BASE: set[str] = set()
_MUTS: list = []


def _apply(prog: Program, edits) -> Program | None:
    srcs = dict(prog.sources)
    for e in edits:
        path, old, new = e[0], e[1], e[2]
        many = len(e) > 3 and e[3]
        if path not in srcs or (srcs[path].count(old) != 1 and not (many and srcs[path].count(old) > 1)):
            return None
        srcs[path] = srcs[path].replace(old, new)
    return Program(srcs)


def patch_edits(patch_text: str):
    """(file, old text, new text) per hunk of a unified diff (context lines included on both sides)"""
    edits = []
    path = None
    old: list[str] = []
    new: list[str] = []

    def flush():
        if path and (old or new):
            edits.append((path, ''.join(old), ''.join(new)))

    for line in patch_text.splitlines(keepends=True):
        if line.startswith('+++ '):
            flush()
            old, new = [], []
            path = line[4:].strip()
            path = path[2:] if path.startswith('b/') else path
        elif line.startswith('--- ') or line.startswith('diff ') or line.startswith('index '):
            continue
        elif line.startswith('@@'):
            flush()
            old, new = [], []
        elif path is None:
            continue
        elif line.startswith('+'):
            new.append(line[1:])
        elif line.startswith('-'):
            old.append(line[1:])
        elif line.startswith(' '):
            old.append(line[1:])
            new.append(line[1:])
        elif line.startswith('\\'):
            continue
    flush()
    return edits


def seeded_mutants(prop: str) -> list[dict]:
    """the confirmed changes of /verif/seeded that belong to this property, as in-memory edits"""
    import glob
    import json

    here = os.path.dirname(os.path.dirname(os.path.abspath(__file__)))
    out = []
    for d in sorted(glob.glob(os.path.join(here, 'seeded', f'{prop}_*'))):
        try:
            meta = json.load(open(os.path.join(d, 'meta.json'), encoding='utf-8'))
            patch = open(os.path.join(d, 'patch.diff'), encoding='utf-8').read()
        except OSError:
            continue
        if not meta.get('valid', True):
            continue
        out.append({'name': f'seeded/{os.path.basename(d)}: {meta.get("title", "")[:90]}', 'edits': patch_edits(patch)})
    return out


def _edits(m: dict):
    if 'edits' in m:
        return [tuple(e) for e in m['edits']]
    return [(m['file'], m['old'], m['new'], m.get('replace_all', False))]


def _run_one(i: int):
    from .variants import TRANSFORMS, variant

    local = _MUTS + getattr(_MOD, 'NEUTRAL', [])
    if i >= len(local):
        gname = list(TRANSFORMS)[i - len(local)]
        m = {'name': f'whole package: {gname} ({(TRANSFORMS[gname]().__doc__ or "").strip()})'}
    else:
        m = local[i]
    neutral = i >= len(_MUTS)
    try:
        v = variant(_PROG, gname) if i >= len(local) else _apply(_PROG, _edits(m))
        if v is None:
            return (m['name'], 'skipped', 'anchor text not found exactly once')
        ctx = Ctx(v, _PROP, 'thorough')
        try:
            _MOD.run(ctx)
        except AnalysisError as e:
            if neutral:
                return (m['name'], 'neutral-refused', f'ANALYSIS-ERROR {e}')
            return (m['name'], 'refused', 'ANALYSIS-ERROR ' + str(e)[:200])
        new = [o for o in ctx.obligations if not o.ok and o.key not in _BASE]
        refused = [o for o in new if not o.recognised]
        new = [o for o in new if o.recognised]
        if neutral:
            if new:
                return (m['name'], 'neutral-alarm', '; '.join(f'{o.rule} {o.construct}' for o in new[:3]))
            if refused:
                return (m['name'], 'neutral-refused', '; '.join(f'{o.rule} {o.construct}' for o in refused[:3]))
            return (m['name'], 'neutral-silent', '')
        want = m.get('rule')
        hit = [o for o in new if want is None or o.rule == want or o.rule.startswith(want)]
        if hit:
            return (m['name'], 'killed', f'{hit[0].rule} {hit[0].construct}: {hit[0].message[:120]}')
        if new:
            return (m['name'], 'killed-other-rule', f'{new[0].rule} {new[0].construct}')
        if refused:
            return (m['name'], 'refused', f'{refused[0].rule} {refused[0].construct}: not recognised (exit 2, no verdict)')
        return (m['name'], 'survived', '')
    except Exception as e:  # noqa
        return (m['name'], 'error', repr(e)[:200])


def run_selftest(prog: Program, prop: str, mod) -> dict:
    global _PROG, _MOD, _PROP, _BASE, _MUTS
    from .variants import TRANSFORMS

    muts = list(getattr(mod, 'MUTANTS', [])) + seeded_mutants(prop)
    _MUTS = muts
    neut = list(getattr(mod, 'NEUTRAL', [])) + [{'name': g} for g in TRANSFORMS]
    base = Ctx(prog, prop, 'thorough')
    mod.run(base)
    _PROG, _MOD, _PROP = prog, mod, prop
    _BASE = {o.key for o in base.obligations if not o.ok}
    n = len(muts) + len(neut)
    workers = min(16, os.cpu_count() or 4, n)
    if workers > 1:
        with ProcessPoolExecutor(max_workers=workers) as ex:
            res = list(ex.map(_run_one, range(n), chunksize=max(1, n // (workers * 2))))
    else:
        res = [_run_one(i) for i in range(n)]
    killed = [r for r in res if r[1].startswith('killed')]
    refused = [r for r in res if r[1] == 'refused']
    nrefused = [r for r in res if r[1] == 'neutral-refused']
    survived = [r for r in res if r[1] == 'survived']
    skipped = [r for r in res if r[1] == 'skipped']
    alarms = [r for r in res if r[1] == 'neutral-alarm']
    errors = [r for r in res if r[1] == 'error']
    silent = [r for r in res if r[1] == 'neutral-silent']
    print(
        f'[{prop}] self-test on in-memory variants: {len(killed)}/{len(muts)} seeded breaks reported as violations, '
        f'{len(refused)} refused (exit 2), {len(survived)} survived, {len(skipped)} skipped; {len(silent)}/{len(neut)} behaviour-preserving '
        f'variants silent, {len(nrefused)} refused (exit 2), {len(alarms)} false alarm(s), {len(errors)} error(s)'
    )
    for r in survived:
        print(f'SELFTEST-MISS: {prop} seeded break not reported: {r[0]}')
    for r in refused:
        print(f'SELFTEST-REFUSED: {prop} seeded break answered by exit 2 instead of a violation: {r[0]}: {r[2][:160]}')
    for r in nrefused:
        print(f'SELFTEST-NEUTRAL-REFUSED: {prop} behaviour-preserving variant answered by exit 2: {r[0]}: {r[2][:160]}')
    for r in alarms:
        print(f'SELFTEST-FALSE-ALARM: {prop} behaviour-preserving variant reported: {r[0]}: {r[2]}')
    for r in errors:
        print(f'SELFTEST-ERROR: {prop} {r[0]}: {r[2]}')
    return {
        'selftest': {
            'seeded_breaks': len(muts),
            'reported': len(killed),
            'refused_exit_2': [r[0] for r in refused],
            'survived': [r[0] for r in survived],
            'skipped': [r[0] for r in skipped],
            'behaviour_preserving_variants': len(neut),
            'silent': len(silent),
            'false_alarms': [r[0] for r in alarms],
            'behaviour_preserving_refused_exit_2': [r[0] for r in nrefused],
            'errors': [r[0] for r in errors],
            'details': [{'variant': r[0], 'outcome': r[1], 'report': r[2]} for r in res],
        }
    }
