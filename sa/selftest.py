"""Thorough tier: the rules are re-run on in-memory variants of today's sources.

* ``MUTANTS`` of a rule module: seeded breaks (one text edit each) that still
  parse; the named rule must report them.
* ``NEUTRAL``: behaviour-preserving edits; no new report is allowed.

Nothing is written to disk and nothing is executed.  The outcome is recorded
in the evidence file; it never changes the verdict about /repo itself (a
variant whose anchor text is absent from the current tree is counted as
skipped).
"""

from __future__ import annotations

import os
import re
from concurrent.futures import ProcessPoolExecutor

from .core import AnalysisError, Program
from .report import Ctx

_PROG = None
_MOD = None
_PROP = None
_BASE: set[str] = set()
_MUTS: list = []
_NEUT_LOCAL: list = []


def apply_edits(sources: dict, edits) -> tuple[dict | None, str]:
    """sources with the edits (file, old, new[, replace_all[, line of the hunk]]) applied; (None, reason) when one does not
    apply.  A hunk whose text occurs more than once is placed at the occurrence nearest to its line number."""
    srcs = dict(sources)
    for e in edits:
        path, old, new = e[0], e[1], e[2]
        many = len(e) > 3 and e[3]
        hint = e[4] if len(e) > 4 else None
        if path not in srcs:
            return None, f'{path} not in the sources'
        n = srcs[path].count(old)
        if n == 1 or (many and n > 1):
            srcs[path] = srcs[path].replace(old, new)
        elif n > 1 and hint is not None:
            text = srcs[path]
            starts = [m.start() for m in re.finditer(re.escape(old), text)]
            best = min(starts, key=lambda k: abs(text.count('\n', 0, k) + 1 - hint))
            srcs[path] = text[:best] + new + text[best + len(old):]
        else:
            return None, f'hunk of {path} occurs {n} times'
    return srcs, ''


def _apply(prog: Program, edits) -> Program | None:
    srcs, _ = apply_edits(prog.sources, edits)
    return Program(srcs) if srcs is not None else None


def patch_edits(patch_text: str):
    """(file, old text, new text, False, first line of the hunk) per hunk of a unified diff (context lines included on both sides)"""
    edits = []
    path = None
    old: list[str] = []
    new: list[str] = []
    start = [None]

    def flush():
        if path and (old or new):
            edits.append((path, ''.join(old), ''.join(new), False, start[0]))

    for line in patch_text.splitlines(keepends=True):
        if line.startswith('+++ '):
            flush()
            old, new = [], []
            path = line[4:].strip()
            path = path[2:] if path.startswith('b/') else path
        elif line.startswith('--- ') or line.startswith('diff ') or line.startswith('index '):
            continue
        elif line.startswith('@@'):
            flush()
            m_ = re.match(r'@@ -(\d+)', line)
            start[0] = int(m_.group(1)) if m_ else None
            old, new = [], []
        elif path is None:
            continue
        elif line.startswith('+'):
            new.append(line[1:])
        elif line.startswith('-'):
            old.append(line[1:])
        elif line.startswith(' '):
            old.append(line[1:])
            new.append(line[1:])
        elif line.startswith('\\'):
            continue
    flush()
    return edits


def seeded_mutants(prop: str) -> list[dict]:
    """the confirmed changes of /verif/seeded that belong to this property, as in-memory edits"""
    import glob
    import json

    here = os.path.dirname(os.path.dirname(os.path.abspath(__file__)))
    out = []
    for d in sorted(glob.glob(os.path.join(here, 'seeded', f'{prop}_*'))):
        try:
            meta = json.load(open(os.path.join(d, 'meta.json'), encoding='utf-8'))
            patch = open(os.path.join(d, 'patch.diff'), encoding='utf-8').read()
        except OSError:
            continue
        if not meta.get('valid', True):
            continue
        out.append({'name': f'seeded/{os.path.basename(d)}: {meta.get("title", "")[:90]}', 'edits': patch_edits(patch)})
    return out


def refactoring_neutrals(prop: str) -> list[dict]:
    """the behaviour-preserving refactorings of /verif/refactorings that touch a file this property's refactorings or
    confirmed changes touch, as in-memory edits (written by sub-agents, verified against the baseline; the rules must stay silent)"""
    import glob
    import json
    import re

    here = os.path.dirname(os.path.dirname(os.path.abspath(__file__)))

    def files_of(patch):
        return set(re.findall(r'^\+\+\+ b/(\S+)', patch, re.M))

    mine: set[str] = set()
    for d in glob.glob(os.path.join(here, 'refactorings', f'{prop}_*')) + glob.glob(os.path.join(here, 'seeded', f'{prop}_*')):
        try:
            mine |= files_of(open(os.path.join(d, 'patch.diff'), encoding='utf-8').read())
        except OSError:
            pass
    out = []
    for d in sorted(glob.glob(os.path.join(here, 'refactorings', '*_*'))):
        try:
            patch = open(os.path.join(d, 'patch.diff'), encoding='utf-8').read()
            meta = json.load(open(os.path.join(d, 'meta.json'), encoding='utf-8'))
        except OSError:
            continue
        if os.path.basename(d).startswith(prop) or files_of(patch) & mine:
            out.append({'name': f'refactorings/{os.path.basename(d)}: {meta.get("title", "")[:90]}', 'edits': patch_edits(patch)})
    return out


def _edits(m: dict):
    if 'edits' in m:
        return [tuple(e) for e in m['edits']]
    return [(m['file'], m['old'], m['new'], m.get('replace_all', False))]


def _run_one(i: int):
    from .variants import TRANSFORMS, variant

    local = _MUTS + _NEUT_LOCAL
    if i >= len(local):
        gname = list(TRANSFORMS)[i - len(local)]
        m = {'name': f'whole package: {gname} ({(TRANSFORMS[gname]().__doc__ or "").strip()})'}
    else:
        m = local[i]
    neutral = i >= len(_MUTS)
    try:
        v = variant(_PROG, gname) if i >= len(local) else _apply(_PROG, _edits(m))
        if v is None:
            return (m['name'], 'skipped', 'anchor text not found exactly once')
        ctx = Ctx(v, _PROP, 'thorough')
        try:
            _MOD.run(ctx)
        except AnalysisError as e:
            if neutral:
                return (m['name'], 'neutral-refused', f'ANALYSIS-ERROR {e}')
            return (m['name'], 'refused', 'ANALYSIS-ERROR ' + str(e)[:200])
        new = [o for o in ctx.obligations if not o.ok and o.key not in _BASE]
        refused = [o for o in new if not o.recognised]
        new = [o for o in new if o.recognised]
        if neutral:
            if new:
                return (m['name'], 'neutral-alarm', '; '.join(f'{o.rule} {o.construct}' for o in new[:3]))
            if refused:
                return (m['name'], 'neutral-refused', '; '.join(f'{o.rule} {o.construct}' for o in refused[:3]))
            return (m['name'], 'neutral-silent', '')
        want = m.get('rule')
        hit = [o for o in new if want is None or o.rule == want or o.rule.startswith(want)]
        if hit:
            return (m['name'], 'killed', f'{hit[0].rule} {hit[0].construct}: {hit[0].message[:120]}')
        if new:
            return (m['name'], 'killed-other-rule', f'{new[0].rule} {new[0].construct}')
        if refused:
            return (m['name'], 'refused', f'{refused[0].rule} {refused[0].construct}: not recognised (exit 2, no verdict)')
        return (m['name'], 'survived', '')
    except Exception as e:  # noqa
        return (m['name'], 'error', repr(e)[:200])


def run_selftest(prog: Program, prop: str, mod) -> dict:
    global _PROG, _MOD, _PROP, _BASE, _MUTS, _NEUT_LOCAL
    from .variants import TRANSFORMS

    muts = list(getattr(mod, 'MUTANTS', [])) + seeded_mutants(prop)
    _MUTS = muts
    _NEUT_LOCAL = list(getattr(mod, 'NEUTRAL', [])) + refactoring_neutrals(prop)
    neut = _NEUT_LOCAL + [{'name': g} for g in TRANSFORMS]
    base = Ctx(prog, prop, 'thorough')
    mod.run(base)
    _PROG, _MOD, _PROP = prog, mod, prop
    _BASE = {o.key for o in base.obligations if not o.ok}
    n = len(muts) + len(neut)
    workers = min(16, os.cpu_count() or 4, n)
    if workers > 1:
        with ProcessPoolExecutor(max_workers=workers) as ex:
            res = list(ex.map(_run_one, range(n), chunksize=max(1, n // (workers * 2))))
    else:
        res = [_run_one(i) for i in range(n)]
    killed = [r for r in res if r[1].startswith('killed')]
    refused = [r for r in res if r[1] == 'refused']
    nrefused = [r for r in res if r[1] == 'neutral-refused']
    survived = [r for r in res if r[1] == 'survived']
    skipped = [r for r in res if r[1] == 'skipped']
    alarms = [r for r in res if r[1] == 'neutral-alarm']
    errors = [r for r in res if r[1] == 'error']
    silent = [r for r in res if r[1] == 'neutral-silent']
    print(
        f'[{prop}] self-test on in-memory variants: {len(killed)}/{len(muts)} seeded breaks reported as violations, '
        f'{len(refused)} refused (exit 2), {len(survived)} survived, {len(skipped)} skipped; {len(silent)}/{len(neut)} behaviour-preserving '
        f'variants silent, {len(nrefused)} refused (exit 2), {len(alarms)} false alarm(s), {len(errors)} error(s)'
    )
    for r in survived:
        print(f'SELFTEST-MISS: {prop} seeded break not reported: {r[0]}')
    for r in refused:
        print(f'SELFTEST-REFUSED: {prop} seeded break answered by exit 2 instead of a violation: {r[0]}: {r[2][:160]}')
    for r in nrefused:
        print(f'SELFTEST-NEUTRAL-REFUSED: {prop} behaviour-preserving variant answered by exit 2: {r[0]}: {r[2][:160]}')
    for r in alarms:
        print(f'SELFTEST-FALSE-ALARM: {prop} behaviour-preserving variant reported: {r[0]}: {r[2]}')
    for r in errors:
        print(f'SELFTEST-ERROR: {prop} {r[0]}: {r[2]}')
    return {
        'selftest': {
            'seeded_breaks': len(muts),
            'reported': len(killed),
            'refused_exit_2': [r[0] for r in refused],
            'survived': [r[0] for r in survived],
            'skipped': [r[0] for r in skipped],
            'behaviour_preserving_variants': len(neut),
            'silent': len(silent),
            'false_alarms': [r[0] for r in alarms],
            'behaviour_preserving_refused_exit_2': [r[0] for r in nrefused],
            'errors': [r[0] for r in errors],
            'details': [{'variant': r[0], 'outcome': r[1], 'report': r[2]} for r in res],
        }
    }
