"""Straight-line specification helpers -> sympy (formula normal form).

The body of a helper such as distributions.normalpdf is a sequence of
assignments of expression-DSL terms followed by a return.  It is translated,
statement by statement, into one sympy expression over the parameters of the
helper; comparisons become indicator atoms.  Validation preambles (try/except
around get_value, `if ...: raise`) are skipped.  Nothing is executed.
"""

from __future__ import annotations

import ast

import sympy as sp

from .core import AnalysisError, FuncInfo, dotted, unparse
from .sym import num

LT, LE, GT, GE, EQ, NE = (sp.Function(n) for n in ('LT', 'LE', 'GT', 'GE', 'EQ', 'NE'))
ELEM = sp.Function('ELEM')
CMP = {'Lt': LT, 'LtE': LE, 'Gt': GT, 'GtE': GE, 'Eq': EQ, 'NotEq': NE}


def indicator(op: str, a, b):
    """canonical orientation: x > a  ==  a < x"""
    if op == 'Gt':
        return LT(b, a)
    if op == 'GtE':
        return LE(b, a)
    return CMP[op](a, b)


class Dsl:
    def __init__(self, f: FuncInfo, consts: dict[float, sp.Expr] | None = None, prog=None, env: dict[str, sp.Expr] | None = None, depth: int = 0):
        """``prog`` (optional) lets names imported from another module of the package be followed; ``env`` binds the
        parameters (evaluation of a helper at the arguments of a call) instead of making them free symbols."""
        self.f = f
        self.consts = consts or {}
        self.prog = prog
        self.depth = depth
        self.env: dict[str, sp.Expr] = dict(env) if env is not None else {p: sp.Symbol(p, real=True) for p in f.params()}
        self.ret: sp.Expr | None = None
        self.literal_floats: list[float] = []
        #: (value, file, line) of every float literal read during the evaluation, helpers and module constants included
        self.literals: list[tuple[float, str, int]] = []
        #: placeholder symbol -> the call it stands for: a call that is not understood is harmless while its value stays out of
        #: the returned formula (value probing for the argument checks); once it enters the formula the evaluation fails
        self.unknown: dict[sp.Symbol, str] = {}
        self.run(f.explicit_body)
        if depth == 0 and self.ret is not None:
            bad = [why for sym_, why in self.unknown.items() if sym_ in self.ret.free_symbols]
            if bad:
                raise AnalysisError(f'{bad[0]}: the value enters the formula returned by {f.name}')

    def run(self, stmts):
        for st in stmts:
            if isinstance(st, ast.Expr) and isinstance(st.value, ast.Constant):
                continue
            if isinstance(st, ast.Try):
                self._not_read(st)
                continue  # value probing for the argument checks
            if isinstance(st, ast.If):
                if all(isinstance(x, (ast.Raise, ast.Assign, ast.If, ast.Expr)) for x in st.body) and any(isinstance(x, ast.Raise) for x in ast.walk(st)):
                    self._not_read(st)
                    continue
                if any('logger.' in unparse(x) for x in st.body):
                    continue
                raise AnalysisError(f'{self.f.file}:{st.lineno}: conditional in {self.f.name} not understood')
            if isinstance(st, ast.Assign) and len(st.targets) == 1 and isinstance(st.targets[0], ast.Name):
                self.env[st.targets[0].id] = self.ev(st.value)
                continue
            if isinstance(st, ast.Return):
                self.ret = self.ev(st.value)
                return
            raise AnalysisError(f'{self.f.file}:{st.lineno}: statement of {self.f.name} not understood: {unparse(st)[:60]}')

    def _not_read(self, st: ast.stmt) -> None:
        """a block of argument checks is skipped; a name it assigns is harmless while it stays out of the returned formula"""
        for n in ast.walk(st):
            if isinstance(n, ast.Name) and isinstance(n.ctx, ast.Store):
                ph = sp.Symbol(f'?{n.id}#{len(self.unknown)}', real=True)
                self.unknown[ph] = f'{self.f.file}:{st.lineno}: {n.id} is assigned in a block of argument checks that the rule does not read'
                self.env[n.id] = ph

    def ev(self, e: ast.expr) -> sp.Expr:
        if isinstance(e, ast.Constant):
            if isinstance(e.value, (int, float)) and not isinstance(e.value, bool):
                v = float(e.value)
                if isinstance(e.value, float):
                    self.literal_floats.append(v)
                    self.literals.append((v, self.f.file, getattr(e, 'lineno', 0)))
                for c, s in self.consts.items():
                    if abs(v - c) <= 5e-10 * max(1.0, abs(c)):
                        return s
                return sp.nsimplify(num(e.value))
            raise AnalysisError(f'constant {e.value!r}')
        if isinstance(e, ast.Name):
            if e.id in self.env:
                return self.env[e.id]
            v = self._module_value(e.id)
            if v is not None:
                return v
            raise AnalysisError(f'{self.f.file}:{e.lineno}: unknown name {e.id} in {self.f.name}')
        if isinstance(e, ast.Attribute) and dotted(e) in ('math.pi', 'np.pi', 'numpy.pi'):
            return sp.pi
        if isinstance(e, ast.UnaryOp) and isinstance(e.op, ast.USub):
            return -self.ev(e.operand)
        if isinstance(e, ast.UnaryOp) and isinstance(e.op, ast.UAdd):
            return self.ev(e.operand)
        if isinstance(e, ast.BinOp):
            l, r = self.ev(e.left), self.ev(e.right)
            op = type(e.op).__name__
            return {'Add': lambda: l + r, 'Sub': lambda: l - r, 'Mult': lambda: l * r, 'Div': lambda: l / r, 'Pow': lambda: l**r}[op]()
        if isinstance(e, ast.Compare) and len(e.ops) == 1:
            return indicator(type(e.ops[0]).__name__, self.ev(e.left), self.ev(e.comparators[0]))
        if isinstance(e, ast.Call):
            name = (dotted(e.func) or '').split('.')[-1]
            if name in ('validate_and_convert', 'Numeric') and len(e.args) == 1:
                return self.ev(e.args[0])
            if name == 'exp':
                return sp.exp(self.ev(e.args[0]))
            if name in ('log',):
                return sp.log(self.ev(e.args[0]))
            if name == 'sqrt' and len(e.args) == 1 and not e.keywords:
                return sp.sqrt(self.ev(e.args[0]))
            if name == 'bioMultSum' and isinstance(e.args[0], ast.List):
                return sp.Add(*[self.ev(x) for x in e.args[0].elts])
            if name == 'Elem' and isinstance(e.args[0], ast.Dict):
                items = []
                for k, v in zip(e.args[0].keys, e.args[0].values):
                    items += [self.ev(k), self.ev(v)]
                return ELEM(self.ev(e.args[1]), *items)
            if name == 'MonteCarlo':
                return sp.Function('MC')(self.ev(e.args[0]))
            why = f'{self.f.file}:{getattr(e, "lineno", 0)}: unknown call {unparse(e.func)}(...) in {self.f.name}'
            try:
                r = self._helper(e)
                if r is not None:
                    return r
            except AnalysisError as err:
                why = f'{why} ({str(err)[:120]})'
            # a call that is not understood is not a formula: no sympy function is invented for it (the rule leaves the verdict open)
            ph = sp.Symbol(f'?{name}#{len(self.unknown)}', real=True)
            self.unknown[ph] = why
            return ph
        raise AnalysisError(f'{self.f.file}:{getattr(e, "lineno", 0)}: expression of {self.f.name} not understood: {unparse(e)[:60]}')

    # ---- names and calls resolved outside the function ----------------------

    def _resolve(self, name: str):
        m = self.f.module
        if self.prog is not None:
            try:
                return self.prog.resolve_name(m, name)
            except Exception:  # noqa
                return None
        if name in m.functions:
            return ('func', m.functions[name])
        if name in m.assigns and name not in m.classes and name not in m.imports:
            return ('value', m, m.assigns[name])
        return None

    def _probe(self, f) -> 'Dsl':
        """an evaluator of single expressions in the scope of f (no parameters bound, nothing run)"""
        probe = Dsl.__new__(Dsl)
        probe.f, probe.consts, probe.prog, probe.depth, probe.env, probe.ret = f, self.consts, self.prog, self.depth + 1, {}, None
        probe.literal_floats, probe.literals, probe.unknown = [], [], {}
        return probe

    def _sub(self, f: FuncInfo, env: dict[str, sp.Expr]) -> 'Dsl':
        d = Dsl(f, self.consts, self.prog, env, self.depth + 1)
        self.literal_floats += d.literal_floats
        self.literals += d.literals
        for k, v in d.unknown.items():
            self.unknown[sp.Symbol(f'{k.name}/{len(self.unknown)}', real=True)] = v  # distinct from the placeholders of the caller
        if d.ret is not None and d.unknown:
            ren = {k: k2 for k, k2 in zip(d.unknown, list(self.unknown)[-len(d.unknown):])}
            d.ret = d.ret.subs(ren, simultaneous=True)
        return d

    def _module_value(self, name: str):
        """value of a module-level constant (a name assigned once at the top level of its module to a formula of literals)"""
        if self.depth > 4:
            return None
        r = self._resolve(name)
        if r is not None and r[0] == 'external' and r[1] in ('math.pi', 'numpy.pi'):
            return sp.pi
        if r is None or r[0] != 'value':
            return None
        mod, expr = r[1], r[2]
        n_defs = sum(1 for st in ast.walk(mod.tree) if isinstance(st, (ast.Assign, ast.AnnAssign, ast.AugAssign))
                     for t in (st.targets if isinstance(st, ast.Assign) else [st.target]) for x in ast.walk(t) if isinstance(x, ast.Name) and x.id == name)
        n_defs += sum(1 for st in ast.walk(mod.tree) if isinstance(st, ast.Global) and name in st.names)
        if n_defs != 1:
            return None
        probe = self._probe(_At(self.f, mod))
        try:
            v = probe.ev(expr)
        except AnalysisError:
            return None
        if probe.unknown:
            return None
        self.literal_floats += probe.literal_floats
        self.literals += probe.literals
        return v

    def _helper(self, call: ast.Call):
        """value of a call of a plain function of the package whose body is straight-line (assignments and one return,
        validation preambles apart): the body evaluated with the parameters bound to the arguments - positional, keyword
        and keyword-only alike, defaults for the rest.  None when the callee is not such a function."""
        if self.depth > 4 or not isinstance(call.func, ast.Name):
            return None
        r = self._resolve(call.func.id)
        if r is None or r[0] != 'func':
            return None
        g: FuncInfo = r[1]
        a = g.node.args
        if g.node.decorator_list or a.vararg or a.kwarg or isinstance(g.node, ast.AsyncFunctionDef):
            return None
        if any(isinstance(x, ast.Starred) for x in call.args) or any(k.arg is None for k in call.keywords):
            return None
        if any(isinstance(x, (ast.Yield, ast.YieldFrom, ast.Global, ast.Nonlocal)) for x in ast.walk(g.node)):
            return None
        pos = [x.arg for x in a.posonlyargs + a.args]
        if len(call.args) > len(pos):
            return None
        bound: dict[str, ast.expr] = dict(zip(pos, call.args))
        allowed_kw = {x.arg for x in a.args + a.kwonlyargs}
        for k in call.keywords:
            if k.arg not in allowed_kw or k.arg in bound:
                return None
            bound[k.arg] = k.value
        env = {p: self.ev(v) for p, v in bound.items()}
        defaults = dict(zip(pos[len(pos) - len(a.defaults):], a.defaults))
        defaults.update({x.arg: dflt for x, dflt in zip(a.kwonlyargs, a.kw_defaults) if dflt is not None})
        for p in pos + [x.arg for x in a.kwonlyargs]:
            if p in env:
                continue
            if p not in defaults:
                return None
            probe = self._probe(g)
            env[p] = probe.ev(defaults[p])
            if probe.unknown:
                raise AnalysisError(f'{g.file}:{g.line}: default of {p} not understood')
            self.literal_floats += probe.literal_floats
            self.literals += probe.literals
        d = self._sub(g, env)
        if d.ret is None:
            raise AnalysisError(f'{g.file}:{g.line}: {g.name} returns nothing that is understood')
        return d.ret


class _At:
    """a function seen from another module (names of a module-level constant are resolved where the constant is written)"""

    def __init__(self, f: FuncInfo, module):
        self.file, self.name, self.module, self.line = module.path, f.name, module, f.line
