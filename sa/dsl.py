"""Straight-line specification helpers -> sympy (formula normal form).

The body of a helper such as distributions.normalpdf is a sequence of
assignments of expression-DSL terms followed by a return.  It is translated,
statement by statement, into one sympy expression over the parameters of the
helper; comparisons become indicator atoms.  Validation preambles (try/except
around get_value, `if ...: raise`) are skipped.  Nothing is executed.
"""

from __future__ import annotations

import ast

import sympy as sp

from .core import AnalysisError, FuncInfo, dotted, unparse
from .sym import num

LT, LE, GT, GE, EQ, NE = (sp.Function(n) for n in ('LT', 'LE', 'GT', 'GE', 'EQ', 'NE'))
ELEM = sp.Function('ELEM')
CMP = {'Lt': LT, 'LtE': LE, 'Gt': GT, 'GtE': GE, 'Eq': EQ, 'NotEq': NE}


def indicator(op: str, a, b):
    """canonical orientation: x > a  ==  a < x"""
    if op == 'Gt':
        return LT(b, a)
    if op == 'GtE':
        return LE(b, a)
    return CMP[op](a, b)


class Dsl:
    def __init__(self, f: FuncInfo, consts: dict[float, sp.Expr] | None = None):
        self.f = f
        self.consts = consts or {}
        self.env: dict[str, sp.Expr] = {p: sp.Symbol(p, real=True) for p in f.positional_params()}
        self.ret: sp.Expr | None = None
        self.literal_floats: list[float] = []
        self.run(f.explicit_body)

    def run(self, stmts):
        for st in stmts:
            if isinstance(st, ast.Expr) and isinstance(st.value, ast.Constant):
                continue
            if isinstance(st, ast.Try):
                continue  # value probing for the argument checks
            if isinstance(st, ast.If):
                if all(isinstance(x, (ast.Raise, ast.Assign, ast.If, ast.Expr)) for x in st.body) and any(isinstance(x, ast.Raise) for x in ast.walk(st)):
                    continue
                if any('logger.' in unparse(x) for x in st.body):
                    continue
                raise AnalysisError(f'{self.f.file}:{st.lineno}: conditional in {self.f.name} not understood')
            if isinstance(st, ast.Assign) and len(st.targets) == 1 and isinstance(st.targets[0], ast.Name):
                self.env[st.targets[0].id] = self.ev(st.value)
                continue
            if isinstance(st, ast.Return):
                self.ret = self.ev(st.value)
                return
            raise AnalysisError(f'{self.f.file}:{st.lineno}: statement of {self.f.name} not understood: {unparse(st)[:60]}')

    def ev(self, e: ast.expr) -> sp.Expr:
        if isinstance(e, ast.Constant):
            if isinstance(e.value, (int, float)) and not isinstance(e.value, bool):
                v = float(e.value)
                if isinstance(e.value, float):
                    self.literal_floats.append(v)
                for c, s in self.consts.items():
                    if abs(v - c) <= 5e-10 * max(1.0, abs(c)):
                        return s
                return sp.nsimplify(num(e.value))
            raise AnalysisError(f'constant {e.value!r}')
        if isinstance(e, ast.Name):
            if e.id in self.env:
                return self.env[e.id]
            raise AnalysisError(f'{self.f.file}:{e.lineno}: unknown name {e.id} in {self.f.name}')
        if isinstance(e, ast.UnaryOp) and isinstance(e.op, ast.USub):
            return -self.ev(e.operand)
        if isinstance(e, ast.BinOp):
            l, r = self.ev(e.left), self.ev(e.right)
            op = type(e.op).__name__
            return {'Add': lambda: l + r, 'Sub': lambda: l - r, 'Mult': lambda: l * r, 'Div': lambda: l / r, 'Pow': lambda: l**r}[op]()
        if isinstance(e, ast.Compare) and len(e.ops) == 1:
            return indicator(type(e.ops[0]).__name__, self.ev(e.left), self.ev(e.comparators[0]))
        if isinstance(e, ast.Call):
            name = (dotted(e.func) or '').split('.')[-1]
            if name in ('validate_and_convert', 'Numeric') and len(e.args) == 1:
                return self.ev(e.args[0])
            if name == 'exp':
                return sp.exp(self.ev(e.args[0]))
            if name in ('log',):
                return sp.log(self.ev(e.args[0]))
            if name == 'bioMultSum' and isinstance(e.args[0], ast.List):
                return sp.Add(*[self.ev(x) for x in e.args[0].elts])
            if name == 'Elem' and isinstance(e.args[0], ast.Dict):
                items = []
                for k, v in zip(e.args[0].keys, e.args[0].values):
                    items += [self.ev(k), self.ev(v)]
                return ELEM(self.ev(e.args[1]), *items)
            if name == 'MonteCarlo':
                return sp.Function('MC')(self.ev(e.args[0]))
            r = self.f.module
            return sp.Function(name)(*[self.ev(a) for a in e.args])
        raise AnalysisError(f'{self.f.file}:{getattr(e, "lineno", 0)}: expression of {self.f.name} not understood: {unparse(e)[:60]}')
