"""Homogeneity typing of the MEV builders ("units of measure").

Every expression is given a sort

* ``Const``                - does not depend on the utilities,
* ``Hom(d)``               - a function of y = exp(V) that is positively homogeneous of degree d,
* ``LogHom(d)``            - the logarithm of one,
* ``Unknown``              - the typing cannot tell (a name whose definition it does not see, a call of a function it does not
                             know): everything computed from it is Unknown too; an Unknown is never a degree clash,
* ``Map``                  - the dictionary of utilities / of availabilities itself (the parameter or an alias of it),

where ``d`` is a sympy expression in the symbols ``mu`` (scale of the model)
and ``mu_m`` (scale of the current nest).  Sums need equal degrees, products
add, powers multiply, ``exp``/``log`` switch sort.  A symbolic *term* (sympy)
is carried along for the formula rules.  Loops are interpreted once with a
generic element; containers hold the join of what is stored into them.
"""

from __future__ import annotations

import ast
from dataclasses import dataclass, field
from typing import NamedTuple

import sympy as sp

from .core import FuncInfo, dotted, unparse
from .sym import num

MU = sp.Symbol('mu', positive=True)
MUM = sp.Symbol('mu_m', positive=True)
V = sp.Symbol('V', real=True)
A = sp.Symbol('av', positive=True)
ALPHA = sp.Symbol('alpha', positive=True)
SUM = sp.Function('SUM')
CSUM = sp.Function('CSUM')
LOGZERO = sp.Function('logzero')


class TypeErr(Exception):
    """a statement the typing cannot type.  `clash`: two typed terms of different degrees meet; `var`: the local container
    whose entries clash ('' when the clash is in an actual sum: `a + b`, bioMultSum of the entries)"""

    def __init__(self, msg: str, clash: bool = False, var: str = ''):
        super().__init__(msg)
        self.clash = clash
        self.var = var


class Finding(NamedTuple):
    line: int
    msg: str
    #: True: typed terms of different degrees meet (anything else is a statement the typing does not understand)
    clash: bool = False
    #: the container whose entries have different degrees; '' when the terms are summed (the clash is then a fact about a sum)
    var: str = ''


def terms_equal(a: sp.Expr | None, b: sp.Expr | None) -> bool | None:
    """True: the two terms are the same function (sympy normal form, or equal values at three generic points when sympy does
    not find the normal form); False: they take different values at a generic point; None: cannot tell.  SUM / CSUM / logzero
    are uninterpreted: equal arguments give equal values, logzero is not log."""
    import random

    if a is None or b is None:
        return None
    try:
        d = sp.simplify(a - b)
        if d == 0:
            return True
        d = sp.simplify(sp.expand(sp.expand_log(a - b, force=True)))
        if d == 0:
            return True
    except Exception:  # noqa
        pass
    try:
        syms = sorted((a.free_symbols | b.free_symbols), key=lambda x: x.name)
        outcome = []
        for seed in (11, 23, 47):
            rnd = random.Random(seed)
            vals = {x: sp.Float(rnd.uniform(0.6, 1.9)) for x in syms}

            def conc(e):
                e = e.replace(SUM, lambda x: 1.7 * x + sp.Float(0.31))
                e = e.replace(CSUM, lambda x: 2.3 * x + sp.Float(0.17))
                e = e.replace(LOGZERO, lambda x: sp.log(x) + sp.Float(0.37))
                return complex(sp.N(e.subs(vals)))

            x, y = conc(a), conc(b)
            outcome.append(abs(x - y) <= 1e-9 * max(1.0, abs(x), abs(y)))
        if all(outcome):
            return True
        if not any(outcome):
            return False
    except Exception:  # noqa
        return None
    return None


@dataclass
class AV:
    kind: str  # Const | Hom | LogHom | Unknown | Map
    deg: sp.Expr | None = None  # for Const: its value when known
    term: sp.Expr | None = None
    nullable: bool = False  # carries a user-supplied factor (alpha) that may be exactly zero
    ref: str = ''  # for Map: 'util' | 'avail'
    clash: str = ''  # for Unknown: the entries of this container have different degrees (a fact only once they are summed)

    def __repr__(self):
        return f'{self.kind}({sp.simplify(self.deg) if self.deg is not None else ""})'


def C(v=None, term=None):
    return AV('Const', v, term if term is not None else v)


def H(d, term=None):
    return AV('Hom', sp.simplify(d), term)


def L(d, term=None):
    return AV('LogHom', sp.simplify(d), term)


def U() -> AV:
    """a value the typing knows nothing about"""
    return AV('Unknown')


def is_unknown(*vals: 'AV | None') -> bool:
    return any(v is not None and v.kind in ('Unknown', 'Map') for v in vals)


def as_log(a: AV) -> AV:
    if a.kind == 'LogHom':
        return a
    if a.kind == 'Const':
        return L(0, a.term)
    if a.kind in ('Unknown', 'Map'):
        raise TypeErr(f'{a} is not typed')
    raise TypeErr(f'{a} used additively among log-terms')


def as_hom(a: AV) -> AV:
    if a.kind == 'Hom':
        return a
    if a.kind == 'Const':
        return H(0, a.term)
    if a.kind in ('Unknown', 'Map'):
        raise TypeErr(f'{a} is not typed')
    raise TypeErr(f'{a} used as a function of y')


@dataclass
class Binding:
    line: int
    source: str  # text of the innermost loop iterable (which alternatives this entry is for)
    value: AV
    text: str = ''
    loops: tuple = ()
    accumulates: bool = False  # stored with append / += (the number of executions matters), not by assignment to a key
    key: str = ''  # text of the key, for an item assignment d[key] = value


def join(vals: list[AV], ctx: str) -> AV | None:
    vals = [v for v in vals if v is not None]
    if not vals:
        return None
    unknown = is_unknown(*vals)
    vals = [v for v in vals if not is_unknown(v)]
    if not vals:
        return U()
    if unknown:
        # a clash among the typed entries stands; otherwise the join of typed and untyped entries is untyped
        join(vals, ctx)
        return U()
    if all(v.kind == 'Const' for v in vals):
        out = C(term=vals[0].term)
        out.nullable = all(v.nullable for v in vals)
        return out
    if any(v.kind == 'LogHom' for v in vals):
        conv, mk = as_log, L
    else:
        conv, mk = as_hom, H
    ds = [conv(v).deg for v in vals]
    for d in ds[1:]:
        if sp.simplify(d - ds[0]) != 0:
            raise TypeErr(f'{ctx}: degrees differ: {[str(sp.simplify(x)) for x in ds]}', clash=True)
    out = mk(ds[0], vals[0].term)
    out.nullable = all(v.nullable for v in vals)
    return out


def _is_empty_literal(e: ast.AST) -> bool:
    if isinstance(e, (ast.Tuple, ast.List, ast.Set)) and not e.elts:
        return True
    if isinstance(e, ast.Dict) and not e.keys:
        return True
    return isinstance(e, ast.Call) and isinstance(e.func, ast.Name) and e.func.id in ('tuple', 'list', 'dict', 'set', 'frozenset') and not e.args and not e.keywords


def none_test(t: ast.AST) -> tuple[str, bool] | None:
    """(text of X, True when the test says X is None) for `X is None`, `X is not None`, `None is X`, `not X is None`, ..."""
    if isinstance(t, ast.UnaryOp) and isinstance(t.op, ast.Not):
        r = none_test(t.operand)
        return (r[0], not r[1]) if r else None
    if isinstance(t, ast.Compare) and len(t.ops) == 1 and isinstance(t.ops[0], (ast.Is, ast.IsNot, ast.Eq, ast.NotEq)):
        a, b = t.left, t.comparators[0]
        if isinstance(a, ast.Constant) and a.value is None:
            a, b = b, a
        if isinstance(b, ast.Constant) and b.value is None:
            return unparse(a), isinstance(t.ops[0], (ast.Is, ast.Eq))
    return None


def iterated(it: ast.expr) -> ast.expr:
    """the collection a loop runs over, without the wrappers that yield the same elements the same number of times:
    iter(X), list(X), tuple(X), sorted(X), reversed(X) iterate X; `X or ()` iterates X when X is not None (and nothing when X
    is None or empty, which is what iterating an empty X does); `X if X is not None else ()` likewise.  Anything else is left
    as it is written (and will be classified 'unknown' by the rules unless it is one of the collections they know)."""
    while True:
        if isinstance(it, ast.Call) and isinstance(it.func, ast.Name) and it.func.id in ('iter', 'list', 'tuple', 'sorted', 'reversed') and len(it.args) == 1 \
                and not it.keywords and not isinstance(it.args[0], ast.Starred):
            it = it.args[0]
            continue
        if isinstance(it, ast.BoolOp) and isinstance(it.op, ast.Or) and len(it.values) == 2 and _is_empty_literal(it.values[1]):
            it = it.values[0]
            continue
        if isinstance(it, ast.IfExp):
            r = none_test(it.test)
            if r is not None:
                x, empty = (it.orelse, it.body) if r[1] else (it.body, it.orelse)
                if unparse(x) == r[0] and _is_empty_literal(empty):
                    it = x
                    continue
        return it


class Interp:
    def __init__(self, f: FuncInfo):
        self.f = f
        ps = f.positional_params()
        self.util = ps[0] if ps else 'util'
        self.avail = ps[1] if len(ps) > 1 else 'availability'
        self.mu = 'mu' if 'mu' in ps else None
        self.nests = 'nests' if 'nests' in ps else (ps[2] if len(ps) > 2 else 'nests')
        #: value of every list comprehension evaluated, by identity of the node (and by position/text as a fallback)
        self.comp_values: dict = {}
        self._helper_depth = 0
        self.env: dict[str, AV | None] = {}
        self.bindings: dict[str, list[Binding]] = {}
        self.findings: list[Finding] = []
        self.ret: AV | None = None
        self.ret_name: str | None = None
        self._loops: list[str] = []
        #: names bound by the enclosing loops / comprehensions (parallel to _loops)
        self._loop_vars: list[set[str]] = []
        #: local names that hold a list / dict (assigned a display, a comprehension, list() / dict()), with the loops under which
        #: they were (last) initialised
        self.containers: dict[str, tuple] = {}
        self.log_of_nullable: list[tuple[int, str]] = []

    def _loop_name(self, it: ast.expr) -> str:
        """the iterable of a loop, with single-definition locals of the function looked through (`alone = nests.alone`) and the
        wrappers that iterate the same elements removed (see iterated())"""
        from .core import inline_locals

        raw = iterated(it)
        base = raw.func.value if isinstance(raw, ast.Call) and isinstance(raw.func, ast.Attribute) and raw.func.attr in ('items', 'keys', 'values') and not raw.args else raw
        if isinstance(base, ast.Name) and base.id in self.bindings:
            # a dictionary / list the function has filled: named, not replaced by its (empty) initial value
            return unparse(raw)
        try:
            return unparse(iterated(inline_locals(self.f.node, it)))
        except Exception:  # noqa
            return unparse(iterated(it))

    def loop_class(self, text: str) -> str:
        """what a loop (text given by _loop_name) runs over: 'nests' (the nests), 'alone' (the alternatives in no nest),
        'members' (the alternatives of one nest), 'entries' (the items of a local dictionary the function has filled), or
        'unknown' - the typing cannot tell how many times, and for which alternatives, the body runs"""
        import re

        if text == self.nests:
            return 'nests'
        if text == f'{self.nests}.alone':
            return 'alone'
        if re.fullmatch(r'\w+\.(list_of_alternatives|dict_of_alpha|dict_of_alpha\.(items|keys)\(\))', text):
            return 'members'
        m = re.fullmatch(r'(\w+)(\.(items|keys|values)\(\))?', text)
        if m and m.group(1) in self.bindings:
            return 'entries'
        return 'unknown'

    def loop_classes(self, loops) -> tuple:
        return tuple(self.loop_class(x) for x in self.effective_loops(loops))

    def effective_loops(self, loops) -> tuple:
        """a single top-level loop over a local list that one append statement has filled (list initialised empty at top
        level, never stored into otherwise) runs once per execution of that append: it stands for the loops the append is
        under.  Any other loop over a local container is left as it is (class 'entries': the rules cannot count it)."""
        import re

        loops = tuple(loops)
        for _ in range(3):
            if len(loops) != 1:
                break
            m = re.fullmatch(r'\w+', loops[0])
            if not m or loops[0] not in self.bindings or self.containers.get(loops[0]) != ():
                break
            bs = self.bindings[loops[0]]
            if len(bs) != 1 or not bs[0].accumulates or not re.match(rf'{loops[0]}\.append\(', bs[0].text) or not bs[0].loops:
                break
            loops = bs[0].loops
        return loops

    # ---- expressions
    def ev(self, n: ast.AST) -> AV | None:
        if isinstance(n, ast.Constant):
            if isinstance(n.value, (int, float)) and not isinstance(n.value, bool):
                v = sp.nsimplify(num(n.value))
                return C(v, v)
            return C()
        if isinstance(n, ast.JoinedStr):
            return C()
        if isinstance(n, ast.Name):
            if n.id == self.mu and n.id not in self.env:
                return C(MU, MU)
            if n.id in self.env:
                return self.env[n.id]
            if n.id == self.util:
                return AV('Map', ref='util')
            if n.id == self.avail:
                return AV('Map', ref='avail')
            # a constant of the module
            mv = self.f.module.assigns.get(n.id)
            if mv is not None and isinstance(mv, (ast.Constant, ast.UnaryOp, ast.BinOp)) and not any(isinstance(x, (ast.Name, ast.Call)) for x in ast.walk(mv)):
                return self.ev(mv)
            # a name the typing has no definition for: neither a constant nor a function of the utilities
            return U()
        if isinstance(n, ast.Attribute):
            if n.attr == 'nest_param':
                return C(MUM, MUM)
            return U()
        if isinstance(n, ast.Subscript):
            return self._subscript(n)
        if isinstance(n, ast.UnaryOp):
            v = self.ev(n.operand)
            if is_unknown(v):
                return U()
            if isinstance(n.op, ast.USub) and v is not None:
                if v.kind == 'Const':
                    return C(-v.deg if v.deg is not None else None, -v.term if v.term is not None else None)
                if v.kind == 'LogHom':
                    return L(-v.deg, -v.term if v.term is not None else None)
                return U()
            if isinstance(n.op, ast.UAdd):
                return v
            return U()
        if isinstance(n, ast.Compare):
            return C(None, sp.Symbol('cond'))
        if isinstance(n, ast.BinOp):
            return self.binop(n)
        if isinstance(n, ast.Call):
            return self.call(n)
        if isinstance(n, ast.ListComp):
            self._enter_loop(n.generators[0].target, n.generators[0].iter)
            try:
                v = self.ev(n.elt) if len(n.generators) == 1 and not n.generators[0].ifs else U()
                self.comp_values[id(n)] = v
                self.comp_values[(n.lineno, n.col_offset, unparse(n))] = v
                return v
            finally:
                self._exit_loop()
        if isinstance(n, ast.DictComp):
            self._enter_loop(n.generators[0].target, n.generators[0].iter)
            try:
                return self.ev(n.value) if len(n.generators) == 1 and not n.generators[0].ifs else U()
            finally:
                self._exit_loop()
        if isinstance(n, (ast.List, ast.Dict)):
            parts = n.elts if isinstance(n, ast.List) else n.values
            if not parts:
                return None
            if any(isinstance(e, ast.Starred) or e is None for e in parts):
                return U()
            try:
                return join([self.ev(e) for e in parts], f'line {n.lineno}')
            except TypeErr as e:
                if not e.clash:
                    raise
                # a display whose entries have different degrees (a record {'sum': s, 'exponent': 1 / mu_m}) is not a clash
                # until its entries are summed
                return AV('Unknown', clash=str(e))
        return U()

    def _map_of(self, base: ast.AST) -> str:
        """'util' / 'avail' when base denotes the dictionary of utilities / availabilities (the parameter, an alias held in
        the environment, or a single-definition local that resolves to it), else ''"""
        if isinstance(base, ast.Name):
            v = self.ev(base)
            if v is not None and v.kind == 'Map':
                return v.ref
            if base.id in self.env:
                return ''
        from .core import inline_locals

        try:
            t = unparse(inline_locals(self.f.node, base))
        except Exception:  # noqa
            t = unparse(base)
        if t == self.util and self.util not in self.env:
            return 'util'
        if t == self.avail and self.avail not in self.env:
            return 'avail'
        return ''

    def _subscript(self, n: ast.Subscript) -> AV | None:
        ref = self._map_of(n.value)
        if ref in ('util', 'avail'):
            # V / av stand for the utility / availability of the alternative the enclosing loop is at: util[<anything else>]
            # (a fixed alternative, the first of the nest) is another quantity, which the typing has no symbol for
            if not self._is_loop_index(n.slice):
                return U()
            return L(1, V) if ref == 'util' else C(None, A)
        base = unparse(n.value)
        if base in self.env:
            v = self.env[base]
            # an element of a container the function has filled: the join of what was stored
            return v if v is not None else U()
        if base.endswith('.dict_of_alpha'):
            a = C(None, ALPHA)
            a.nullable = True
            return a
        return U()

    def _enter_loop(self, target: ast.AST, it: ast.AST) -> None:
        self._loops.append(self._loop_name(it))
        self._loop_vars.append({x.id for x in ast.walk(target) if isinstance(x, ast.Name)})
        self._bind_target(target, it)

    def _exit_loop(self) -> None:
        self._loops.pop()
        self._loop_vars.pop()

    def _is_loop_index(self, idx: ast.AST) -> bool:
        """the subscript is a variable of an enclosing loop / comprehension (the alternative the loop is at), possibly through
        a single-definition local"""
        from .core import inline_locals

        if not isinstance(idx, ast.Name):
            return False
        if any(idx.id in vs for vs in self._loop_vars):
            return True
        if idx.id in self.env:
            return False
        try:
            r = inline_locals(self.f.node, idx)
        except Exception:  # noqa
            return False
        return isinstance(r, ast.Name) and any(r.id in vs for vs in self._loop_vars)

    def _bind_target(self, target: ast.AST, it: ast.AST) -> None:
        """loop variables: alpha of a cross-nested nest is a positive constant; the values of a dictionary the function knows"""
        from .core import inline_locals

        try:
            # `alphas = m.dict_of_alpha` ... `for i, a in alphas.items()`
            t = unparse(inline_locals(self.f.node, it))
        except Exception:  # noqa
            t = unparse(it)
        names = [x.id for x in ast.walk(target) if isinstance(x, ast.Name)]
        for nm in names:
            # a loop variable hides an earlier local of the same name
            self.env.pop(nm, None)
        meth = it.func.attr if isinstance(it, ast.Call) and isinstance(it.func, ast.Attribute) and not it.args and not it.keywords else None
        val_name = None
        if isinstance(target, ast.Tuple) and len(target.elts) == 2 and meth == 'items' and isinstance(target.elts[1], ast.Name):
            val_name = target.elts[1].id
        elif isinstance(target, ast.Name) and meth == 'values':
            val_name = target.id
        if val_name is None:
            # the elements of a local list the function has filled with append / += [..]
            src = iterated(it)
            if isinstance(target, ast.Name) and isinstance(src, ast.Name) and src.id in self.bindings and all(b.accumulates for b in self.bindings[src.id]) \
                    and self.env.get(src.id) is not None:
                self.env[target.id] = self.env[src.id]
            return
        if t.endswith('dict_of_alpha.items()') or t.endswith('dict_of_alpha.values()'):
            a = C(None, ALPHA)
            a.nullable = True
            self.env[val_name] = a
            return
        ref = self._map_of(it.func.value)
        if ref == 'util':
            self.env[val_name] = L(1, V)
        elif ref == 'avail':
            self.env[val_name] = C(None, A)
        else:
            base = unparse(it.func.value)
            if base in self.env and self.env[base] is not None:
                self.env[val_name] = self.env[base]

    def binop(self, n: ast.BinOp) -> AV:
        out = self._binop(n)
        l, r = self.ev(n.left), self.ev(n.right)
        op = type(n.op).__name__
        if op == 'Mult':
            out.nullable = bool(l.nullable or r.nullable)
        elif op == 'Pow' or op == 'Div':
            out.nullable = bool(l.nullable)
        elif op in ('Add', 'Sub'):
            out.nullable = bool(l.nullable and r.nullable)
        return out

    def _binop(self, n: ast.BinOp) -> AV:
        l, r = self.ev(n.left), self.ev(n.right)
        op = type(n.op).__name__
        if l is None or r is None:
            raise TypeErr(f'line {n.lineno}: empty operand')
        if is_unknown(l, r):
            return U()
        lt, rt = l.term, r.term
        term = None
        if lt is not None and rt is not None:
            try:
                term = {'Add': lambda: lt + rt, 'Sub': lambda: lt - rt, 'Mult': lambda: lt * rt, 'Div': lambda: lt / rt, 'Pow': lambda: lt**rt}[op]()
            except Exception:
                term = None
        if l.kind == 'Const' and r.kind == 'Const':
            if l.deg is not None and r.deg is not None:
                return C(term, term)
            return C(None, term)
        if op in ('Add', 'Sub'):
            if 'LogHom' in (l.kind, r.kind):
                a, b = as_log(l), as_log(r)
                return L(a.deg + b.deg if op == 'Add' else a.deg - b.deg, term)
            a, b = as_hom(l), as_hom(r)
            if sp.simplify(a.deg - b.deg) != 0:
                raise TypeErr(f'line {n.lineno}: sum of terms of degrees {sp.simplify(a.deg)} and {sp.simplify(b.deg)}', clash=True)
            return H(a.deg, term)
        if op == 'Mult':
            if l.kind == 'Const' and r.kind == 'LogHom':
                if l.deg is None:
                    raise TypeErr(f'line {n.lineno}: unknown constant times a log-term')
                return L(l.deg * r.deg, term)
            if r.kind == 'Const' and l.kind == 'LogHom':
                if r.deg is None:
                    raise TypeErr(f'line {n.lineno}: unknown constant times a log-term')
                return L(l.deg * r.deg, term)
            a, b = as_hom(l), as_hom(r)
            return H(a.deg + b.deg, term)
        if op == 'Div':
            if r.kind == 'Const' and l.kind == 'LogHom' and r.deg is not None:
                return L(l.deg / r.deg, term)
            a, b = as_hom(l), as_hom(r)
            return H(a.deg - b.deg, term)
        if op == 'Pow':
            if r.kind != 'Const' or r.deg is None:
                raise TypeErr(f'line {n.lineno}: exponent is not a known constant')
            return H(as_hom(l).deg * r.deg, term)
        raise TypeErr(f'line {n.lineno}: operator {op}')

    def call(self, n: ast.Call) -> AV | None:
        f = (dotted(n.func) or unparse(n.func)).split('.')[-1]
        if any(isinstance(x, ast.Starred) for x in n.args) or any(k.arg is None for k in n.keywords):
            return U()
        if f == 'exp' and len(n.args) == 1:
            a = self.ev(n.args[0])
            if a is None or is_unknown(a):
                return U()
            return H(as_log(a).deg, sp.exp(a.term) if a.term is not None else None)
        if f in ('log', 'logzero') and len(n.args) == 1:
            a = self.ev(n.args[0])
            if a is None or is_unknown(a):
                return U()
            if a.nullable:
                self.log_of_nullable.append((n.lineno, f))
            t = (sp.log(a.term) if f == 'log' else LOGZERO(a.term)) if a.term is not None else None
            if a.kind == 'Const':
                return C(sp.log(a.deg) if a.deg is not None else None, t)
            return L(as_hom(a).deg, t)
        if f == 'Numeric' and len(n.args) == 1 and not n.keywords:
            return self.ev(n.args[0])
        if f in ('float', 'int') and len(n.args) == 1 and not n.keywords:
            # the conversion of a number; of anything else (an expression, a parameter) it is not the identity
            a = self.ev(n.args[0])
            if a is not None and a.kind == 'Const' and a.deg is not None and getattr(a.deg, 'is_number', False) and (f == 'float' or a.deg.is_integer):
                return a
            return U()
        if f in ('bioMultSum', 'ConditionalSum') and (n.args or n.keywords):
            arg = n.args[0] if n.args else n.keywords[0].value
            v = self.ev(arg)
            if v is None:
                # the sum of a list the typing has seen nothing stored into
                return U()
            if is_unknown(v):
                if v.clash:
                    raise TypeErr(f'line {n.lineno}: {f} of terms of different degrees: {v.clash}', clash=True)
                return U()
            t = (SUM if f == 'bioMultSum' else CSUM)(v.term) if v.term is not None else None
            if v.kind == 'Const':
                out = C(None, t)
            else:
                out = H(as_hom(v).deg, t)
            out.nullable = bool(v.nullable)
            return out
        if f == 'ConditionalTermTuple':
            term = next((k.value for k in n.keywords if k.arg == 'term'), n.args[1] if len(n.args) > 1 else None)
            return self.ev(term) if term is not None else U()
        if f == 'len':
            return C()
        # a function of the same module whose body is a single returned expression (single-definition locals allowed): its
        # value is that expression with the arguments in place of the parameters
        e = self._helper_body(n)
        if e is not None and self._helper_depth < 4:
            self._helper_depth += 1
            try:
                return self.ev(e)
            finally:
                self._helper_depth -= 1
        # any other call: the typing does not know what it computes (it is NOT a constant)
        return U()

    def _helper_body(self, n: ast.Call) -> ast.expr | None:
        import copy

        from .core import inline_locals, strip_docstring

        if not isinstance(n.func, ast.Name) or any(isinstance(x, ast.Starred) for x in n.args) or any(k.arg is None for k in n.keywords):
            return None
        g = self.f.module.functions.get(n.func.id)
        if g is None or g is self.f or n.func.id in self.env:
            return None
        a = g.node.args
        if a.vararg or a.kwarg or a.kwonlyargs or g.node.decorator_list:
            return None
        body = strip_docstring(g.node.body)
        if not body or not isinstance(body[-1], ast.Return) or body[-1].value is None:
            return None
        for st in body[:-1]:
            if not (isinstance(st, ast.Assign) and len(st.targets) == 1 and isinstance(st.targets[0], ast.Name)) and not (isinstance(st, ast.AnnAssign) and isinstance(st.target, ast.Name) and st.value is not None):
                return None
        params = [x.arg for x in a.posonlyargs + a.args]
        if len(n.args) > len(params):
            return None
        bound: dict[str, ast.expr] = dict(zip(params, n.args))
        for k in n.keywords:
            if k.arg not in params or k.arg in bound:
                return None
            bound[k.arg] = k.value
        defaults = dict(zip(params[len(params) - len(a.defaults):], a.defaults))
        for p_ in params:
            if p_ not in bound:
                if p_ not in defaults:
                    return None
                bound[p_] = defaults[p_]
        try:
            e = inline_locals(g.node, body[-1].value)
        except Exception:  # noqa
            return None
        # every local of the helper must have been resolved; the remaining names are parameters or module-level names
        local_names = {t.id for st in body[:-1] for t in ([st.targets[0]] if isinstance(st, ast.Assign) else [st.target])}
        if any(isinstance(x, ast.Name) and x.id in local_names for x in ast.walk(e)):
            return None
        if any(isinstance(x, (ast.Lambda, ast.ListComp, ast.DictComp, ast.SetComp, ast.GeneratorExp)) for x in ast.walk(e)):
            return None
        # a module-level name read by the helper must not be mistaken for a local or a parameter of the caller
        callees = {id(x.func) for x in ast.walk(e) if isinstance(x, ast.Call)}
        mine = set(self.env) | set(self.f.params())
        if any(isinstance(x, ast.Name) and id(x) not in callees and x.id not in bound and x.id in mine for x in ast.walk(e)):
            return None

        class Sub(ast.NodeTransformer):
            def visit_Name(self, node):
                if isinstance(node.ctx, ast.Load) and node.id in bound:
                    return copy.deepcopy(bound[node.id])
                return node

        return ast.fix_missing_locations(Sub().visit(copy.deepcopy(e)))

    # ---- statements
    @staticmethod
    def _fused(stmts) -> list:
        """`d[k] = a` directly followed by `d[k] op= b` (arithmetic, b not a list) is the single store `d[k] = a op b`: the
        entry is typed once, with its final value"""
        out: list = []
        for st in stmts:
            prev = out[-1] if out else None
            if isinstance(st, ast.AugAssign) and isinstance(st.target, ast.Subscript) and isinstance(st.op, (ast.Add, ast.Sub, ast.Mult, ast.Div, ast.Pow)) \
                    and not isinstance(st.value, (ast.List, ast.ListComp, ast.Tuple, ast.Dict, ast.Set)) \
                    and isinstance(prev, ast.Assign) and len(prev.targets) == 1 and isinstance(prev.targets[0], ast.Subscript) \
                    and ast.dump(prev.targets[0].value) == ast.dump(st.target.value) and ast.dump(prev.targets[0].slice) == ast.dump(st.target.slice) \
                    and not any(isinstance(x, (ast.Call, ast.NamedExpr)) for x in ast.walk(st.target)):
                new = ast.Assign(targets=prev.targets, value=ast.copy_location(ast.BinOp(left=prev.value, op=st.op, right=st.value), st), type_comment=None)
                out[-1] = ast.copy_location(new, st)
                continue
            out.append(st)
        return out

    def run(self, stmts) -> None:
        for st in self._fused(stmts):
            try:
                self.stmt(st)
            except TypeErr as e:
                self.findings.append(Finding(st.lineno, str(e), e.clash, e.var))

    def bind(self, name: str, v: AV | None, st: ast.stmt, accumulates: bool | None = None) -> None:
        if v is None:
            return
        src = self._loops[-1] if self._loops else ''
        if accumulates is None:
            accumulates = isinstance(st, (ast.AugAssign, ast.Expr))
        self.bindings.setdefault(name, []).append(Binding(st.lineno, src, v, unparse(st)[:200], tuple(self._loops), accumulates=accumulates))
        old = self.env.get(name)
        try:
            new = v if old is None else join([old, v], f'line {st.lineno}: entries of {name}')
        except TypeErr as e:
            if e.clash:
                # entries of different degrees in one container: a contradiction only if the container is summed (the sum then
                # raises the clash) or is the result of the function (the rules look at `var`)
                self.env[name] = AV('Unknown', clash=str(e))
                raise TypeErr(str(e), clash=True, var=name) from None
            self.env[name] = old
            raise
        if old is not None and old.clash and new is not v and new.kind == 'Unknown':
            new.clash = old.clash
        self.env[name] = new

    def _is_container(self, name: str) -> bool:
        return name in self.bindings or name in self.containers

    @staticmethod
    def _is_container_value(e: ast.AST) -> bool:
        if isinstance(e, (ast.List, ast.Dict, ast.Set, ast.Tuple, ast.ListComp, ast.DictComp, ast.SetComp)):
            return True
        return isinstance(e, ast.Call) and isinstance(e.func, ast.Name) and e.func.id in ('list', 'dict', 'set', 'tuple', 'defaultdict', 'OrderedDict')

    def _avail_none_test(self, test: ast.AST) -> bool | None:
        """True: the test says the availabilities are None; False: that they are not; None: another test (or the parameter has
        been assigned, so that the test is not about the argument)"""
        r = none_test(test)
        if r is None or r[0] != self.avail or self.avail in self.env:
            return None
        return r[1]

    def _run_unavailable_world(self, stmts) -> None:
        """statements that run only when no availabilities are given: typed (findings, values of the comprehensions, what
        they store into containers) but the scalar locals they assign are not carried on - the rest of the function is typed
        for the case where availabilities are given, whichever way round the two cases are written (if/else, two ifs)"""
        saved = dict(self.env)
        self.run(stmts)
        for k in list(self.env):
            if self._is_container(k):
                continue
            if k in saved:
                self.env[k] = saved[k]
            else:
                del self.env[k]

    def stmt(self, st: ast.stmt) -> None:
        from .normal import as_loop

        # comprehension statements of the normal form are read as the loops they stand for
        if not (isinstance(st, ast.Assign) and isinstance(st.value, (ast.ListComp, ast.DictComp, ast.SetComp)) and len(st.value.generators) == 1 and isinstance(st.targets[0], ast.Name)):
            lp = as_loop(st)
            if lp is not None:
                for x in lp:
                    self.stmt(x)
                return
        if isinstance(st, ast.Assign):
            t = st.targets[0]
            if isinstance(t, ast.Name):
                if isinstance(st.value, (ast.DictComp, ast.ListComp)):
                    self.env[t.id] = None
                    self.containers[t.id] = tuple(self._loops)
                    self._enter_loop(st.value.generators[0].target, st.value.generators[0].iter)
                    try:
                        v = self.ev(st.value.value if isinstance(st.value, ast.DictComp) else st.value.elt)
                        if st.value.generators[0].ifs or len(st.value.generators) != 1:
                            v = U()
                        if isinstance(st.value, ast.ListComp):
                            self.comp_values[id(st.value)] = v
                            self.comp_values[(st.value.lineno, st.value.col_offset, unparse(st.value))] = v
                        self.bind(t.id, v, st)
                    finally:
                        self._exit_loop()
                elif isinstance(st.value, (ast.Dict, ast.List)) and not (getattr(st.value, 'keys', None) or getattr(st.value, 'elts', None)):
                    self.env[t.id] = None
                    self.containers[t.id] = tuple(self._loops)
                else:
                    if self._is_container_value(st.value):
                        self.containers[t.id] = tuple(self._loops)
                    else:
                        self.containers.pop(t.id, None)
                    self.env[t.id] = self.ev(st.value)
            elif isinstance(t, ast.Subscript):
                v = self.ev(st.value)
                self.bind(unparse(t.value), v, st)
                bs = self.bindings.get(unparse(t.value))
                if v is not None and bs:
                    bs[-1].key = unparse(t.slice)
        elif isinstance(st, ast.AnnAssign) and st.value is not None:
            v = self.ev(st.value) if not (isinstance(st.value, (ast.Dict, ast.List)) and not (getattr(st.value, 'keys', None) or getattr(st.value, 'elts', None))) else None
            if self._is_container_value(st.value):
                self.containers[unparse(st.target)] = tuple(self._loops)
            self.env[unparse(st.target)] = v
        elif isinstance(st, ast.AugAssign):
            self._aug_assign(st)
        elif isinstance(st, ast.Expr) and isinstance(st.value, ast.Call) and isinstance(st.value.func, ast.Attribute) and st.value.func.attr == 'append' \
                and len(st.value.args) == 1 and not st.value.keywords and not isinstance(st.value.args[0], ast.Starred):
            recv = st.value.func.value
            recv = recv.value if isinstance(recv, ast.Subscript) else recv
            self.bind(unparse(recv), self.ev(st.value.args[0]), st)
        elif isinstance(st, ast.Expr) and isinstance(st.value, ast.Call) and isinstance(st.value.func, ast.Attribute) and self._container_of(st.value.func.value) is not None:
            # another method of a container the function fills (update, extend, insert, setdefault, pop, clear, ...)
            name = self._container_of(st.value.func.value)
            c = st.value
            if c.func.attr == 'update' and len(c.args) == 1 and not c.keywords and isinstance(c.args[0], ast.Dict) and all(k is not None for k in c.args[0].keys) and isinstance(c.func.value, ast.Name):
                for e in c.args[0].values:
                    self.bind(name, self.ev(e), st, accumulates=False)
            elif c.func.attr == 'extend' and len(c.args) == 1 and not c.keywords and isinstance(c.args[0], ast.List) and not any(isinstance(e, ast.Starred) for e in c.args[0].elts):
                for e in c.args[0].elts:
                    self.bind(name, self.ev(e), st, accumulates=True)
            elif c.func.attr in ('copy', 'keys', 'values', 'items', 'get', 'index', 'count'):
                pass
            else:
                # what it stores (or removes) is not read: the content of the container is no longer what the typing has seen
                self.bind(name, U(), st, accumulates=True)
        elif isinstance(st, ast.Delete) and any(isinstance(t, ast.Subscript) and self._container_of(t.value) is not None for t in st.targets):
            for t in st.targets:
                if isinstance(t, ast.Subscript) and self._container_of(t.value) is not None:
                    self.bind(self._container_of(t.value), U(), st, accumulates=True)
        elif isinstance(st, ast.For):
            self._enter_loop(st.target, st.iter)
            try:
                self.run(st.body)
            finally:
                self._exit_loop()
        elif isinstance(st, ast.If):
            t = unparse(st.test)
            if 'isinstance' in t or (isinstance(st.test, ast.UnaryOp) and isinstance(st.test.op, ast.Not) and isinstance(st.test.operand, ast.Name) and st.body and isinstance(st.body[-1], ast.Raise)):
                return
            none = self._avail_none_test(st.test)
            if none is None:
                self.run(st.body)
                self.run(st.orelse)
            else:
                # exactly one of the two cases runs; the function is typed for the case where availabilities are given
                without, with_ = (st.body, st.orelse) if none else (st.orelse, st.body)
                self._run_unavailable_world(without)
                self.run(with_)
        elif isinstance(st, ast.Return):
            self.ret = self.ev(st.value) if st.value is not None else None
            self.ret_name = unparse(st.value) if isinstance(st.value, ast.Name) else None


def _interp_container_of(self, recv: ast.AST) -> str | None:
    """the name of the local container that `recv` (a name, or an element of it: d[k]) belongs to"""
    base = recv.value if isinstance(recv, ast.Subscript) else recv
    if isinstance(base, ast.Name) and self._is_container(base.id):
        return base.id
    return None


def _interp_aug_assign(self, st: ast.AugAssign) -> None:
    """`x op= e`.  Expression defines no in-place operators, so on a local that holds a term it is `x = x op e`; on a list /
    a dictionary it stores into the container (`l += [e]` extends, `d |= {k: e}` updates, `d[k] += [e]` extends the entry)"""
    from .normal import as_loop

    t = st.target
    if isinstance(t, ast.Name) and not self._is_container(t.id):
        cur = ast.copy_location(ast.Name(id=t.id, ctx=ast.Load()), t)
        e = ast.copy_location(ast.BinOp(left=cur, op=st.op, right=st.value), st)
        self.env[t.id] = self.ev(e)
        return
    name = self._container_of(t)
    if name is None:
        # an attribute, an element of something the typing does not follow
        return
    if isinstance(t, ast.Name) and isinstance(st.op, ast.BitOr):
        if isinstance(st.value, ast.DictComp):
            # d |= {k: v for ...} is d.update({k: v for ...}): the loop that assigns d[k] = v
            upd = ast.copy_location(ast.Expr(value=ast.Call(func=ast.Attribute(value=ast.Name(id=t.id, ctx=ast.Load()), attr='update', ctx=ast.Load()), args=[st.value], keywords=[])), st)
            ast.fix_missing_locations(upd)
            lp = as_loop(upd)
            if lp is not None:
                for x in lp:
                    self.stmt(x)
                return
        if isinstance(st.value, ast.Dict) and all(k is not None for k in st.value.keys):
            for e in st.value.values:
                self.bind(name, self.ev(e), st, accumulates=False)
            return
        self.bind(name, U(), st, accumulates=True)
        return
    if isinstance(st.op, ast.Add) and isinstance(st.value, ast.List) and not any(isinstance(e, ast.Starred) for e in st.value.elts):
        for e in st.value.elts:
            self.bind(name, self.ev(e), st, accumulates=True)
        return
    if isinstance(t, ast.Subscript) and isinstance(t.value, ast.Name) and isinstance(st.op, (ast.Add, ast.Sub, ast.Mult, ast.Div, ast.Pow)) and not self._is_container_value(st.value):
        # d[k] op= e on the entry that the statement before stored under the same key, in the same loops: d[k] = <that> op e
        key = unparse(t.slice)
        bs = self.bindings.get(name, [])
        if bs and bs[-1].key == key and bs[-1].loops == tuple(self._loops) and not bs[-1].accumulates:
            last = bs[-1]
            tmp = '$entry'
            self.env[tmp] = last.value
            try:
                v = self.ev(ast.copy_location(ast.BinOp(left=ast.copy_location(ast.Name(id=tmp, ctx=ast.Load()), t), op=st.op, right=st.value), st))
            finally:
                del self.env[tmp]
            last.value = v
            last.text = (last.text + '; ' + unparse(st))[:200]
            try:
                self.env[name] = join([b.value for b in bs], f'line {st.lineno}: entries of {name}')
            except TypeErr as e:
                if e.clash:
                    self.env[name] = AV('Unknown', clash=str(e))
                raise TypeErr(str(e), clash=e.clash, var=name) from None
            return
    self.bind(name, U(), st, accumulates=True)


Interp._container_of = _interp_container_of
Interp._aug_assign = _interp_aug_assign


def analyse(f: FuncInfo) -> Interp:
    it = Interp(f)
    it.run(f.explicit_body)
    return it
