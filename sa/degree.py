"""Homogeneity typing of the MEV builders ("units of measure").

Every expression is given a sort

* ``Const``                - does not depend on the utilities,
* ``Hom(d)``               - a function of y = exp(V) that is positively homogeneous of degree d,
* ``LogHom(d)``            - the logarithm of one,

where ``d`` is a sympy expression in the symbols ``mu`` (scale of the model)
and ``mu_m`` (scale of the current nest).  Sums need equal degrees, products
add, powers multiply, ``exp``/``log`` switch sort.  A symbolic *term* (sympy)
is carried along for the formula rules.  Loops are interpreted once with a
generic element; containers hold the join of what is stored into them.
"""

from __future__ import annotations

import ast
from dataclasses import dataclass, field

import sympy as sp

from .core import FuncInfo, dotted, unparse
from .sym import num

MU = sp.Symbol('mu', positive=True)
MUM = sp.Symbol('mu_m', positive=True)
V = sp.Symbol('V', real=True)
A = sp.Symbol('av', positive=True)
ALPHA = sp.Symbol('alpha', positive=True)
SUM = sp.Function('SUM')
CSUM = sp.Function('CSUM')
LOGZERO = sp.Function('logzero')


class TypeErr(Exception):
    pass


@dataclass
class AV:
    kind: str  # Const | Hom | LogHom
    deg: sp.Expr | None = None  # for Const: its value when known
    term: sp.Expr | None = None
    nullable: bool = False  # carries a user-supplied factor (alpha) that may be exactly zero

    def __repr__(self):
        return f'{self.kind}({sp.simplify(self.deg) if self.deg is not None else ""})'


def C(v=None, term=None):
    return AV('Const', v, term if term is not None else v)


def H(d, term=None):
    return AV('Hom', sp.simplify(d), term)


def L(d, term=None):
    return AV('LogHom', sp.simplify(d), term)


def as_log(a: AV) -> AV:
    if a.kind == 'LogHom':
        return a
    if a.kind == 'Const':
        return L(0, a.term)
    raise TypeErr(f'{a} used additively among log-terms')


def as_hom(a: AV) -> AV:
    if a.kind == 'Hom':
        return a
    if a.kind == 'Const':
        return H(0, a.term)
    raise TypeErr(f'{a} used as a function of y')


@dataclass
class Binding:
    line: int
    source: str  # text of the innermost loop iterable (which alternatives this entry is for)
    value: AV
    text: str = ''
    loops: tuple = ()


def join(vals: list[AV], ctx: str) -> AV | None:
    vals = [v for v in vals if v is not None]
    if not vals:
        return None
    if all(v.kind == 'Const' for v in vals):
        out = C(term=vals[0].term)
        out.nullable = all(v.nullable for v in vals)
        return out
    if any(v.kind == 'LogHom' for v in vals):
        conv, mk = as_log, L
    else:
        conv, mk = as_hom, H
    ds = [conv(v).deg for v in vals]
    for d in ds[1:]:
        if sp.simplify(d - ds[0]) != 0:
            raise TypeErr(f'{ctx}: degrees differ: {[str(sp.simplify(x)) for x in ds]}')
    out = mk(ds[0], vals[0].term)
    out.nullable = all(v.nullable for v in vals)
    return out


class Interp:
    def __init__(self, f: FuncInfo):
        self.f = f
        ps = f.positional_params()
        self.util = ps[0] if ps else 'util'
        self.avail = ps[1] if len(ps) > 1 else 'availability'
        self.mu = 'mu' if 'mu' in ps else None
        self.env: dict[str, AV | None] = {}
        self.bindings: dict[str, list[Binding]] = {}
        self.findings: list[tuple[int, str]] = []
        self.ret: AV | None = None
        self.ret_name: str | None = None
        self._loops: list[str] = []
        self.log_of_nullable: list[tuple[int, str]] = []

    def _loop_name(self, it: ast.expr) -> str:
        """the iterable of a loop, with single-definition locals of the function looked through (`alone = nests.alone`)"""
        from .core import inline_locals

        try:
            return unparse(inline_locals(self.f.node, it))
        except Exception:  # noqa
            return unparse(it)

    # ---- expressions
    def ev(self, n: ast.AST) -> AV | None:
        if isinstance(n, ast.Constant):
            if isinstance(n.value, (int, float)) and not isinstance(n.value, bool):
                v = sp.nsimplify(num(n.value))
                return C(v, v)
            return C()
        if isinstance(n, ast.Name):
            if n.id == self.mu:
                return C(MU, MU)
            if n.id in self.env:
                return self.env[n.id]
            return C()
        if isinstance(n, ast.Attribute):
            if n.attr == 'nest_param':
                return C(MUM, MUM)
            return C()
        if isinstance(n, ast.Subscript):
            base = unparse(n.value)
            if base == self.util:
                return L(1, V)
            if base == self.avail:
                return C(None, A)
            v = self.env.get(base)
            return v if v is not None else C()
        if isinstance(n, ast.UnaryOp):
            v = self.ev(n.operand)
            if isinstance(n.op, ast.USub) and v is not None:
                if v.kind == 'Const':
                    return C(-v.deg if v.deg is not None else None, -v.term if v.term is not None else None)
                if v.kind == 'LogHom':
                    return L(-v.deg, -v.term if v.term is not None else None)
            return v
        if isinstance(n, ast.Compare):
            return C(None, sp.Symbol('cond'))
        if isinstance(n, ast.BinOp):
            return self.binop(n)
        if isinstance(n, ast.Call):
            return self.call(n)
        if isinstance(n, ast.ListComp):
            self._loops.append(self._loop_name(n.generators[0].iter))
            self._bind_target(n.generators[0].target, n.generators[0].iter)
            try:
                return self.ev(n.elt)
            finally:
                self._loops.pop()
        if isinstance(n, ast.DictComp):
            self._loops.append(self._loop_name(n.generators[0].iter))
            self._bind_target(n.generators[0].target, n.generators[0].iter)
            try:
                return self.ev(n.value)
            finally:
                self._loops.pop()
        if isinstance(n, ast.List):
            return join([self.ev(e) for e in n.elts], f'line {n.lineno}') if n.elts else None
        if isinstance(n, ast.Dict):
            return join([self.ev(e) for e in n.values], f'line {n.lineno}') if n.values else None
        return C()

    def _bind_target(self, target: ast.AST, it: ast.AST) -> None:
        """loop variables: alpha of a cross-nested nest is a positive constant"""
        t = unparse(it)
        if isinstance(target, ast.Tuple) and len(target.elts) == 2 and t.endswith('dict_of_alpha.items()'):
            a = C(None, ALPHA)
            a.nullable = True
            self.env[unparse(target.elts[1])] = a
        elif isinstance(target, ast.Tuple) and len(target.elts) == 2 and t.endswith('.items()'):
            base = unparse(it.func.value) if isinstance(it, ast.Call) and isinstance(it.func, ast.Attribute) else None
            if base in self.env:
                self.env[unparse(target.elts[1])] = self.env[base]

    def binop(self, n: ast.BinOp) -> AV:
        out = self._binop(n)
        l, r = self.ev(n.left), self.ev(n.right)
        op = type(n.op).__name__
        if op == 'Mult':
            out.nullable = bool(l.nullable or r.nullable)
        elif op == 'Pow' or op == 'Div':
            out.nullable = bool(l.nullable)
        elif op in ('Add', 'Sub'):
            out.nullable = bool(l.nullable and r.nullable)
        return out

    def _binop(self, n: ast.BinOp) -> AV:
        l, r = self.ev(n.left), self.ev(n.right)
        op = type(n.op).__name__
        if l is None or r is None:
            raise TypeErr(f'line {n.lineno}: empty operand')
        lt, rt = l.term, r.term
        term = None
        if lt is not None and rt is not None:
            try:
                term = {'Add': lambda: lt + rt, 'Sub': lambda: lt - rt, 'Mult': lambda: lt * rt, 'Div': lambda: lt / rt, 'Pow': lambda: lt**rt}[op]()
            except Exception:
                term = None
        if l.kind == 'Const' and r.kind == 'Const':
            if l.deg is not None and r.deg is not None:
                return C(term, term)
            return C(None, term)
        if op in ('Add', 'Sub'):
            if 'LogHom' in (l.kind, r.kind):
                a, b = as_log(l), as_log(r)
                return L(a.deg + b.deg if op == 'Add' else a.deg - b.deg, term)
            a, b = as_hom(l), as_hom(r)
            if sp.simplify(a.deg - b.deg) != 0:
                raise TypeErr(f'line {n.lineno}: sum of terms of degrees {sp.simplify(a.deg)} and {sp.simplify(b.deg)}')
            return H(a.deg, term)
        if op == 'Mult':
            if l.kind == 'Const' and r.kind == 'LogHom':
                if l.deg is None:
                    raise TypeErr(f'line {n.lineno}: unknown constant times a log-term')
                return L(l.deg * r.deg, term)
            if r.kind == 'Const' and l.kind == 'LogHom':
                if r.deg is None:
                    raise TypeErr(f'line {n.lineno}: unknown constant times a log-term')
                return L(l.deg * r.deg, term)
            a, b = as_hom(l), as_hom(r)
            return H(a.deg + b.deg, term)
        if op == 'Div':
            if r.kind == 'Const' and l.kind == 'LogHom' and r.deg is not None:
                return L(l.deg / r.deg, term)
            a, b = as_hom(l), as_hom(r)
            return H(a.deg - b.deg, term)
        if op == 'Pow':
            if r.kind != 'Const' or r.deg is None:
                raise TypeErr(f'line {n.lineno}: exponent is not a known constant')
            return H(as_hom(l).deg * r.deg, term)
        raise TypeErr(f'line {n.lineno}: operator {op}')

    def call(self, n: ast.Call) -> AV | None:
        f = (dotted(n.func) or unparse(n.func)).split('.')[-1]
        if f == 'exp' and n.args:
            a = self.ev(n.args[0])
            return H(as_log(a).deg, sp.exp(a.term) if a.term is not None else None)
        if f in ('log', 'logzero') and n.args:
            a = self.ev(n.args[0])
            if a is not None and a.nullable:
                self.log_of_nullable.append((n.lineno, f))
            t = (sp.log(a.term) if f == 'log' else LOGZERO(a.term)) if a.term is not None else None
            if a.kind == 'Const':
                return C(sp.log(a.deg) if a.deg is not None else None, t)
            return L(as_hom(a).deg, t)
        if f == 'Numeric' and n.args:
            return self.ev(n.args[0])
        if f in ('bioMultSum', 'ConditionalSum'):
            arg = n.args[0] if n.args else n.keywords[0].value
            v = self.ev(arg)
            if v is None:
                return C()
            t = (SUM if f == 'bioMultSum' else CSUM)(v.term) if v.term is not None else None
            if v.kind == 'Const':
                out = C(None, t)
            else:
                out = H(as_hom(v).deg, t)
            out.nullable = bool(v.nullable)
            return out
        if f == 'ConditionalTermTuple':
            term = next((k.value for k in n.keywords if k.arg == 'term'), n.args[1] if len(n.args) > 1 else None)
            return self.ev(term) if term is not None else C()
        return C()

    # ---- statements
    def run(self, stmts) -> None:
        for st in stmts:
            try:
                self.stmt(st)
            except TypeErr as e:
                self.findings.append((st.lineno, str(e)))

    def bind(self, name: str, v: AV | None, st: ast.stmt) -> None:
        if v is None:
            return
        src = self._loops[-1] if self._loops else ''
        self.bindings.setdefault(name, []).append(Binding(st.lineno, src, v, unparse(st)[:200], tuple(self._loops)))
        old = self.env.get(name)
        try:
            self.env[name] = v if old is None else join([old, v], f'line {st.lineno}: entries of {name}')
        except TypeErr:
            self.env[name] = old
            raise

    def stmt(self, st: ast.stmt) -> None:
        from .normal import as_loop

        # comprehension statements of the normal form are read as the loops they stand for
        if not (isinstance(st, ast.Assign) and isinstance(st.value, (ast.ListComp, ast.DictComp, ast.SetComp)) and len(st.value.generators) == 1 and isinstance(st.targets[0], ast.Name)):
            lp = as_loop(st)
            if lp is not None:
                for x in lp:
                    self.stmt(x)
                return
        if isinstance(st, ast.Assign):
            t = st.targets[0]
            if isinstance(t, ast.Name):
                if isinstance(st.value, (ast.DictComp, ast.ListComp)):
                    self.env[t.id] = None
                    self._loops.append(self._loop_name(st.value.generators[0].iter))
                    try:
                        self._bind_target(st.value.generators[0].target, st.value.generators[0].iter)
                        v = self.ev(st.value.value if isinstance(st.value, ast.DictComp) else st.value.elt)
                        self.bind(t.id, v, st)
                    finally:
                        self._loops.pop()
                elif isinstance(st.value, (ast.Dict, ast.List)) and not (getattr(st.value, 'keys', None) or getattr(st.value, 'elts', None)):
                    self.env[t.id] = None
                else:
                    self.env[t.id] = self.ev(st.value)
            elif isinstance(t, ast.Subscript):
                v = self.ev(st.value)
                self.bind(unparse(t.value), v, st)
        elif isinstance(st, ast.AnnAssign) and st.value is not None:
            v = self.ev(st.value) if not (isinstance(st.value, (ast.Dict, ast.List)) and not (getattr(st.value, 'keys', None) or getattr(st.value, 'elts', None))) else None
            self.env[unparse(st.target)] = v
        elif isinstance(st, ast.AugAssign):
            tgt = st.target.value if isinstance(st.target, ast.Subscript) else st.target
            self.bind(unparse(tgt), self.ev(st.value), st)
        elif isinstance(st, ast.Expr) and isinstance(st.value, ast.Call) and isinstance(st.value.func, ast.Attribute) and st.value.func.attr == 'append':
            recv = st.value.func.value
            recv = recv.value if isinstance(recv, ast.Subscript) else recv
            self.bind(unparse(recv), self.ev(st.value.args[0]), st)
        elif isinstance(st, ast.For):
            self._loops.append(self._loop_name(st.iter))
            self._bind_target(st.target, st.iter)
            try:
                self.run(st.body)
            finally:
                self._loops.pop()
        elif isinstance(st, ast.If):
            t = unparse(st.test)
            if 'isinstance' in t or (isinstance(st.test, ast.UnaryOp) and isinstance(st.test.op, ast.Not) and isinstance(st.test.operand, ast.Name) and st.body and isinstance(st.body[-1], ast.Raise)):
                return
            self.run(st.body)
            self.run(st.orelse)
        elif isinstance(st, ast.Return):
            self.ret = self.ev(st.value) if st.value is not None else None
            self.ret_name = unparse(st.value) if isinstance(st.value, ast.Name) else None


def analyse(f: FuncInfo) -> Interp:
    it = Interp(f)
    it.run(f.explicit_body)
    return it
