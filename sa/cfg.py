"""Statement-level control-flow graph and reaching definitions for one function.

Implicit exceptions are modelled only inside ``try`` bodies (every statement
of the body may jump to every handler); explicit ``raise`` goes to the
enclosing handlers or to the RAISE exit.  ``finally`` bodies are placed on
the normal and on the abrupt exits of their ``try``.
"""

from __future__ import annotations

import ast
from dataclasses import dataclass, field

import networkx as nx

ENTRY, EXIT, RAISE = 0, 1, 2


@dataclass
class Def:
    node: int  # cfg node that defines
    name: str
    kind: str  # 'param' | 'assign' | 'unpack' | 'aug' | 'for' | 'with' | 'import' | 'except' | 'other'
    value: ast.expr | None = None
    index: int | None = None  # position for tuple unpacking
    target: ast.expr | None = None


class CFG:
    def __init__(self, func: ast.FunctionDef):
        self.func = func
        self.g = nx.DiGraph()
        self.stmt: dict[int, ast.AST | str] = {ENTRY: 'ENTRY', EXIT: 'EXIT', RAISE: 'RAISE'}
        self.g.add_nodes_from([ENTRY, EXIT, RAISE])
        self._next = 3
        self._owner: dict[int, int] = {}  # id(ast node) -> cfg node
        self._loops: list[tuple[int, list[int]]] = []  # (header, break targets collector)
        self._handlers: list[list[int]] = []  # stack of handler entry nodes
        self._finally: list[list[ast.stmt]] = []
        self._kind: dict[int, str] = {}
        ends = self._block(func.body, [ENTRY])
        for e in ends:
            self.g.add_edge(e, EXIT)
        self._idom = None
        self._defs: dict[int, list[Def]] | None = None
        self._rd_in: dict[int, dict[str, frozenset[int]]] | None = None

    # ---- construction ------------------------------------------------------

    def _new(self, st: ast.AST, own: list[ast.AST] | None = None, kind: str = 'stmt') -> int:
        n = self._next
        self._next += 1
        self.g.add_node(n)
        self.stmt[n] = st
        self._kind[n] = kind
        parts = own if own is not None else [st]
        for p in parts:
            if p is None:
                continue
            for sub in ast.walk(p):
                self._owner.setdefault(id(sub), n)
        self._owner[id(st)] = n
        if self._handlers:
            for h in self._handlers[-1]:
                self.g.add_edge(n, h)
        return n

    def _link(self, preds: list[int], n: int) -> None:
        for p in preds:
            self.g.add_edge(p, n)

    def _abrupt(self, frm: list[int], target: int) -> None:
        """leave through pending finally bodies to ``target``."""
        cur = frm
        for fb in reversed(self._finally):
            saved_h, saved_f = self._handlers, self._finally
            self._handlers, self._finally = [], []
            cur = self._block(fb, cur, register=False)
            self._handlers, self._finally = saved_h, saved_f
        for c in cur:
            self.g.add_edge(c, target)

    def _block(self, body: list[ast.stmt], preds: list[int], register: bool = True) -> list[int]:
        cur = preds
        for st in body:
            if not cur:
                # unreachable code: still create nodes so that lookups work
                cur = []
            cur = self._stmt(st, cur)
        return cur

    def _stmt(self, st: ast.stmt, preds: list[int]) -> list[int]:
        if isinstance(st, ast.If):
            n = self._new(st, [st.test], 'if')
            self._link(preds, n)
            a = self._block(st.body, [n])
            b = self._block(st.orelse, [n]) if st.orelse else [n]
            return a + b
        if isinstance(st, (ast.For, ast.AsyncFor)):
            n = self._new(st, [st.iter, st.target], 'for')
            self._link(preds, n)
            breaks: list[int] = []
            self._loops.append((n, breaks))
            ends = self._block(st.body, [n])
            self._loops.pop()
            self._link(ends, n)
            after = self._block(st.orelse, [n]) if st.orelse else [n]
            return after + breaks
        if isinstance(st, ast.While):
            n = self._new(st, [st.test], 'while')
            self._link(preds, n)
            breaks = []
            self._loops.append((n, breaks))
            ends = self._block(st.body, [n])
            self._loops.pop()
            self._link(ends, n)
            infinite = isinstance(st.test, ast.Constant) and bool(st.test.value)
            after = [] if infinite else (self._block(st.orelse, [n]) if st.orelse else [n])
            return after + breaks
        if isinstance(st, (ast.With, ast.AsyncWith)):
            n = self._new(st, [i for it in st.items for i in (it.context_expr, it.optional_vars)], 'with')
            self._link(preds, n)
            return self._block(st.body, [n])
        if isinstance(st, ast.Try) or st.__class__.__name__ == 'TryStar':
            return self._try(st, preds)
        if isinstance(st, ast.Return):
            n = self._new(st, kind='return')
            self._link(preds, n)
            self._abrupt([n], EXIT)
            return []
        if isinstance(st, ast.Raise):
            n = self._new(st, kind='raise')
            self._link(preds, n)
            if not self._handlers:
                self._abrupt([n], RAISE)
            elif not self._handlers[-1]:
                self._abrupt([n], RAISE)
            return []
        if isinstance(st, ast.Break):
            n = self._new(st, kind='break')
            self._link(preds, n)
            if self._loops:
                self._loops[-1][1].append(n)
            return []
        if isinstance(st, ast.Continue):
            n = self._new(st, kind='continue')
            self._link(preds, n)
            if self._loops:
                self.g.add_edge(n, self._loops[-1][0])
            return []
        if isinstance(st, ast.Match):
            n = self._new(st, [st.subject], 'match')
            self._link(preds, n)
            out = [n]
            for case in st.cases:
                out += self._block(case.body, [n])
            return out
        if isinstance(st, (ast.FunctionDef, ast.AsyncFunctionDef, ast.ClassDef)):
            n = self._new(st, [], 'def')  # a binding; the body is not entered
            self._link(preds, n)
            return [n]
        n = self._new(st)
        self._link(preds, n)
        return [n]

    def _try(self, st: ast.Try, preds: list[int]) -> list[int]:
        # handler entry nodes are created first so that body statements can
        # point at them
        hnodes = []
        for h in st.handlers:
            hn = self._next
            self._next += 1
            self.g.add_node(hn)
            self.stmt[hn] = h
            self._kind[hn] = 'except'
            self._owner[id(h)] = hn
            if h.type is not None:
                for sub in ast.walk(h.type):
                    self._owner.setdefault(id(sub), hn)
            hnodes.append(hn)
        if st.finalbody:
            self._finally.append(st.finalbody)
        self._handlers.append(hnodes)
        for p in preds:
            for h in hnodes:
                self.g.add_edge(p, h)
        body_end = self._block(st.body, preds)
        self._handlers.pop()
        if st.orelse:
            body_end = self._block(st.orelse, body_end)
        ends = list(body_end)
        for h, hn in zip(st.handlers, hnodes):
            ends += self._block(h.body, [hn])
        if st.finalbody:
            self._finally.pop()
            if not hnodes:
                # exceptions propagate through the finally body
                pass
            ends = self._block(st.finalbody, ends)
        return ends

    # ---- queries -------------------------------------------------------------

    def node_of(self, node: ast.AST) -> int | None:
        """cfg node of the statement that evaluates ``node``."""
        return self._owner.get(id(node))

    def nodes(self):
        return [n for n in self.g.nodes if n > RAISE]

    def reachable_from_entry(self) -> set[int]:
        return set(nx.descendants(self.g, ENTRY)) | {ENTRY}

    def idom(self):
        if self._idom is None:
            self._idom = nx.immediate_dominators(self.g, ENTRY)
        return self._idom

    def dominates(self, a: int, b: int) -> bool:
        """every path ENTRY -> b goes through a (a == b counts)."""
        idom = self.idom()
        if b not in idom:
            return True  # b unreachable: vacuous
        cur = b
        while True:
            if cur == a:
                return True
            nxt = idom.get(cur)
            if nxt is None or nxt == cur:
                return False
            cur = nxt

    def dominated_by_any(self, b: int, cands: set[int]) -> bool:
        """every path ENTRY -> b goes through at least one node of cands."""
        if b in cands:
            return True
        h = self.g.copy()
        h.remove_nodes_from([c for c in cands if c != b])
        return not (ENTRY in h and b in h and nx.has_path(h, ENTRY, b))

    def reaches(self, a: int, b: int) -> bool:
        return a in self.g and b in self.g and nx.has_path(self.g, a, b)

    def must_pass(self, a: int, targets: set[int], exits=(EXIT,)) -> bool:
        """every path from a (exclusive) to one of ``exits`` passes a target."""
        h = self.g.copy()
        h.remove_nodes_from([t for t in targets if t != a])
        for s in list(self.g.successors(a)):
            if s in targets:
                continue
            for e in exits:
                if s == e or (s in h and e in h and nx.has_path(h, s, e)):
                    return False
        return True

    def path_avoiding(self, a: int, b: int, avoid: set[int]) -> bool:
        h = self.g.copy()
        h.remove_nodes_from([t for t in avoid if t not in (a, b)])
        return a in h and b in h and nx.has_path(h, a, b)

    # ---- reaching definitions ---------------------------------------------

    @staticmethod
    def _target_names(t: ast.expr) -> list[tuple[str, ast.expr, int | None]]:
        out = []
        if isinstance(t, ast.Name):
            out.append((t.id, t, None))
        elif isinstance(t, (ast.Tuple, ast.List)):
            for i, e in enumerate(t.elts):
                for name, tt, _ in CFG._target_names(e):
                    out.append((name, tt, i))
        elif isinstance(t, ast.Attribute):
            from .core import dotted

            d = dotted(t)
            if d:
                out.append((d, t, None))
        elif isinstance(t, ast.Starred):
            out += CFG._target_names(t.value)
        return out

    def defs(self) -> dict[int, list[Def]]:
        if self._defs is not None:
            return self._defs
        out: dict[int, list[Def]] = {n: [] for n in self.g.nodes}
        a = self.func.args
        for p in a.posonlyargs + a.args + a.kwonlyargs + ([a.vararg] if a.vararg else []) + ([a.kwarg] if a.kwarg else []):
            out[ENTRY].append(Def(ENTRY, p.arg, 'param'))
        for n in self.nodes():
            st = self.stmt[n]
            k = self._kind.get(n)
            if isinstance(st, ast.Assign):
                for t in st.targets:
                    for name, tt, idx in self._target_names(t):
                        if idx is None:
                            out[n].append(Def(n, name, 'assign', st.value, None, tt))
                        else:
                            out[n].append(Def(n, name, 'unpack', st.value, idx, tt))
            elif isinstance(st, ast.AnnAssign) and st.value is not None:
                for name, tt, idx in self._target_names(st.target):
                    out[n].append(Def(n, name, 'assign', st.value, None, tt))
            elif isinstance(st, ast.AugAssign):
                for name, tt, idx in self._target_names(st.target):
                    out[n].append(Def(n, name, 'aug', st.value, None, tt))
            elif k == 'for':
                for name, tt, idx in self._target_names(st.target):
                    out[n].append(Def(n, name, 'for', st.iter, idx, tt))
            elif k == 'with':
                for it in st.items:
                    if it.optional_vars is not None:
                        for name, tt, idx in self._target_names(it.optional_vars):
                            out[n].append(Def(n, name, 'with', it.context_expr, idx, tt))
            elif isinstance(st, (ast.Import, ast.ImportFrom)):
                for al in st.names:
                    out[n].append(Def(n, (al.asname or al.name).split('.')[0], 'import'))
            elif k == 'except' and getattr(st, 'name', None):
                out[n].append(Def(n, st.name, 'except'))
            elif k == 'def':
                out[n].append(Def(n, st.name, 'other'))
            # walrus
            if k != 'def' and not isinstance(st, str):
                parts = [st] if k in (None, 'stmt', 'return', 'raise') else []
                if k == 'if' or k == 'while':
                    parts = [st.test]
                for p in parts:
                    for sub in ast.walk(p):
                        if isinstance(sub, ast.NamedExpr) and isinstance(sub.target, ast.Name):
                            out[n].append(Def(n, sub.target.id, 'assign', sub.value, None, sub.target))
        self._defs = out
        return out

    def _solve_rd(self):
        defs = self.defs()
        gen: dict[int, dict[str, frozenset[int]]] = {}
        for n, ds in defs.items():
            g: dict[str, frozenset[int]] = {}
            for d in ds:
                g[d.name] = frozenset([n])
            gen[n] = g
        IN: dict[int, dict[str, frozenset[int]]] = {n: {} for n in self.g.nodes}
        OUT: dict[int, dict[str, frozenset[int]]] = {n: dict(gen[n]) for n in self.g.nodes}
        order = list(nx.dfs_preorder_nodes(self.g, ENTRY))
        changed = True
        while changed:
            changed = False
            for n in order:
                new_in: dict[str, set[int]] = {}
                for p in self.g.predecessors(n):
                    for name, s in OUT[p].items():
                        new_in.setdefault(name, set()).update(s)
                fin = {k: frozenset(v) for k, v in new_in.items()}
                if fin != IN[n]:
                    IN[n] = fin
                    changed = True
                new_out = dict(fin)
                for name, s in gen[n].items():
                    # an attribute store kills the same path only
                    if any(d.kind == 'aug' and d.name == name for d in defs[n]):
                        new_out[name] = frozenset(set(fin.get(name, ())) | set(s))
                    else:
                        new_out[name] = s
                if new_out != OUT[n]:
                    OUT[n] = new_out
                    changed = True
        self._rd_in = IN

    def reaching(self, at: int, name: str) -> list[Def]:
        """definitions of ``name`` that may reach the *entry* of node ``at``."""
        if self._rd_in is None:
            self._solve_rd()
        out = []
        for dn in sorted(self._rd_in.get(at, {}).get(name, ())):
            out += [d for d in self.defs()[dn] if d.name == name]
        return out

    def origins(self, expr: ast.expr, at: int | None = None, depth: int = 6) -> list[ast.expr]:
        """Follow plain copies backwards: the expressions a Name may stand
        for at node ``at`` (the expression itself when it is not a Name or is
        a parameter / has no simple definition)."""
        if at is None:
            at = self.node_of(expr)
        if depth == 0 or not isinstance(expr, ast.Name) or at is None:
            return [expr]
        ds = self.reaching(at, expr.id)
        if not ds:
            return [expr]
        out: list[ast.expr] = []
        for d in ds:
            if d.kind == 'assign' and d.value is not None:
                out += self.origins(d.value, d.node, depth - 1)
            else:
                out.append(expr)
        return out


def cfg_of(func: ast.FunctionDef) -> CFG:
    c = getattr(func, '_verif_cfg', None)
    if c is None:
        c = CFG(func)
        func._verif_cfg = c
    return c
