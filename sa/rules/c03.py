"""C03 - parameters are identified by name, never by position of appearance."""

from __future__ import annotations

import ast
import re

from ..cfg import cfg_of
from ..core import inline_locals, AnalysisError, call_name, unparse, walk_no_nested
from ..packs import ord_pack
from ..report import Ctx


#: obligations whose failure contradicts the property (rule, construct pattern, why); every other failure is 'not recognised'
POSITIVE: list[tuple[str, str, str]] = [
]


def run(ctx: Ctx) -> None:
    ctx.positive_table = list(POSITIVE)
    prog = ctx.prog
    ctx.rule('C03.R1', 'canonical order (ORD): every positional vector of per-parameter data (values, bounds, names zipped with values, lines of the iteration '
             'file, rows of the results) is built by iterating free_betas.names / fixed_betas.names of the matching kind (sorted), never the dictionary of '
             'expressions (order of appearance); a name-to-value dictionary is turned into a vector element by element with the same name; '
             'the global numbering starts with the free parameters')
    ctx.rule('C03.R2', 'by-name updates: Beta.change_init_values / fix_betas query the dictionary with the name of the very object they write; the generic versions '
             'recurse over all children')
    ctx.rule('C03.R3', 'duplicate names: IdManager.__init__ always reaches prepare, which compares len(names) with len(set(names)) over all five kinds and raises '
             'BiogemeError before the index tables are published')
    ctx.not_decided += ['invariance of the optimiser outcome under renaming (numerical)']
    ord_pack(ctx, 'C03.R1')
    ctx.floor('C03.R1', 17)
    # the rules above read the name vectors where they are stored; a vector changed in place afterwards (sorted with another key,
    # reversed, an element inserted or removed) no longer has the order that was established: the verdict is left open
    CHANGERS = ('sort', 'reverse', 'insert', 'pop', 'remove', 'append', 'extend', 'clear', '__setitem__', '__delitem__')
    NAMEVEC = re.compile(r'(?:^|\.)(?:betaNames|(?:free_betas|fixed_betas|elementary_expressions)\.names)$')
    changed = []
    for g in prog.all_functions():
        for n in walk_no_nested(g.node):
            recv = None
            if isinstance(n, ast.Call) and isinstance(n.func, ast.Attribute) and n.func.attr in CHANGERS:
                recv = n.func.value
                if isinstance(recv, ast.Name) and recv.id == 'list' and n.args:
                    recv = n.args[0]  # list.sort(x)
            elif isinstance(n, (ast.Assign, ast.AugAssign, ast.Delete)):
                for t_ in (n.targets if isinstance(n, (ast.Assign, ast.Delete)) else [n.target]):
                    if isinstance(t_, ast.Subscript):
                        recv = t_.value  # x[i] = v, del x[i]
            if recv is not None and NAMEVEC.search(unparse(inline_locals(g.node, recv))):
                changed.append((g, n))
    for g, n in changed:
        ctx.add('C03.R1', f'{g.qualname}:in-place:{unparse(n)[:40]}', None, (g.file, n.lineno),
                f'{unparse(n)[:80]} changes a vector of parameter names in place after it was stored in the canonical order: the order it has afterwards is not followed', unparse(n)[:80])
    if not changed:
        ctx.add('C03.R1', 'name-vectors:in-place', True, prog.cls('results', 'RawResults'), 'no vector of parameter names (betaNames, free_betas.names, fixed_betas.names) is changed in place', '')

    from ..pattern import body_is, has

    beta = prog.cls('expressions.beta_parameters', 'Beta')
    f = beta.methods['change_init_values']
    p = f.positional_params()[1]
    ok = has(f.node, f"""
_V = {p}.get(self.name)
if _V is not None and _V != self.initValue:
    ___
    self.initValue = _V
""")
    stores = [unparse(n.targets[0]) for n in ast.walk(f.node) if isinstance(n, ast.Assign) and unparse(n.targets[0]).startswith('self.')]
    ok = ok and stores == ['self.initValue']
    ctx.add('C03.R2', 'Beta.change_init_values', ok, f, 'initValue = betas[self.name]; nothing else is written' if ok else 'Beta.change_init_values no longer writes betas[self.name] (and only that) into initValue', 'change_init_values')
    f = beta.methods['fix_betas']
    p = f.positional_params()[1]
    ok = has(f.node, f"""
if self.name in {p}:
    self.initValue = {p}[self.name]
    self.status = 1
    ___
""")
    ctx.add('C03.R2', 'Beta.fix_betas', ok, f, 'the parameter named in the dictionary gets its value and becomes fixed' if ok else 'fix_betas changed', 'fix_betas')
    E = prog.cls('expressions.base_expressions', 'Expression')
    for name, args in (('change_init_values', 'betas'), ('fix_betas', 'beta_values, prefix=prefix, suffix=suffix')):
        g = E.methods[name]
        ok = body_is(g.body, f'for _E in self.get_children():\n    _E.{name}({args})') is not None or body_is(g.body, f'for _E in self.children:\n    _E.{name}({args})') is not None
        ctx.add('C03.R2', f'Expression.{name}', ok, g, f'{name} reaches every child with the same dictionary' if ok else f'{name} does not recurse over all children', name)
    # overrides of change_init_values / fix_betas other than Beta and MultipleExpression
    for name in ('change_init_values', 'fix_betas'):
        others = [c.name for c in prog.subclasses(E) if name in c.methods and c.name not in ('Beta', 'MultipleExpression')]
        ctx.add('C03.R2', f'{name}:overrides', not others, E, f'only Beta and MultipleExpression override {name}' if not others else f'{name} overridden in {others}', str(others))

    idm = prog.cls('expressions.idmanager', 'IdManager')
    init = idm.methods['__init__']
    cfg = cfg_of(init.node)
    calls = [n for n in walk_no_nested(init.node) if isinstance(n, ast.Call) and unparse(n.func) == 'self.prepare']
    ok = len(calls) == 1 and cfg.must_pass(0, {cfg.node_of(calls[0])})
    ctx.add('C03.R3', 'IdManager.__init__', ok, init, 'every normal exit of the constructor passes through prepare()' if ok else 'the constructor can finish without prepare()', 'prepare')
    prep = idm.methods['prepare']
    cfgp = cfg_of(prep.node)
    from ..pattern import find

    b = find(prep.node, """
_N = self.free_betas.names + self.fixed_betas.names + self.random_variables.names + self.draws.names + self.variables.names
if len(_N) != len(set(_N)):
    ___
    raise BiogemeError(__MSG)
""")
    ok = b is not None
    det = ''
    if ok:
        tests = [n for n in walk_no_nested(prep.node) if isinstance(n, ast.If) and unparse(n.test) == f'len({b["_N"]}) != len(set({b["_N"]}))']
        pub = [n for n in walk_no_nested(prep.node) if isinstance(n, ast.Assign) and unparse(n.targets[0]) == 'self.elementary_expressions']
        ok = len(tests) == 1 and len(pub) == 1 and cfgp.dominates(cfgp.node_of(tests[0]), cfgp.node_of(pub[0]))
    partial = None
    if not ok:
        hb = find(prep.node, "if len(__L) != len(set(__L)):\n    ___\n    raise BiogemeError(__MSG)")
        if hb is not None:
            tested = unparse(inline_locals(prep.node, hb['__L'][1]))
            kinds = ['self.free_betas.names', 'self.fixed_betas.names', 'self.random_variables.names', 'self.draws.names', 'self.variables.names']
            terms = [t_.strip() for t_ in tested.replace('\n', ' ').split('+')]
            if terms and all(t_ in kinds for t_ in terms) and set(terms) != set(kinds):
                missing = [k_.split('.')[1] for k_ in kinds if k_ not in terms]
                partial = f'the duplicate-name test covers {" + ".join(t_.split(".")[1] for t_ in terms)} only: a name shared with {", ".join(missing)} is accepted, and one of the two elements silently takes the index of the other'
    ctx.add('C03.R3', 'IdManager.prepare:duplicates', ok if (ok or partial) else None, prep, 'a name used twice (within or across the five kinds) raises BiogemeError before the index table is published' if ok else
            (partial or 'the duplicate-name test (over the concatenation of all five kinds, raising BiogemeError, before the index table is published) is not in the expected form'), 'duplicates', positive=bool(partial))


_I = 'src/biogeme/expressions/idmanager.py'
_B = 'src/biogeme/biogeme.py'
_R = 'src/biogeme/results.py'
MUTANTS = [
    dict(name='bounds follow the order of appearance (seed C03/1)', rule='C03.R1', file=_I,
         old='            for b in self.free_betas.names\n        ]', new='            for b in self.free_betas.expressions\n        ]'),
    dict(name='bounds built from expression values', rule='C03.R1', file=_I,
         old='        self.bounds = [\n            (\n                self.free_betas.expressions[b].lb,\n                self.free_betas.expressions[b].ub,\n            )\n            for b in self.free_betas.names\n        ]',
         new='        self.bounds = [(b.lb, b.ub) for b in self.free_betas.expressions.values()]'),
    dict(name='fixed values follow the free names', rule='C03.R1', file=_I,
         old='self.fixed_betas.expressions[x].initValue for x in self.fixed_betas.names', new='self.fixed_betas.expressions[x].initValue for x in self.free_betas.names'),
    dict(name='fixed parameters numbered first', rule='C03.R1', file=_I,
         old='            self.free_betas.names\n            + self.fixed_betas.names', new='            self.fixed_betas.names\n            + self.free_betas.names'),
    dict(name='names no longer sorted', rule='C0', file=_I, old='    names = sorted(dict_of_elements)', new='    names = list(dict_of_elements)'),
    dict(name='betas= fallback takes the initValue of another table', rule='C03.R1', file='src/biogeme/expressions/base_expressions.py',
         old='                    else self.id_manager.free_betas.expressions[x].initValue\n                )\n                for x in self.id_manager.free_betas.names',
         new='                    else self.id_manager.free_betas.expressions[x].initValue\n                )\n                for x in self.id_manager.free_betas.expressions'),
    dict(name='estimates looked up in the requested list (seed C03/2)', rule='C03.R1', file=_R,
         old='                index = self.data.betaNames.index(b)', new='                index = my_betas.index(b)'),
    dict(name='RawResults pairs values with sorted(names)', rule='C03.R1', file=_R,
         old='        self.betaNames: tuple[str] = (\n            the_model.id_manager.free_betas.names\n        )', new='        self.betaNames: tuple[str] = list(\n            the_model.id_manager.free_betas.expressions\n        )'),
    dict(name='bounds fetched by position in the model', rule='C03.R1', file=_B,
         old='        index = self.id_manager.free_betas.indices.get(beta_name)', new='        index = self.id_manager.elementary_expressions.indices.get(beta_name)'),
    dict(name='change_init_values writes by fixed index', rule='C03.R1', file=_B,
         old='        for i, name in enumerate(self.id_manager.free_betas.names):\n            value = betas.get(name)', new='        for i, name in enumerate(betas):\n            value = betas.get(name)'),
    dict(name='dict to list follows the dictionary', rule='C03.R1', file=_B,
         old='        for x in self.id_manager.free_betas.names:\n            v = beta_dict.get(x)', new='        for x in beta_dict:\n            v = beta_dict.get(x)'),
    dict(name='Beta.change_init_values takes the first value', rule='C03.R2', file='src/biogeme/expressions/beta_parameters.py',
         old='        value = betas.get(self.name)', new='        value = next(iter(betas.values()), None)'),
    dict(name='duplicate test only on the betas', rule='C03.R3', file=_I,
         old='        if len(elementary_expressions_names) != len(set(elementary_expressions_names)):', new='        if len(self.free_betas.names) != len(set(self.free_betas.names)):'),
    dict(name='duplicate names only logged', rule='C03.R3', file=_I,
         old='            raise BiogemeError(error_msg)\n\n        elementary_expressions_indices', new='            logger.warning(error_msg)\n\n        elementary_expressions_indices'),
]
NEUTRAL = [
    dict(name='bounds comprehension variable renamed', file=_I,
         old='                self.free_betas.expressions[b].lb,\n                self.free_betas.expressions[b].ub,\n            )\n            for b in self.free_betas.names',
         new='                self.free_betas.expressions[the_name].lb,\n                self.free_betas.expressions[the_name].ub,\n            )\n            for the_name in self.free_betas.names'),
    dict(name='set_random_init_values keeps a by-name dict over expressions', file=_B,
         old='            for name, beta in self.id_manager.free_betas.expressions.items()\n        }', new='            for name, beta in sorted(self.id_manager.free_betas.expressions.items())\n        }'),
]
