"""C12 - invalid specifications are refused with a clear error wherever the fault sits (structural clauses)."""

from __future__ import annotations

import ast
import copy
import re

from ..cfg import cfg_of
from ..core import seq, AnalysisError, ClassInfo, FuncInfo, call_name, dotted, inline_locals, strip_docstring, unparse, walk_no_nested
from ..packs import ecc
from ..report import Ctx
from ..sigtemplate import AttrRoles
from ..pattern import body_is, find, find_expr, has, has_expr

ANCHOR_FILES = [
    'expressions/base_expressions.py', 'expressions/comparison_expressions.py', 'expressions/unary_expressions.py', 'expressions/logit_expressions.py',
    'expressions/elementary_expressions.py', 'expressions/idmanager.py', 'biogeme.py', 'database.py', 'nests.py', 'dict_of_formulas.py',
    'expressions/binary_expressions.py', 'expressions/nary_expressions.py', 'expressions/beta_parameters.py', 'expressions/convert.py',
    'expressions/calculator.py', 'expressions/multiple_expressions.py', 'expressions/numeric_expressions.py',
]

#: raise statements of the anchor files that construct a non-library exception on purpose (API the tests and callers rely on)
FOREIGN_RAISES = {
    ('BIOGEME.__init__', 'AttributeError'): 'wrong type of the `parameters` argument',
    ('BIOGEME.initialize_properties', 'AttributeError'): 'name clash while creating the parameter properties',
    ('BIOGEME.calculate_likelihood', 'ValueError'): 'vector of wrong length (documented :raises ValueError:)',
    ('BIOGEME.calculate_likelihood_and_derivatives', 'ValueError'): 'vector of wrong length (documented :raises ValueError:)',
    ('Database.add_column', 'ValueError'): 'existing column name (pinned by tests)',
    ('Database.set_random_number_generators', 'ValueError'): 'reserved generator name (pinned by tests)',
    ('Database.extract_rows', 'IndexError'): 'position out of range',
    ('Database.mdcev_row_split', 'IndexError'): 'position out of range',
    ('validate_and_convert', 'TypeError'): 'not an expression (pinned by tests)',
    ('expression_to_value', 'TypeError'): 'not an expression (pinned by tests)',
    ('get_nest', 'TypeError'): 'not a nest (pinned by tests)',
    ('Nests.__getitem__', 'IndexError'): 'sequence protocol',
}

COLLECTORS = {
    'check_draws': ('bioDraws', 'MonteCarlo'),
    'check_rv': ('RandomVariable', 'Integrate'),
    'check_panel_trajectory': ('Variable', 'PanelLikelihoodTrajectory'),
}


def _through_helper(c: ClassInfo, call: ast.AST, prog=None) -> ast.AST:
    """`self.m(args)` where m is a method of the class or of one of its bases whose body is a single `return <expr>`: the
    returned expression with the arguments in place of the parameters (one level); any other node is returned as it is.
    A method that a subclass of the class overrides is not expanded: for the instances of that subclass (which inherit the
    caller) the call runs the override, and the version seen from here says nothing about it."""
    if not (isinstance(call, ast.Call) and isinstance(call.func, ast.Attribute) and isinstance(call.func.value, ast.Name) and call.func.value.id == 'self'):
        return call
    if call.func.attr == 'audit' or any(isinstance(a, ast.Starred) for a in call.args) or any(k.arg is None for k in call.keywords):
        return call
    g = c.resolve(call.func.attr)
    if g is None or 'staticmethod' in g.decorators() or 'classmethod' in g.decorators():
        return call
    if prog is not None and any(call.func.attr in sc.methods for sc in prog.subclasses(c)):
        return call
    body = strip_docstring(list(g.node.body))
    if len(body) != 1 or not isinstance(body[0], ast.Return) or body[0].value is None:
        return call
    a = g.node.args
    if a.vararg or a.kwarg:
        return call
    ps = [x.arg for x in a.posonlyargs + a.args][1:]
    if len(call.args) > len(ps):
        return call
    bound = dict(zip(ps, call.args))
    for k in call.keywords:
        bound[k.arg] = k.value
    defaults = dict(zip(reversed(ps), reversed(a.defaults)))
    for kw, d in zip(a.kwonlyargs, a.kw_defaults):
        if d is not None:
            defaults[kw.arg] = d
    names = set(ps) | {x.arg for x in a.kwonlyargs}
    for k in names:
        if k not in bound:
            if k not in defaults:
                return call
            bound[k] = defaults[k]
    if set(bound) - names:
        return call

    class Sub(ast.NodeTransformer):
        def visit_Name(self, node):
            return copy.deepcopy(bound[node.id]) if node.id in bound and isinstance(node.ctx, ast.Load) else node

    return ast.copy_location(Sub().visit(copy.deepcopy(body[0].value)), call)


def _callee_resolved(f: FuncInfo, call: ast.AST) -> ast.AST:
    """`m(args)` where m is a local bound once to a method (`m = super().audit`): the call written on what m names"""
    if isinstance(call, ast.Call) and isinstance(call.func, ast.Name):
        fn = inline_locals(f.node, call.func)
        if isinstance(fn, ast.Attribute):
            c2 = copy.copy(call)
            c2.func = fn
            return c2
    return call


def _may_reach_audit(prog, f: FuncInfo, depth: int = 4) -> bool:
    """some call in the body of f is named audit or has a computed callee, or runs (as far as names resolve; a method on a receiver
    of unknown class stands for every method of that name in the package) a function of the package for which this holds; what lies
    deeper than `depth` calls counts as reached"""
    seen = {f}
    level = [f]
    for d in range(depth + 1):
        nxt = []
        for g in level:
            for x in walk_no_nested(g.node):
                if not isinstance(x, ast.Call):
                    continue
                name = call_name(x)
                if name is None or name in ('audit', 'getattr', 'eval', 'exec', 'map', 'methodcaller', 'attrgetter'):
                    return True
                tg = prog.resolve_call(g, x)
                if not tg and isinstance(x.func, ast.Name) and (any(isinstance(y, ast.Name) and y.id == x.func.id and isinstance(y.ctx, ast.Store) for y in ast.walk(g.node))
                                                                or x.func.id in {a_.arg for a_ in ast.walk(g.node.args) if isinstance(a_, ast.arg)}):
                    return True  # a call through a local name (a bound method kept in a variable, a parameter): a computed callee
                if not tg and not isinstance(x.func, (ast.Attribute, ast.Name)):
                    return True  # f(...)(...), table[k](...): computed as well
                if not tg and isinstance(x.func, ast.Attribute):
                    tg = prog.methods_named(name)
                for h in tg:
                    if h not in seen:
                        seen.add(h)
                        nxt.append(h)
        level = nxt
    return bool(level)


def audit_descends(prog, c: ClassInfo, f: FuncInfo) -> tuple[bool, str]:
    """the override reaches the audit of every child on every normal path and returns what the children reported"""
    cfg = cfg_of(f.node)
    rets = [n for n in walk_no_nested(f.node) if isinstance(n, ast.Return)]
    if not rets:
        return False, 'no return'
    db = f.positional_params()[1] if len(f.positional_params()) > 1 else 'database'
    ar = AttrRoles(prog, c)
    child_attrs = set()
    # attributes holding children (appear in the children template as @k -> attribute with that role)
    tmpl = ar.children_template()
    reach = []  # (cfg node, returned names it feeds, covers_all)
    for n in walk_no_nested(f.node):
        # super().audit(database) / Expression.audit(self, database)
        nv = _through_helper(c, _callee_resolved(f, n.value), prog) if isinstance(n, ast.Assign) else None
        if isinstance(n, ast.Assign) and isinstance(nv, ast.Call) and call_name(nv) == 'audit':
            recv = unparse(nv.func.value) if isinstance(nv.func, ast.Attribute) else ''
            args = [unparse(a) for a in nv.args] + [unparse(k.value) for k in nv.keywords]
            targets = [unparse(t) for t in (n.targets[0].elts if isinstance(n.targets[0], ast.Tuple) else [n.targets[0]])]
            if db not in args:
                continue
            covers = False
            if recv in ('super()', 'Expression', 'BinaryOperator', 'UnaryOperator'):
                covers = True
            elif recv.startswith('self.'):
                # the only child
                attr = recv[5:]
                role = ar.roles.get(attr, set())
                covers = len(role) == 1 and tmpl == next(iter(role))
            elif recv in ('expr', 'the_expression', 'expression') or True:
                # delegation to the selected member of a catalog
                src = [a for a in walk_no_nested(f.node) if isinstance(a, ast.Assign) and isinstance(a.targets[0], ast.Tuple) and recv in [unparse(x) for x in a.targets[0].elts] and unparse(a.value) == 'self.selected()']
                covers = bool(src)
            if covers:
                reach.append((n, targets, 'assign'))
    # loop over the children
    for lp in walk_no_nested(f.node):
        if isinstance(lp, ast.For) and unparse(lp.iter) in ('self.children', 'self.get_children()'):
            e = unparse(lp.target)
            inner = [a for a in ast.walk(lp) if isinstance(a, ast.Assign) and isinstance(a.value, ast.Call) and unparse(a.value.func) == f'{e}.audit']
            if len(inner) == 1 and isinstance(inner[0].targets[0], ast.Tuple):
                er, wa = (unparse(x) for x in inner[0].targets[0].elts)
                acc = {unparse(a.target): unparse(a.value) for a in ast.walk(lp) if isinstance(a, ast.AugAssign)}
                names = [k for k, v in acc.items() if v in (er, wa)]
                if len(names) == 2 and not any(isinstance(x, (ast.Break, ast.Continue)) for x in ast.walk(lp)):
                    reach.append((lp, names, 'loop'))
    # pure delegation: every return is `return <member>.audit(database)`
    deleg = []
    for r in rets:
        v = _through_helper(c, _callee_resolved(f, r.value), prog)
        if isinstance(v, ast.Call) and call_name(v) == 'audit' and isinstance(v.func, ast.Attribute) and db in [unparse(a) for a in v.args] + [unparse(k.value) for k in v.keywords]:
            recv = unparse(v.func.value)
            src = [a for a in walk_no_nested(f.node) if isinstance(a, ast.Assign) and isinstance(a.targets[0], ast.Tuple) and recv in [unparse(x) for x in a.targets[0].elts] and unparse(a.value) == 'self.selected()']
            if src or recv == 'super()':
                deleg.append(r)
    if deleg and len(deleg) == len(rets):
        return True, 'delegates to the audit of the selected member'
    if not reach:
        return False, 'no call of the audit of the children'
    for r in rets:
        if not isinstance(r.value, (ast.Tuple, ast.Call)):
            return False, f'returns {unparse(r.value)}'
        if isinstance(r.value, ast.Call):
            # return expr.audit(database)
            if call_name(_through_helper(c, _callee_resolved(f, r.value), prog)) == 'audit':
                continue
            return False, f'returns {unparse(r.value)}'
        names = [unparse(x) for x in r.value.elts]
        good = False
        for node, fed, kind in reach:
            if cfg.dominates(cfg.node_of(node), cfg.node_of(r)) and fed[:2] == names[:2]:
                # nothing re-initialises the accumulators in between
                reinit = [a for a in walk_no_nested(f.node) if isinstance(a, ast.Assign) and a is not node and any(unparse(t) in names for t in a.targets) and seq(a) > seq(node) and isinstance(a.value, (ast.List, ast.Tuple))]
                if not reinit:
                    good = True
        if not good:
            return False, f'the lists returned at line {r.lineno} do not carry what the children reported'
    return True, 'children audited on every path; their findings are returned'


_SET_METHODS = {'keys', 'issubset', 'issuperset', 'isdisjoint', 'difference', 'symmetric_difference', 'union', 'intersection'}
_SET_BUILTINS = {'set': set, 'frozenset': frozenset, 'len': len, 'bool': bool, 'sorted': sorted, 'list': list, 'tuple': tuple, 'all': all, 'any': any, 'dict': dict}


def _key_set_test(test: ast.expr, left: str, right: str):
    """what a test over the keys of two dictionaries `left` and `right` decides, found by evaluating it over every pair of
    small key sets (the expression may only use the two dictionaries, their key views, set operations and comparisons).
    ('equality', value on equal sets, None): the test separates equal key sets from unequal ones;
    ('weaker', value on equal sets, (keys_left, keys_right)): some unequal pair gets the answer of the equal pairs;
    (None, None, None): not evaluable, order dependent, or not constant on equal key sets"""
    import itertools

    class Sub(ast.NodeTransformer):
        def visit_Attribute(self, node):
            txt = unparse(node)
            if txt == left:
                return ast.Name(id='_L_', ctx=ast.Load())
            if txt == right:
                return ast.Name(id='_R_', ctx=ast.Load())
            return self.generic_visit(node)

    e = ast.fix_missing_locations(ast.Expression(body=Sub().visit(copy.deepcopy(test))))
    local = {x.id for c in ast.walk(e) if isinstance(c, ast.comprehension) for x in ast.walk(c.target) if isinstance(x, ast.Name)}
    for x in ast.walk(e):
        if isinstance(x, ast.Name) and x.id not in local and x.id not in _SET_BUILTINS and x.id not in ('_L_', '_R_'):
            return None, None, None
        if isinstance(x, ast.Attribute) and x.attr not in _SET_METHODS:
            return None, None, None
        if isinstance(x, (ast.Lambda, ast.NamedExpr, ast.Await, ast.Yield, ast.YieldFrom, ast.Starred, ast.JoinedStr)):
            return None, None, None
    if not any(isinstance(x, ast.Name) and x.id == '_L_' for x in ast.walk(e)) or not any(isinstance(x, ast.Name) and x.id == '_R_' for x in ast.walk(e)):
        return None, None, None
    code = compile(e, '<key-set-test>', 'eval')
    universe = (1, 2, 3)
    subsets = [frozenset(c) for k in range(len(universe) + 1) for c in itertools.combinations(universe, k)]
    table = {}
    for u in subsets:
        for a in subsets:
            vals = set()
            for order_u in (sorted(u), sorted(u, reverse=True)):
                for order_a in (sorted(a), sorted(a, reverse=True)):
                    try:
                        vals.add(bool(eval(code, {'__builtins__': {}, **_SET_BUILTINS, '_L_': dict.fromkeys(order_u), '_R_': dict.fromkeys(order_a)})))
                    except Exception:  # noqa: the expression does not evaluate on dictionaries
                        return None, None, None
            if len(vals) != 1:
                return None, None, None  # depends on the order of the keys: not a test of the key sets
            table[u, a] = vals.pop()
    on_equal = {v for (u, a), v in table.items() if u == a}
    if len(on_equal) != 1:
        return None, None, None
    v0 = on_equal.pop()
    wrong = sorted(((u, a) for (u, a), v in table.items() if u != a and v == v0), key=lambda p: (len(p[0]) + len(p[1]), sorted(p[0]), sorted(p[1])))
    if not wrong:
        return 'equality', v0, None
    # prefer a witness with non-empty sets
    wrong = [w for w in wrong if w[0] and w[1]] or wrong
    return 'weaker', v0, wrong[0]


def _verdict(r: ast.Return):
    """True / False for `return True[, msg]` / `return False[, msg]`, else None"""
    v = r.value
    if isinstance(v, ast.Tuple) and v.elts:
        v = v.elts[0]
    return v.value if isinstance(v, ast.Constant) and isinstance(v.value, bool) else None


def _loop_else_hoisted(stmts: list[ast.stmt]) -> list[ast.stmt]:
    """the statements with `for ...: B else: E` written `for ...: B` followed by E when B has no break of that loop (E then runs
    exactly once after the last iteration); shallow copies, the inner nodes are the nodes of the program"""
    out = []
    for s in stmts:
        c = s
        for field in ('body', 'orelse', 'finalbody'):
            v = getattr(s, field, None)
            if isinstance(v, list) and v and isinstance(v[0], ast.stmt):
                nv = _loop_else_hoisted(v)
                if any(a is not b for a, b in zip(nv, v)) or len(nv) != len(v):
                    if c is s:
                        c = copy.copy(s)
                    setattr(c, field, nv)
        if isinstance(c, (ast.For, ast.While)) and c.orelse and not _breaks(c):
            tail = c.orelse
            if c is s:
                c = copy.copy(s)
            c.orelse = []
            out.append(c)
            out.extend(tail)
        else:
            out.append(c)
    return out


def _breaks(lp) -> bool:
    """a break that leaves this loop"""
    todo = list(lp.body)
    while todo:
        n = todo.pop()
        if isinstance(n, ast.Break):
            return True
        if isinstance(n, (ast.For, ast.While, ast.FunctionDef, ast.AsyncFunctionDef, ast.ClassDef, ast.Lambda)):
            todo.extend(getattr(n, 'orelse', []) if isinstance(n, (ast.For, ast.While)) else [])
            continue
        todo.extend(ast.iter_child_nodes(n))
    return False


def _ends(stmts: list[ast.stmt]) -> bool:
    """the statements never fall through: they end with return / raise (on both arms of a final if)"""
    if not stmts:
        return False
    last = stmts[-1]
    if isinstance(last, (ast.Return, ast.Raise)):
        return True
    return isinstance(last, ast.If) and _ends(last.body) and _ends(last.orelse)


def _stale_loop_variables(f, every: bool = False, deciding_only: bool = True, searches: set | None = None):
    """(loop, names) for the for-loops of f whose variables are read after the loop without being assigned again (deciding_only: read
    where the value decides something - a test, the receiver or an argument of a call - not where it only feeds a message).
    A loop that is left by `break` is a search: after it the variables hold the element at which it stopped.  When its `else:`
    (the loop ran to its end) never falls through, what follows the loop is reached from the break only and the variables are
    not stale; otherwise the loop is reported with its names and its id is put in `searches` (the caller leaves the verdict open)."""
    out = []
    for lp in [n for n in walk_no_nested(f.node) if isinstance(n, ast.For)]:
        if _breaks(lp):
            if _ends(lp.orelse):
                if every:
                    out.append((lp, []))
                continue
            if searches is None:
                continue
            searches.add(id(lp))
        inside = {id(x) for x in ast.walk(lp)}
        tvars = {x.id for x in ast.walk(lp.target) if isinstance(x, ast.Name)} - {'_'}
        restored = {x.id for x in walk_no_nested(f.node) if isinstance(x, ast.Name) and isinstance(x.ctx, ast.Store) and id(x) not in inside and seq(x) > seq(lp)}
        # reads that decide something: in a test, or in the receiver / an argument of a call; a read that only feeds a message or the log does not
        deciding = set()
        for x in walk_no_nested(f.node):
            if id(x) in inside or seq(x) <= seq(lp):
                continue
            parts = []
            if isinstance(x, (ast.If, ast.While, ast.IfExp, ast.Assert)):
                parts = [x.test]
            elif isinstance(x, ast.comprehension):
                parts = list(x.ifs) + [x.iter]
            elif isinstance(x, ast.For):
                parts = [x.iter]
            elif isinstance(x, ast.Call) and not unparse(x.func).startswith(('logger.', 'logging.', 'print', 'warnings.')) and not (isinstance(x.func, ast.Attribute) and x.func.attr in ('format', 'join')):
                parts = [x.func] + list(x.args) + [k.value for k in x.keywords]
            for p_ in parts:
                todo = [p_]
                while todo:
                    y = todo.pop()
                    if isinstance(y, ast.JoinedStr):
                        continue
                    if isinstance(y, ast.Name):
                        deciding.add(id(y))
                    todo.extend(ast.iter_child_nodes(y))
        stale = sorted({x.id for x in walk_no_nested(f.node) if isinstance(x, ast.Name) and isinstance(x.ctx, ast.Load) and x.id in tvars and id(x) not in inside and seq(x) > seq(lp) and x.id not in restored
                        and (id(x) in deciding or not deciding_only)})
        if stale or every:
            out.append((lp, stale))
    return out


def _leaked_comprehension_variables(prog, f):
    """(comprehension, names): variables of a comprehension of f that are read, where the value decides something, at the level of the
    function although nothing binds them there (no assignment, no parameter, no loop, no name of the module, no builtin)"""
    import builtins

    a = f.node.args
    bound = {x.arg for x in a.posonlyargs + a.args + a.kwonlyargs} | ({a.vararg.arg} if a.vararg else set()) | ({a.kwarg.arg} if a.kwarg else set()) | set(dir(builtins))
    in_comp = set()
    comps = []
    for n in walk_no_nested(f.node):
        if isinstance(n, (ast.ListComp, ast.SetComp, ast.DictComp, ast.GeneratorExp)):
            in_comp |= {id(x) for x in ast.walk(n)}
            comps += n.generators
        elif isinstance(n, (ast.Import, ast.ImportFrom)):
            bound |= {(al.asname or al.name).split('.')[0] for al in n.names}
        elif isinstance(n, (ast.Global, ast.Nonlocal)):
            bound |= set(n.names)
        elif isinstance(n, ast.ExceptHandler) and n.name:
            bound.add(n.name)
    bound |= {x.id for x in walk_no_nested(f.node) if isinstance(x, ast.Name) and isinstance(x.ctx, ast.Store) and id(x) not in in_comp}
    for st in f.module.tree.body:
        for x in ([st] if isinstance(st, (ast.FunctionDef, ast.AsyncFunctionDef, ast.ClassDef, ast.Import, ast.ImportFrom)) else ast.walk(st)):
            if isinstance(x, (ast.FunctionDef, ast.AsyncFunctionDef, ast.ClassDef)):
                bound.add(x.name)
            elif isinstance(x, (ast.Import, ast.ImportFrom)):
                bound |= {(al.asname or al.name).split('.')[0] for al in x.names}
            elif isinstance(x, ast.Name) and isinstance(x.ctx, ast.Store):
                bound.add(x.id)
    deciding = set()
    for x in walk_no_nested(f.node):
        parts = [x.test] if isinstance(x, (ast.If, ast.While, ast.IfExp, ast.Assert)) else [x.iter] if isinstance(x, ast.For) else []
        if isinstance(x, ast.Call) and not unparse(x.func).startswith(('logger.', 'logging.', 'print', 'warnings.')) and not (isinstance(x.func, ast.Attribute) and x.func.attr in ('format', 'join')):
            parts = [x.func] + list(x.args) + [k.value for k in x.keywords]
        for p_ in parts:
            todo = [p_]
            while todo:
                y = todo.pop()
                if isinstance(y, ast.JoinedStr):
                    continue
                if isinstance(y, ast.Name) and id(y) not in in_comp:
                    deciding.add(id(y))
                todo.extend(ast.iter_child_nodes(y))
    free = {x.id for x in walk_no_nested(f.node) if isinstance(x, ast.Name) and isinstance(x.ctx, ast.Load) and id(x) in deciding and x.id not in bound}
    out = []
    for g in comps:
        names = sorted(free & {x.id for x in ast.walk(g.target) if isinstance(x, ast.Name)})
        if names:
            out.append((g, names))
            free -= set(names)
    return out


#: obligations whose failure contradicts the property (rule, construct pattern, why); every other failure is 'not recognised'
POSITIVE: list[tuple[str, str, str]] = [
    ('C12.R1', r'^MultipleExpression:override$', 'a catalog that inherits Expression.audit audits the children of the member, not the member'),
    ('C12.R5', r':loop-variables@', 'a loop variable is read after its loop: one element is examined, not all'),
    ('C12.R8', r'^get_value_and_derivatives:order$', 'the formula is prepared (ids, draws) before it is audited'),
    ('C12.R6', r':self\.theC\.|:the_cpp\.', 'engine-call contract'),
]


def run(ctx: Ctx) -> None:
    ctx.positive_table = list(POSITIVE)
    prog = ctx.prog
    ctx.rule('C12.R1', 'audit descent: every override of audit in the expression hierarchy reaches, on every normal path, the audit of every child (loop over the '
             'children, the single child, super().audit, or the selected member of a catalog) and returns the children\'s findings')
    ctx.rule('C12.R2', 'placement collectors: check_draws / check_rv / check_panel_trajectory union over all children in the base class, the leaf of the matching kind '
             'answers its name, the matching operator answers the empty set, nobody else overrides them (catalogs delegate)')
    ctx.rule('C12.R3', 'gates: the engine evaluation of an expression is reached only through get_value_and_derivatives after audit + BiogemeError on errors; in '
             'BIOGEME.__init__ the data audit and the formula audit (draws / random variables placement for every formula, panel placement for the log likelihood on both '
             'construction branches) precede the hand-over of the formulas unless skip_audit; simulate audits every formula before simulating')
    ctx.rule('C12.R4', 'error type: no raise of a non-exception; every raise in the anchor files constructs BiogemeError or a subclass, re-raises, or is one of the 12 frozen '
             '(function, exception) pairs')
    ctx.rule('C12.R5', 'nest validation reaches every model: each public model function with a nests parameter reaches check_partition / check_validity and raises '
             'BiogemeError on failure; validity predicates issue a positive verdict only after all their loops have finished; Nests refuses alternatives outside the choice set')
    ctx.rule('C12.R6', 'missing-data code: the attribute BIOGEME.__init__ writes on each formula is the attribute the calculator hands to the engine, declared in '
             'Expression.__init__; the estimation engine receives the declared code')
    ctx.rule('C12.R7', 'data audit: Database.__init__ refuses an empty table first and raises BiogemeError on any finding of _audit, which tests non-numeric columns and NaN')
    ctx.rule('C12.R8', 'audit before id plumbing: in an evaluation entry point the audit (which reports an absent column as BiogemeError) precedes the propagation of the '
             'id manager (which fails with a bare KeyError for that column)')
    ctx.not_decided += ['"a specification without such a fault is never rejected"', 'clarity of the messages', 'the missing-value test inside the engine']
    E = prog.cls('expressions.base_expressions', 'Expression')
    classes = [E] + prog.subclasses(E)
    # ---- R1
    for c in classes:
        f = c.methods.get('audit')
        if f is None:
            continue
        if c is E:
            ok, why = audit_descends(prog, c, f)
        elif not AttrRoles(prog, c).children_template() and c.name not in ('MultipleExpression', 'Catalog'):
            ok, why = True, 'leaf: no children'
        else:
            ok, why = audit_descends(prog, c, f)
        # no call of any audit at all in an override of a node with children is a contradiction; a call in a form the rule does not follow is not
        # (a call the rule cannot follow, or one that runs a function of the package from which an audit is reached, may be that audit)
        none_at_all = not ok and not _may_reach_audit(prog, f)
        ctx.add('C12.R1', f'{c.name}.audit', ok if (ok or none_at_all) else None, f, f'{c.name}.audit: {why}' + ('' if ok else (' - a fault below this node is not reported by the audit' if none_at_all else ' (the way the children are audited is not in the expected form)')), why, positive=none_at_all)
    ctx.floor('C12.R1', 8)
    # one name for two kinds of element is refused (obligation of C03.R3 on IdManager.prepare)
    ctx.rule('C12.R9', 'a name shared by two elements (parameters, random variables, draws, data columns) is refused: the duplicate test of IdManager.prepare covers all five kinds (obligation of C03.R3)')
    from . import c03

    sub3 = Ctx(prog, ctx.prop, ctx.tier)
    c03.run(sub3)
    got3 = 0
    for o in sub3.obligations:
        if o.construct == 'IdManager.prepare:duplicates':
            got3 += 1
            ctx.adopt('C12.R9', o)
    ctx.need(got3 == 1, 'the obligation of C03.R3 on the duplicate-name test')
    # MultipleExpression must override audit (the base version audits the children of the selected member, not the member)
    me = prog.cls('expressions.multiple_expressions', 'MultipleExpression')
    own = me.resolve('audit')
    own = own is not None and own.cls is not E  # its own override, or that of a base class placed before Expression
    ctx.add('C12.R1', 'MultipleExpression:override', own, me, 'a catalog audits the selected member itself' if own else 'MultipleExpression inherits Expression.audit: the own checks of the selected member are skipped', 'override')
    # ---- R2
    for m, (leaf, op) in COLLECTORS.items():
        base = E.methods[m]
        ok = body_is(base.body, f'_C = set(chain.from_iterable([_E.{m}() for _E in self.get_children()]))\nreturn _C') is not None or body_is(base.body, f'return set(chain.from_iterable([_E.{m}() for _E in self.get_children()]))') is not None
        ctx.add('C12.R2', f'Expression.{m}', ok, base, f'{m} unions over all children' if ok else f'base {m} does not union over all children', m)
        for c in classes:
            if c is E or m not in c.methods:
                continue
            g = c.methods[m]
            body = [unparse(s) for s in g.body]
            if c.name == leaf:
                ok = body_is(g.body, 'return {self.name}') is not None
                what = 'answers its own name'
            elif c.name == op:
                ok = body_is(g.body, 'return set()') is not None
                what = 'answers the empty set (everything below is properly placed)'
            elif c.name == 'MultipleExpression':
                ok = body_is(g.body, f'_U, _X = self.selected()\nreturn _X.{m}()') is not None
                what = 'delegates to the selected member'
            else:
                ok = False
                what = 'unexpected override'
            ctx.add('C12.R2', f'{c.name}.{m}', ok, g, f'{c.name}.{m} {what}' if ok else f'{c.name}.{m}: {what}: {body}', str(body))
        for need in (leaf, op):
            cc = prog.find_class(need, 'expressions')
            if m not in cc.methods:
                ctx.add('C12.R2', f'{need}.{m}', False, cc, f'{need} does not define {m}', 'missing')
    ctx.floor('C12.R2', 12)
    # ---- R3
    callers = prog.callers_of('calculate_function_and_derivatives')
    bad = [f.qualname for f, _ in callers if f.qualname != 'Expression.get_value_and_derivatives']
    ctx.add('C12.R3', 'calculate_function_and_derivatives:callers', not bad and len(callers) == 1, callers[0][0] if callers else E, 'the expression-level engine evaluation is reached only through get_value_and_derivatives' if not bad else f'also called from {bad}', str(bad))
    gv = E.methods['get_value_and_derivatives']
    cfg = cfg_of(gv.node)
    aud = [n for n in walk_no_nested(gv.node) if isinstance(n, ast.Assign) and unparse(n.value) == 'self.audit(database)']
    eng = [n for n in walk_no_nested(gv.node) if isinstance(n, ast.Call) and call_name(n) == 'calculate_function_and_derivatives']
    ok = len(aud) == 1 and len(eng) == 1 and isinstance(aud[0].targets[0], ast.Tuple)
    if ok:
        errs = unparse(aud[0].targets[0].elts[0])
        gate = [n for n in walk_no_nested(gv.node) if isinstance(n, ast.If) and unparse(n.test) == errs and isinstance(n.body[-1], ast.Raise) and 'BiogemeError' in unparse(n.body[-1])]
        ok = len(gate) == 1 and cfg.dominates(cfg.node_of(aud[0]), cfg.node_of(gate[0])) and cfg.dominates(cfg.node_of(gate[0]), cfg.node_of(eng[0]))
        # the list of findings goes from the audit to the gate untouched: nothing else mentions it (a statement that empties it, even in a log call)
        if ok:
            own = {id(x) for x in ast.walk(gate[0])} | {id(x) for x in ast.walk(aud[0])}
            ok = not any(isinstance(x, ast.Name) and x.id == errs and id(x) not in own for x in ast.walk(gv.node))
    ctx.add('C12.R3', 'get_value_and_derivatives:gate', ok, gv, 'audit, then BiogemeError on any finding, then the engine' if ok else 'the audit gate does not dominate the engine call', 'gate')
    B = prog.cls('biogeme', 'BIOGEME')
    init = B.methods['__init__']
    ci = cfg_of(init.node)
    setx = [n for n in walk_no_nested(init.node) if isinstance(n, ast.Call) and unparse(n.func) == 'self.theC.setExpressions']
    skip = [n for n in walk_no_nested(init.node) if isinstance(n, ast.If) and unparse(n.test) == 'not self.skip_audit']
    da = [n for n in skip if 'database._audit()' in unparse(n) and any(isinstance(x, ast.Raise) for x in ast.walk(n))]
    fa = [n for n in skip if [unparse(s) for s in n.body] == ['self._audit()']]
    ok = bool(setx) and len(da) == 1 and len(fa) == 1 and all(ci.dominates(ci.node_of(da[0]), ci.node_of(s)) and ci.dominates(ci.node_of(fa[0]), ci.node_of(s)) for s in setx)
    ctx.add('C12.R3', 'BIOGEME.__init__:audits', ok, init, 'data audit (raising) and formula audit precede setExpressions unless skip_audit' if ok else 'the audits do not dominate the hand-over of the formulas', 'audits')
    # panel placement on both branches: the test sits after the if/else that defines self.log_like
    pan = [n for n in walk_no_nested(init.node) if isinstance(n, ast.Assign) and unparse(n.value) == 'self.log_like.check_panel_trajectory()']
    ok = False
    if len(pan) == 1:
        cv = unparse(pan[0].targets[0])
        rz = [n for n in walk_no_nested(init.node) if isinstance(n, ast.If) and unparse(n.test) == cv and any(isinstance(x, ast.Raise) and 'BiogemeError' in unparse(x) for x in n.body)]
        defs = [n for n in walk_no_nested(init.node) if isinstance(n, (ast.Assign, ast.AnnAssign)) and unparse(n.targets[0] if isinstance(n, ast.Assign) else n.target) == 'self.log_like']
        guard = [n for n in walk_no_nested(init.node) if isinstance(n, ast.If) and pan[0] in n.body]
        ok = len(rz) == 1 and len(defs) == 2 and len(guard) == 1 and unparse(guard[0].test).replace(' ', '') in ('self.log_likeisnotNoneandself.database.is_panel()', 'self.database.is_panel()andself.log_likeisnotNone')
        # the guard is reached from both definitions and dominates the engine hand-over
        ok = ok and all(ci.reaches(ci.node_of(d), ci.node_of(guard[0])) and not any(d in g.body or d in g.orelse for g in [guard[0]]) for d in defs)
        ok = ok and all(ci.dominates(ci.node_of(guard[0]), ci.node_of(s)) for s in setx)
        # not nested inside the branch on the type of `formulas`
        ok = ok and not any(guard[0] in ast.walk(b) for n in walk_no_nested(init.node) if isinstance(n, ast.If) and 'isinstance(formulas, dict)' in unparse(n.test) for b in n.body + n.orelse)
    ctx.add('C12.R3', 'BIOGEME.__init__:panel-placement', ok, init, 'variables outside PanelLikelihoodTrajectory are refused for the log likelihood, however the formulas were passed' if ok else 'the panel placement test does not cover both ways of passing the log likelihood', 'panel')
    au = B.methods['_audit']
    loops = [n for n in walk_no_nested(au.node) if isinstance(n, ast.For) and unparse(n.iter) == 'self.formulas.values()']
    ok = False
    bnd = find(au.node, """
_ERRS = []
___
for _V in self.formulas.values():
    _CD = _V.check_draws()
    if _CD:
        ___
        _ERRS.append(__M1)
    _CR = _V.check_rv()
    if _CR:
        ___
        _ERRS.append(__M2)
    _E, _W = _V.audit(self.database)
    _ERRS += _E
    ___
""")
    if len(loops) == 1 and bnd is not None:
        errs = bnd['_ERRS']
        ok = not any(isinstance(x, (ast.Break, ast.Continue)) for x in ast.walk(loops[0]))
        ca = cfg_of(au.node)
        rz = [n for n in walk_no_nested(au.node) if isinstance(n, ast.If) and unparse(n.test) == errs and any(isinstance(x, ast.Raise) and 'BiogemeError' in unparse(x) for x in n.body)]
        ok = ok and len(rz) == 1 and ca.must_pass(ca.node_of(loops[0]), {ca.node_of(rz[0])})
    stale_au = [(lp, st_) for lp, st_ in _stale_loop_variables(au) if unparse(lp.iter).startswith('self.formulas')]  # (loops left by break are not listed)
    if not ok and stale_au:
        lp, st_ = stale_au[0]
        ctx.add('C12.R3', 'BIOGEME._audit', False, (au.file, lp.lineno), f'{", ".join(st_)} (variable of the loop over {unparse(lp.iter)}) is read after the loop has ended: the statements that follow the loop examine the last '
                'formula only, so a fault in any other formula of the dictionary is not reported by the audit', 'stale', positive=True)
    else:
        ctx.add('C12.R3', 'BIOGEME._audit', ok, au, 'every formula is tested for misplaced draws and random variables and audited; any finding raises BiogemeError' if ok else '_audit no longer covers every formula or no longer raises', 'audit')
    sim = B.methods['simulate']
    cs = cfg_of(sim.node)
    loops = [n for n in walk_no_nested(sim.node) if isinstance(n, ast.For) and unparse(n.iter) == 'self.formulas.values()' and '.audit(' in unparse(n)]
    call = [n for n in walk_no_nested(sim.node) if isinstance(n, ast.Call) and unparse(n.func) == 'self.theC.simulateSeveralFormulas']
    ok = len(loops) == 1 and len(call) == 1 and cs.dominates(cs.node_of(loops[0]), cs.node_of(call[0])) and 'raise BiogemeError' in unparse(loops[0])
    ctx.add('C12.R3', 'BIOGEME.simulate:audit', ok, sim, 'every formula is audited (raising) before the simulation' if ok else 'simulate does not audit every formula before simulating', 'simulate')
    ok = has(sim.node, """
if self.database.is_panel():
    for _F in self.formulas.values():
        _C = _F.count_panel_trajectory_expressions()
        if _C != 1:
            ___
            raise BiogemeError(__MSG)
    ___
else:
    ___
""")
    ctx.add('C12.R3', 'BIOGEME.simulate:panel', ok, sim, 'on panel data every simulated formula needs exactly one PanelLikelihoodTrajectory' if ok else 'the panel test of simulate changed', 'panel')
    ctx.floor('C12.R3', 7)
    # ---- R4
    exc_mod = prog.module('exceptions')
    lib = set(exc_mod.classes)
    n_r = 0
    for f in prog.all_functions():
        rel = f.file.replace('src/biogeme/', '')
        if rel not in ANCHOR_FILES:
            continue
        bound = {n.name for n in ast.walk(f.node) if isinstance(n, ast.ExceptHandler) and n.name}
        for n in walk_no_nested(f.node):
            if not isinstance(n, ast.Raise):
                continue
            n_r += 1
            if n.exc is None:
                ctx.add('C12.R4', f'{f.qualname}@raise', True, (f.file, n.lineno), 're-raise', 'reraise')
                continue
            e = n.exc
            if isinstance(e, ast.Name) and e.id in bound:
                ctx.add('C12.R4', f'{f.qualname}@raise', True, (f.file, n.lineno), 're-raise of the caught exception', 'reraise')
                continue
            if not isinstance(e, ast.Call):
                ctx.add('C12.R4', f'{f.qualname}@raise', False, (f.file, n.lineno), f'raise {unparse(e)[:60]}: not an exception instance (TypeError at run time instead of the library error)', unparse(e)[:60])
                continue
            cls_name = (dotted(e.func) or '').split('.')[-1]
            r = prog.resolve_expr(f.module, e.func)
            is_lib = r is not None and r[0] == 'class' and r[1].module is exc_mod
            if is_lib:
                ctx.add('C12.R4', f'{f.qualname}@raise', True, (f.file, n.lineno), f'raises {cls_name}', cls_name)
            else:
                owner = f.qualname
                frozen = (owner, cls_name) in FOREIGN_RAISES
                ctx.add('C12.R4', f'{owner}@raise {cls_name}', frozen, (f.file, n.lineno),
                        f'raises {cls_name}: ' + (FOREIGN_RAISES[(owner, cls_name)] if frozen else 'not the library error type (BiogemeError) and not one of the frozen exceptions'), cls_name)
    if n_r < 100:
        raise AnalysisError(f'C12.R4: only {n_r} raise statements found in the anchor files')
    # ---- R5
    for mod in ('models.nested', 'models.cnl'):
        m = prog.module(mod)
        for f in m.functions.values():
            if 'nests' not in f.positional_params() or f.decorator_call('deprecated') is not None:
                continue
            seen, todo = {f}, [f]
            validates = raising = False
            while todo:
                g = todo.pop()
                for n in walk_no_nested(g.node):
                    if isinstance(n, ast.Call):
                        if isinstance(n.func, ast.Attribute) and n.func.attr in ('check_partition', 'check_validity') and unparse(n.func.value) == 'nests':
                            validates = True
                        for h in prog.resolve_call(g, n):
                            if h.module.name.startswith('biogeme.models') and h not in seen:
                                seen.add(h)
                                todo.append(h)
                for chk in ('check_partition', 'check_validity'):
                    if has(g.node, f"""
_OK, _MSG = nests.{chk}()
if not _OK:
    ___
    raise BiogemeError(__M)
"""):
                        raising = True
            ctx.add('C12.R5', f'{mod}.{f.name}', validates and raising, f, f'{f.name} validates the nests and raises BiogemeError on failure' if validates and raising else f'{f.name} builds the model without validating the nests', 'validate')
    nm = prog.module('nests')
    for c in nm.classes.values():
        for f in c.methods.values():
            if not f.name.startswith('check_'):
                continue
            for n in walk_no_nested(f.node):
                if isinstance(n, ast.Return) and _verdict(n) is True:
                    # inside a loop = in the statements that are repeated; the `else:` of a loop runs once, after the last iteration
                    inside = [lp for lp in walk_no_nested(f.node) if isinstance(lp, (ast.For, ast.While)) and any(x is n for s_ in lp.body for x in ast.walk(s_))]
                    # a contradiction when the loop is a test of every element (it can refuse one) and accepts while elements remain; a `while`
                    # loop that draws the elements itself, or a loop that never refuses, may be a search: left open
                    # ... as the plain last word of an iteration: under a condition of its own (`if <there is nothing to compare>: return True`)
                    # the acceptance may be justified by that condition for all elements at once - left open
                    sure = any(isinstance(lp, ast.For) and any(isinstance(x, ast.Return) and _verdict(x) is False for s_ in lp.body for x in ast.walk(s_)) and any(s_ is n for s_ in lp.body) for lp in inside)
                    ctx.add('C12.R5', f'{c.name}.{f.name}:verdict', (False if sure else None) if inside else True, (f.file, n.lineno),
                            'the positive verdict is issued after all loops have finished' if not inside else 'a positive verdict is returned from inside a loop: later elements are never examined', 'verdict', positive=bool(sure))
    # a loop variable read after its loop stands for the last element only: the test that uses it examines one pair, not all
    for c in nm.classes.values():
        for f in c.methods.values():
            if not f.name.startswith('check_'):
                continue
            searches: set = set()
            mentioned = {id(lp): st_ for lp, st_ in _stale_loop_variables(f, every=True, deciding_only=False, searches=searches)}
            for lp, stale in _stale_loop_variables(f, every=True, searches=searches):
                if stale and id(lp) in searches:
                    ctx.add('C12.R5', f'{c.name}.{f.name}:loop-variables@{unparse(lp.target)}', None, (f.file, lp.lineno),
                            f'shape not recognised - expected: the variables of a loop are used inside it only ({", ".join(stale)} is read after a loop that `break` may have left at the element found)', 'search')
                    continue
                ctx.add('C12.R5', f'{c.name}.{f.name}:loop-variables@{unparse(lp.target)}', (None if mentioned.get(id(lp)) else True) if not stale else False, (f.file, lp.lineno),
                        'the variables of the loop are used inside it only' if not stale else f'{", ".join(stale)} (variable of the loop over {unparse(lp.iter)[:40]}) is read after the loop has ended: what follows examines the last element only, not every element', 'stale')
            # a variable of a comprehension read outside it: the normal form writes a collecting loop as a comprehension, so this is a
            # variable of that loop read after it (in the source as written a comprehension variable does not exist outside)
            for comp, names in _leaked_comprehension_variables(prog, f):
                ctx.add('C12.R5', f'{c.name}.{f.name}:loop-variables@{unparse(comp.target)}', False, (f.file, getattr(comp.iter, 'lineno', f.line)),
                        f'{", ".join(names)} (variable of the loop over {unparse(comp.iter)[:40]}) is read after the loop has ended: what follows examines the last element only, not every element', 'stale-collected')
    cp = prog.func('nests', 'NestsForNestedLogit.check_partition')
    ok = body_is(cp.body, """
_VU, _MU = self.check_union()
_VI, _MI = self.check_intersection()
return (_VU and _VI, __MSG)
""") is not None
    ctx.add('C12.R5', 'NestsForNestedLogit.check_partition', ok, cp, 'a partition needs both the union and the intersection test' if ok else 'check_partition no longer combines both tests', 'partition')
    ci_ = prog.func('nests', 'NestsForNestedLogit.check_intersection')
    ci_view = copy.copy(ci_.node)
    ci_view.body = _loop_else_hoisted(ci_.node.body)
    ok = has(ci_view, """
for _I, _N in enumerate(self.tuple_of_nests):
    ___
    for _J, _O in enumerate(self.tuple_of_nests):
        if _I != _J:
            _X = _N.intersection(_O)
            if _X:
                ___
                return (False, __MSG)
""")
    if not ok:
        # the same test over every unordered pair
        for it in ('itertools.combinations(self.tuple_of_nests, 2)', 'combinations(self.tuple_of_nests, 2)', 'itertools.permutations(self.tuple_of_nests, 2)', 'permutations(self.tuple_of_nests, 2)'):
            ok = ok or has(ci_view, f"""
for _N, _O in {it}:
    _X = _N.intersection(_O)
    if _X:
        ___
        return (False, __MSG)
""")
    adjacent = [unparse(lp.iter) for lp in walk_no_nested(ci_.node) if isinstance(lp, ast.For) and re.fullmatch(r'(itertools\.)?pairwise\(self\.tuple_of_nests\)|zip\(self\.tuple_of_nests(\[:-1\])?, self\.tuple_of_nests\[1:\]\)', unparse(lp.iter))]
    # ... and every intersection of two nests in the method is taken inside such a loop
    meets = [x for x in walk_no_nested(ci_.node) if (isinstance(x, ast.Call) and call_name(x) == 'intersection') or (isinstance(x, ast.BinOp) and isinstance(x.op, ast.BitAnd) and 'alone' not in unparse(x))]
    in_adjacent = {id(x) for lp in walk_no_nested(ci_.node) if isinstance(lp, ast.For) and unparse(lp.iter) in adjacent for s_ in lp.body for x in ast.walk(s_)}
    other_loops = [lp for lp in walk_no_nested(ci_.node) if isinstance(lp, (ast.For, ast.comprehension)) and 'tuple_of_nests' in unparse(lp.iter) and unparse(lp.iter) not in adjacent and id(lp) not in in_adjacent
                   and any(id(x) in {id(y) for y in ast.walk(lp)} for x in meets)]
    if not ok and adjacent and meets and all(id(x) in in_adjacent for x in meets) and not other_loops:
        ctx.add('C12.R5', 'NestsForNestedLogit.check_intersection', False, ci_, f'the nests are intersected over {adjacent[0]}, i.e. each nest with the next one only: an alternative shared by two nests that are not neighbours in the '
                'tuple (the first and the third, say) is not detected and the overlapping nests are accepted', 'pairs', positive=True)
    else:
        ctx.add('C12.R5', 'NestsForNestedLogit.check_intersection', ok, ci_, 'every ordered pair of distinct nests is intersected' if ok else 'check_intersection no longer compares all pairs', 'pairs')
    ni = prog.func('nests', 'Nests.__init__')
    ok = has(ni.node, """
_INV = self.mev_alternatives - set(self.choice_set)
if _INV:
    ___
    raise BiogemeError(__MSG)
""")
    ctx.add('C12.R5', 'Nests.__init__', ok, ni, 'alternatives outside the choice set are refused' if ok else 'Nests.__init__ no longer refuses foreign alternatives', 'foreign')
    ctx.floor('C12.R5', 14)
    # ---- R6
    written = [unparse(n.targets[0]).split('.')[-1] for n in walk_no_nested(init.node) if isinstance(n, ast.Assign) and isinstance(n.targets[0], ast.Attribute) and unparse(n.value) == 'self.missing_data' and unparse(n.targets[0].value) != 'self']
    calc = prog.func('expressions.calculator', 'calculate_function_and_derivatives')
    read = [unparse(c.args[0]).split('.')[-1] for c in walk_no_nested(calc.node) if isinstance(c, ast.Call) and call_name(c) == 'setMissingData']
    declared = [unparse(n.targets[0]).split('.')[-1] for n in walk_no_nested(E.methods['__init__'].node) if isinstance(n, ast.Assign) and unparse(n.targets[0]).startswith('self.missing')]
    ok = len(written) == 1 and written == read and written[0] in declared
    ctx.add('C12.R6', 'missing-data attribute', ok, init, f'BIOGEME writes .{written[0] if written else "?"}, the calculator reads .{read[0] if read else "?"} (declared: {declared})' + ('' if ok else ' - the declared code never reaches expression-level evaluation'), f'{written}/{read}')
    ecc(ctx, 'C12.R6', only_class='pyBiogeme', methods={'setMissingData'})
    ecc(ctx, 'C12.R6', only_class='pyEvaluateOneExpression', methods={'setMissingData'})
    md = [n for n in walk_no_nested(init.node) if isinstance(n, ast.Assign) and unparse(n.targets[0]) == 'self.missing_data']
    ok = len(md) == 1 and unparse(md[0].value) == "self.biogeme_parameters.get_value(name='missing_data')"
    ctx.add('C12.R6', 'BIOGEME.missing_data', ok, init, 'the code comes from the parameter missing_data' if ok else 'missing_data no longer read from the parameters', 'param')
    # ---- R7
    D = prog.cls('database', 'Database')
    di = D.methods['__init__']
    cd = cfg_of(di.node)
    empty = [n for n in walk_no_nested(di.node) if isinstance(n, ast.If) and unparse(n.test) == 'len(pandas_database.index) == 0' and any(isinstance(x, ast.Raise) and 'BiogemeError' in unparse(x) for x in n.body)]
    au2 = [n for n in walk_no_nested(di.node) if isinstance(n, ast.Assign) and unparse(n.value) == 'self._audit()']
    ok = len(empty) == 1 and len(au2) == 1
    if ok:
        errs = unparse(au2[0].targets[0].elts[0])
        rz = [n for n in walk_no_nested(di.node) if isinstance(n, ast.If) and unparse(n.test) == errs and any(isinstance(x, ast.Raise) and 'BiogemeError' in unparse(x) for x in n.body)]
        ok = len(rz) == 1 and cd.must_pass(0, {cd.node_of(au2[0])}) and cd.dominates(cd.node_of(empty[0]), cd.node_of(au2[0]))
    ctx.add('C12.R7', 'Database.__init__', ok, di, 'empty data refused, then the audit runs and any finding raises BiogemeError' if ok else 'the data gate of Database.__init__ changed', 'gate')
    da_ = D.methods['_audit']
    ok = body_is(da_.body, """
_ERRS = []
_WARNS = []
for _COL, _DT in self.data.dtypes.items():
    if not np.issubdtype(_DT, np.number):
        _E = __M1
        _ERRS.append(_E)
if self.data.isnull().values.any():
    _E = __M2
    _ERRS.append(_E)
return (_ERRS, _WARNS)
""") is not None
    ctx.add('C12.R7', 'Database._audit', ok, da_, 'every column must be numeric and no value may be NaN' if ok else 'the data audit no longer tests dtype and NaN for all columns', 'audit')
    # ---- LogLogit consistency tests
    ll = prog.find_class('LogLogit', 'expressions').methods['audit']
    # the test whose one branch records the first error sends there exactly the unequal key sets of utilities and availabilities (the
    # normal form writes a negative test `a != b` as `a == b` with the branches exchanged: both orientations are patterns)
    ok = False
    for arms, on_equal in (('    ___\n    _ERRS.append(__M1)\nelse:\n    ___', False), ('    ___\nelse:\n    ___\n    _ERRS.append(__M1)', True)):
        bnd_ll = find(ll.node, f"""
_ERRS = []
___
if __T:
{arms}
_ALTS = list(self.util)
if database is None:
    _CH = np.array([self.choice.get_value_c()])
else:
    _CH = database.values_from_database(self.choice)
_OK = np.isin(_CH, _ALTS)
_BAD = np.argwhere(~_OK)
if _BAD.any():
    ___
    _ERRS.append(__M2)
___
return (_ERRS, _WARNS)
""")
        ok = ok or (bnd_ll is not None and _key_set_test(inline_locals(ll.node, bnd_ll['__T'][1]), 'self.util', 'self.av')[:2] == ('equality', on_equal))
    # positive part: utilities and availabilities must have the same keys - the first test on both dictionaries tells equal key sets from
    # unequal ones, however it is spelt (==, set(...) wrappers, symmetric difference, `a - b or b - a`, two inclusions ...)
    def _both(e):
        txt = unparse(inline_locals(ll.node, e))
        return 'self.util' in txt and 'self.av' in txt

    tests = sorted([n for n in walk_no_nested(ll.node) if isinstance(n, (ast.If, ast.IfExp)) and _both(n.test)], key=seq)
    for n in tests[:1]:
        t = inline_locals(ll.node, n.test)
        verdict, on_equal, witness = _key_set_test(t, 'self.util', 'self.av')
        if verdict == 'equality':
            ctx.add('C12.R1', 'LogLogit.audit:same-keys', True, (ll.file, n.lineno), 'utilities and availabilities are required to have the same keys', unparse(t))
            continue
        if verdict is None:
            ctx.add('C12.R1', 'LogLogit.audit:same-keys', None, (ll.file, n.lineno), f'the consistency test {unparse(t)} is not in a form the rule can evaluate', unparse(t))
            continue
        # the test answers for some unequal key sets what it answers for equal ones.  A contradiction when nothing else in the branch taken
        # by equal key sets (or after the test) compares the two dictionaries again
        equal_branch = (n.orelse if not on_equal else n.body) if isinstance(n, ast.If) else [n.orelse if not on_equal else n.body]
        other_branch = (n.body if not on_equal else n.orelse) if isinstance(n, ast.If) else [n.body if not on_equal else n.orelse]
        skipped = {id(x) for b_ in other_branch for x in ast.walk(b_)} | {id(x) for x in ast.walk(n.test)}
        again = [x for x in walk_no_nested(ll.node) if id(x) not in skipped and x is not n and isinstance(x, (ast.If, ast.IfExp, ast.While, ast.Assert, ast.comprehension))
                 and any(_both(y) for y in ([x.test] if not isinstance(x, ast.comprehension) else x.ifs))]
        # ... nor computes anything else from both (a value kept in a local that is bound more than once is not seen through by the tests above)
        again += [x for x in walk_no_nested(ll.node) if id(x) not in skipped and isinstance(x, (ast.BinOp, ast.Compare, ast.BoolOp, ast.Call)) and 'self.util' in unparse(x) and 'self.av' in unparse(x)]
        u, a = witness
        ctx.add('C12.R1', 'LogLogit.audit:same-keys', None if again else False, (ll.file, n.lineno),
                f'the consistency test {unparse(t)} is not an equality of the two key sets: utilities for {sorted(u)} with availabilities for {sorted(a)} pass it as equal key sets do - '
                + ('an availability without utility is accepted' if u < a else 'a utility without availability is accepted' if a < u else 'different alternatives on the two sides are accepted'),
                unparse(t), positive=not again)
    ctx.add('C12.R1', 'LogLogit.audit:consistency', ok, ll, 'utilities/availabilities key mismatch and invalid choices are errors' if ok else 'consistency tests of LogLogit.audit changed', 'consistency')
    # ---- R8
    prep = [n for n in walk_no_nested(gv.node) if isinstance(n, ast.Expr) and unparse(n.value).startswith('self.prepare(')]
    ok = bool(aud) and all(cfg.dominates(cfg.node_of(aud[0]), cfg.node_of(p)) for p in prep)
    ctx.add('C12.R8', 'get_value_and_derivatives:order', ok, (gv.file, prep[0].lineno if prep else gv.line),
            'the audit precedes the id plumbing' if ok else 'prepare() (id plumbing) runs before audit(): a variable absent from the data surfaces as KeyError instead of BiogemeError', 'prepare-before-audit')
    for s in setx[:1]:
        ok = all(ci.dominates(ci.node_of(fa[0]), ci.node_of(x)) for x in [n for n in walk_no_nested(init.node) if isinstance(n, ast.Expr) and unparse(n.value) == 'self.reset_id_manager()']) if fa else False
        ctx.add('C12.R8', 'BIOGEME.__init__:order', ok, init, 'the formula audit precedes the id plumbing' if ok else 'reset_id_manager precedes the audit', 'order')
    _variable_audit_reads_the_table(ctx, prog)


#: wrappers that keep the elements of a collection of names (membership answers alike)
_SAME_ELEMENTS_CALLS = {'list', 'set', 'tuple', 'frozenset', 'sorted'}
_SAME_ELEMENTS_METHODS = {'to_list', 'tolist', 'keys', 'copy', 'unique'}


def _database_path(fn: ast.AST, e: ast.expr, root: str) -> list[str] | None:
    """attribute path of `e` below the name `root` (`list(root.a.b.to_list())` -> ['a', 'b']), locals of `fn` seen through; None when `e` is
    anything else"""
    e = inline_locals(fn, e)
    while True:
        if isinstance(e, ast.Call) and not e.keywords:
            if isinstance(e.func, ast.Name) and e.func.id in _SAME_ELEMENTS_CALLS and len(e.args) == 1:
                e = e.args[0]
                continue
            if isinstance(e.func, ast.Attribute) and e.func.attr in _SAME_ELEMENTS_METHODS and not e.args:
                e = e.func.value
                continue
        break
    path = []
    while isinstance(e, ast.Attribute):
        path.append(e.attr)
        e = e.value
    if isinstance(e, ast.Name) and e.id == root and path:
        return path[::-1]
    return None


def _variable_audit_reads_the_table(ctx: Ctx, prog) -> None:
    """C12.R8 (second half): the audit of a Variable decides "the column exists" on the object the id plumbing and the engine read.

    IdManager.prepare numbers the variables from one attribute of the Database (the table, `database.data`); Variable.set_id_manager looks the
    name up in that numbering (KeyError when absent) and the engine receives the same table.  The membership test of Variable.audit must
    therefore be made on the columns of that attribute.  A test made on another attribute that Database fills separately (a record built
    from the columns at some moment) answers differently as soon as the table is edited: contradiction.  Anything else: not recognised."""
    V = prog.find_class('Variable', 'expressions')
    va = V.methods.get('audit') if V is not None else None
    D = prog.cls('database', 'Database')
    prep = prog.cls('expressions.idmanager', 'IdManager').methods.get('prepare')
    if va is None or prep is None:
        return
    # the attribute of the Database the id manager takes the names of the variables from
    read = set()
    for n in walk_no_nested(prep.node):
        if isinstance(n, ast.Attribute) and isinstance(n.ctx, ast.Load):
            p = _database_path(prep.node, n, 'self')
            if p and len(p) >= 2 and p[0] == 'database':
                read.add(p[1])
    read -= set(D.methods)
    params = va.positional_params()
    db = params[1] if len(params) > 1 and params[0] == 'self' else (params[0] if len(params) == 1 else None)
    tests = [n for n in walk_no_nested(va.node) if isinstance(n, ast.Compare) and len(n.ops) == 1 and isinstance(n.ops[0], (ast.In, ast.NotIn))
             and unparse(inline_locals(va.node, n.left)) == 'self.name']
    if len(read) != 1 or db is None or len(tests) != 1:
        ctx.add('C12.R8', 'Variable.audit:columns', None, va, 'shape not recognised - expected: one membership test of self.name in the columns of the table the id manager numbers the variables from', 'columns')
        return
    table = next(iter(read))
    t = tests[0]
    path = _database_path(va.node, t.comparators[0], db)
    if path in ([table], [table, 'columns'], [table, 'columns', 'values']):
        ctx.add('C12.R8', 'Variable.audit:columns', True, (va.file, t.lineno), f'the name of the variable is looked for in the columns of {db}.{table}, the table the id manager numbers the variables from', 'columns')
        return
    # another attribute of the Database: a record the class fills by itself (assigned in its methods from something that is not the table itself)
    separate = False
    if path and path[0] != table and path[0] not in D.methods:
        stores = [(g, n) for g in D.methods.values() for n in walk_no_nested(g.node) if isinstance(n, (ast.Assign, ast.AnnAssign)) and n.value is not None
                  for tg in (n.targets if isinstance(n, ast.Assign) else [n.target]) if unparse(tg) == f'self.{path[0]}']
        alias = [1 for g, n in stores if (_database_path(g.node, n.value, 'self') or [''])[0] == table]
        separate = bool(stores) and not alias and not any(path[0] in c.methods for c in D.mro())
        where_set = sorted({g.qualname for g, n in stores if not (isinstance(n.value, ast.Constant) and n.value.value is None)})
    if separate:
        ctx.add('C12.R8', 'Variable.audit:columns', False, (va.file, t.lineno),
                f'Variable.audit looks for the name of the variable in {db}.{".".join(path)}, a record that Database keeps apart from the table (assigned in {", ".join(where_set) or "Database"}), '
                f'whereas the id manager numbers the variables from {db}.{table}.columns and the engine receives {db}.{table}: after the table has been edited (column dropped or added) '
                f'the audit accepts a variable that is absent from the data (bare KeyError later instead of BiogemeError) and refuses one that is present', 'columns', positive=True)
        return
    ctx.add('C12.R8', 'Variable.audit:columns', None, (va.file, t.lineno), f'shape not recognised - expected: membership of self.name in the columns of {db}.{table} (found: {unparse(t)[:80]})', 'columns')


_X = 'src/biogeme/expressions/'
_B = 'src/biogeme/biogeme.py'
MUTANTS = [
    dict(name='Integrate.audit no longer audits its child (seed C12/1)', rule='C12.R1', file=_X + 'unary_expressions.py',
         old="        list_of_errors, list_of_warnings = self.child.audit(database)\n        if not self.child.embed_expression('RandomVariable'):",
         new="        list_of_errors = []\n        list_of_warnings = []\n        if not self.child.embed_expression('RandomVariable'):"),
    dict(name='pre-fix: comparison operators do not audit their operands', rule='C12.R1', file=_X + 'comparison_expressions.py',
         old='        list_of_errors, list_of_warnings = super().audit(database)', new='        list_of_errors = []\n        list_of_warnings = []'),
    dict(name='pre-fix: catalogs inherit the base audit', rule='C12.R1', file=_X + 'multiple_expressions.py',
         old='    def audit(self, database=None) -> tuple[list[str], list[str]]:\n        """Performs various checks on the selected expression.\n\n        :param database: database object\n        :return: tuple list_of_errors, list_of_warnings\n        """\n        _, expr = self.selected()\n        return expr.audit(database)\n\n', new=''),
    dict(name='LogLogit audits only the utilities', rule='C12.R1', file=_X + 'logit_expressions.py',
         old='        for e in self.children:\n            err, war = e.audit(database)', new='        for e in self.util.values():\n            err, war = e.audit(database)'),
    dict(name='MonteCarlo drops the findings of its child', rule='C12.R1', file=_X + 'unary_expressions.py',
         old="        list_of_errors, list_of_warnings = self.child.audit(database)\n        if database is None:", new="        self.child.audit(database)\n        list_of_errors, list_of_warnings = [], []\n        if database is None:"),
    dict(name='base audit skips the second operand', rule='C12.R1', file=_X + 'base_expressions.py',
         old='        for e in self.get_children():\n            if not isinstance(e, Expression):\n                the_error = f"Invalid expression: {e}"',
         new='        for e in self.get_children()[:1]:\n            if not isinstance(e, Expression):\n                the_error = f"Invalid expression: {e}"'),
    dict(name='bioNormalCdf hides draws below it', rule='C12.R2', file=_X + 'unary_expressions.py',
         old="    def __str__(self) -> str:\n        return f'bioNormalCdf({self.child})'", new="    def __str__(self) -> str:\n        return f'bioNormalCdf({self.child})'\n\n    def check_draws(self) -> set[str]:\n        return set()"),
    dict(name='Integrate no longer absorbs its random variable', rule='C12.R2', file=_X + 'unary_expressions.py',
         old='    def check_rv(self) -> set[str]:\n        """List of random variables defined outside of \'Integrate\'\n\n        :return: List of names of variables\n        :rtype: list(str)\n        """\n        return set()',
         new='    def check_rv(self) -> set[str]:\n        return self.child.check_rv()'),
    dict(name='errors of the expression audit only logged', rule='C12.R3', file=_X + 'base_expressions.py',
         old='            logger.warning(error_msg)\n            raise BiogemeError(error_msg)\n\n        if (hessian or bhhh) and not gradient:', new='            logger.warning(error_msg)\n\n        if (hessian or bhhh) and not gradient:'),
    dict(name='pre-fix: panel placement only for a single expression', rule='C12.R3', file=_B,
         old='        if self.log_like is not None and self.database.is_panel():\n            check_variables = self.log_like.check_panel_trajectory()',
         new='        if not isinstance(formulas, dict) and self.database.is_panel():\n            check_variables = self.log_like.check_panel_trajectory()'),
    dict(name='_audit tests the placement of draws for the log likelihood only', rule='C12.R3', file=_B,
         old='        for v in self.formulas.values():\n            check_draws = v.check_draws()', new='        for v in [self.log_like]:\n            check_draws = v.check_draws()'),
    dict(name='simulate audits after simulating', rule='C12.R3', file=_B,
         old='        for v in self.formulas.values():\n            list_of_errors, list_of_warnings = v.audit(database=self.database)', new='        for v in []:\n            list_of_errors, list_of_warnings = v.audit(database=self.database)'),
    dict(name='pre-fix: raise of a string', rule='C12.R4', file=_X + 'unary_expressions.py', old='            raise BiogemeError(error_msg)\n\n        return 0 if v == 0 else np.log(v)', new='            raise (error_msg)\n\n        return 0 if v == 0 else np.log(v)'),
    dict(name='new ValueError in IdManager', rule='C12.R4', file=_X + 'idmanager.py', old='            raise BiogemeError(error_msg)\n\n        elementary_expressions_indices', new='            raise ValueError(error_msg)\n\n        elementary_expressions_indices'),
    dict(name='lognested builds without validation', rule='C12.R5', file='src/biogeme/models/nested.py',
         old='    ok, message = nests.check_partition()\n    if not ok:\n        raise excep.BiogemeError(message)\n\n    if nests.alone is None:\n        log_gi = {}\n    else:\n        log_gi = {i: Numeric(0) for i in nests.alone}',
         new='    if nests.alone is None:\n        log_gi = {}\n    else:\n        log_gi = {i: Numeric(0) for i in nests.alone}'),
    dict(name='check_intersection returns inside the loop (seed C12/2)', rule='C12.R5', file='src/biogeme/nests.py',
         old='                        logger.error(error_msg)\n                        return False, error_msg\n        return True, \'\'\n\n    def check_partition',
         new='                        logger.error(error_msg)\n                        return False, error_msg\n            return True, \'\'\n\n    def check_partition'),
    dict(name='check_partition ignores the intersection test', rule='C12.R5', file='src/biogeme/nests.py',
         old="        return valid_union and valid_intersection, msg_union + '; ' + msg_intersection", new="        return valid_union, msg_union + '; ' + msg_intersection"),
    dict(name='pre-fix: missing data written to an unread attribute', rule='C12.R6', file=_B, old='            f.missingData = self.missing_data', new='            f.missing_data = self.missing_data'),
    dict(name='engine gets a literal missing-data code', rule='C12.R6', file=_B, old='        self.theC.setMissingData(self.missing_data)', new='        self.theC.setMissingData(99999)'),
    dict(name='NaN no longer audited', rule='C12.R7', file='src/biogeme/database.py',
         old='        if self.data.isnull().values.any():', new='        if False and self.data.isnull().values.any():'),
    dict(name='data audit findings only logged', rule='C12.R7', file='src/biogeme/database.py',
         old="        if list_of_errors:\n            logger.warning('\\n'.join(list_of_errors))\n            raise BiogemeError('\\n'.join(list_of_errors))\n\n    def _audit", new="        if list_of_errors:\n            logger.warning('\\n'.join(list_of_errors))\n\n    def _audit"),
]
NEUTRAL = [
    dict(name='Integrate.audit via super()', file=_X + 'unary_expressions.py',
         old="        list_of_errors, list_of_warnings = self.child.audit(database)\n        if not self.child.embed_expression('RandomVariable'):", new="        list_of_errors, list_of_warnings = super().audit(database)\n        if not self.child.embed_expression('RandomVariable'):"),
    dict(name='message of a BiogemeError reworded', file=_X + 'base_expressions.py', old='"If the hessian or the BHHH matrix is calculated, "', new='"When the hessian or the BHHH matrix is requested, "'),
]
