"""C10 - simulated and numerical integrals equal the average / integral they denote (Python-side plumbing)."""

from __future__ import annotations

import ast
import re

from ..cfg import cfg_of
from ..core import inline_locals, AnalysisError, call_name, unparse, walk_no_nested
from ..packs import ecc
from ..report import Ctx
from ..pattern import body_is, find, find_expr, has, has_expr


#: obligations whose failure contradicts the property (rule, construct pattern, why); every other failure is 'not recognised'
POSITIVE: list[tuple[str, str, str]] = [
    ('C10.R4', r':record$', 'the record interpreted from get_signature is not the one the engine parses for this tag'),
    ('C10.R4', r'\.get_signature$', 'an id written in the record belongs to a node whose signature is not emitted before it'),
]


def _order_source(e: ast.expr, leaf, same_elements: bool = False):
    """What fixes the order in which `e` is traversed: the wrappers that keep the order of what they wrap (list(x), tuple(x),
    [*x], dict(x), x.keys() / x.items() / x.copy(), a comprehension with one `for` and no `if`) are removed and `leaf`
    classifies what is left (returns None when it does not know it).  same_elements: the wrappers must also deliver the
    very elements (keys) of what they wrap: no .items(), a comprehension yields its own variable."""
    while True:
        if same_elements and isinstance(e, ast.Call) and isinstance(e.func, ast.Attribute) and e.func.attr == 'items':
            return None
        if same_elements and isinstance(e, (ast.ListComp, ast.GeneratorExp)) and not (
                len(e.generators) == 1 and isinstance(e.generators[0].target, ast.Name) and isinstance(e.elt, ast.Name) and e.elt.id == e.generators[0].target.id):
            return None
        if isinstance(e, ast.Call) and not e.keywords and len(e.args) == 1 and isinstance(e.func, ast.Name) and e.func.id in ('list', 'tuple', 'dict', 'iter'):
            e = e.args[0]
        elif isinstance(e, ast.Call) and not e.keywords and not e.args and isinstance(e.func, ast.Attribute) and e.func.attr in ('keys', 'items', 'copy'):
            e = e.func.value
        elif isinstance(e, (ast.List, ast.Tuple)) and len(e.elts) == 1 and isinstance(e.elts[0], ast.Starred):
            e = e.elts[0].value
        elif isinstance(e, (ast.ListComp, ast.GeneratorExp)) and len(e.generators) == 1 and not e.generators[0].ifs and not e.generators[0].is_async:
            e = e.generators[0].iter
        else:
            return leaf(e)


def _order_of_names(e: ast.expr):
    """('names' | 'sorted' | 'dict', <text of the IdManager>) for the list of names handed to generate_draws: X.draws.names,
    sorted(<the keys of X.draw_types() or of X.draws.expressions>), or those keys in the order of the dictionary; None otherwise."""

    def leaf(x):
        t = unparse(x)
        m = re.fullmatch(r'(.*)\.draws\.names', t)
        if m:
            return 'names', m.group(1)
        m = re.fullmatch(r'(.*)\.draw_types\(\)', t) or re.fullmatch(r'(.*)\.draws\.expressions', t)
        if m:
            return 'dict', m.group(1)
        return None

    if isinstance(e, ast.Call) and isinstance(e.func, ast.Name) and e.func.id == 'sorted' and len(e.args) == 1 and not e.keywords:
        src = _order_source(e.args[0], leaf, True)
        return ('sorted', src[1]) if src else None
    if isinstance(e, ast.Call) and isinstance(e.func, ast.Name) and e.func.id == 'sorted':
        return None
    return _order_source(e, leaf, True)


def _draw_state(gd) -> set:
    """the attributes of the database that generate_draws stores (self.X = ..., self.X[k] = ...): what it leaves behind for the next call"""
    out = set()
    for n in walk_no_nested(gd.node):
        for t in (n.targets if isinstance(n, ast.Assign) else [n.target] if isinstance(n, (ast.AugAssign, ast.AnnAssign)) else []):
            while isinstance(t, ast.Subscript):
                t = t.value
            if isinstance(t, ast.Attribute) and isinstance(t.value, ast.Name) and t.value.id == 'self':
                out.add(t.attr)
    return out


def _reads_draw_state(guard: str, D, gd) -> bool:
    """the condition (text of an expression) reads, on the database, an attribute that generate_draws stores, or calls a method of
    the database whose body reads one"""
    state = _draw_state(gd)
    try:
        e = ast.parse(guard, mode='eval').body
    except SyntaxError:
        return False
    called = {id(c.func) for c in ast.walk(e) if isinstance(c, ast.Call)}
    for a in ast.walk(e):
        if not (isinstance(a, ast.Attribute) and unparse(a.value) in ('self.database', 'database')):
            continue
        if a.attr in state and id(a) not in called:
            return True
        m = D.methods.get(a.attr)
        if m is not None and id(a) in called and any(isinstance(x, ast.Attribute) and isinstance(x.value, ast.Name) and x.value.id == 'self' and x.attr in state
                                                     and isinstance(x.ctx, ast.Load) for x in walk_no_nested(m.node)):
            return True
    return False


def _sorted_in_place(func_node: ast.AST, e: ast.expr, use: ast.AST):
    """`x = <list(...)>` followed, in the same block and before the statement of the use, by `x.sort()` and nothing else that touches x:
    the value of x at the use is sorted(<list(...)>).  Returns that expression, or None."""
    if not isinstance(e, ast.Name):
        return None
    occ = [n for n in walk_no_nested(func_node) if isinstance(n, ast.Name) and n.id == e.id]
    if sum(isinstance(n.ctx, ast.Store) for n in occ) != 1 or any(isinstance(n.ctx, ast.Del) for n in occ):
        return None
    for body in _bodies_of(func_node):
        for k, st in enumerate(body):
            if isinstance(st, ast.Assign) and len(st.targets) == 1 and isinstance(st.targets[0], ast.Name) and st.targets[0].id == e.id:
                if not (isinstance(st.value, ast.Call) and isinstance(st.value.func, ast.Name) and st.value.func.id == 'list' and len(st.value.args) == 1 and not st.value.keywords):
                    return None  # (a fresh list: nobody else sees the sort)
                srt = [j for j in range(k + 1, len(body)) if isinstance(body[j], ast.Expr) and isinstance(body[j].value, ast.Call) and unparse(body[j].value) == f'{e.id}.sort()']
                if len(srt) != 1:
                    return None
                # every other mention of x comes after the sort, in the same block (or below it)
                rest = {id(n) for j in range(srt[0] + 1, len(body)) for n in ast.walk(body[j])}
                own = {id(n) for n in ast.walk(body[srt[0]])} | {id(st.targets[0])}
                if any(id(n) not in rest and id(n) not in own for n in occ) or id(use) not in rest:
                    return None
                # ... and only reads it as a whole (no method called on it, no item stored)
                for j in range(srt[0] + 1, len(body)):
                    for n in ast.walk(body[j]):
                        if isinstance(n, (ast.Attribute, ast.Subscript)) and isinstance(n.value, ast.Name) and n.value.id == e.id:
                            return None
                return ast.Call(func=ast.Name(id='sorted', ctx=ast.Load()), args=[st.value], keywords=[])
    return None


def _bodies_of(node: ast.AST):
    for n in walk_no_nested(node):
        for field in ('body', 'orelse', 'finalbody'):
            v = getattr(n, field, None)
            if isinstance(v, list) and v and isinstance(v[0], ast.stmt):
                yield v
        if isinstance(n, ast.Try):
            for h in n.handlers:
                yield h.body


def run(ctx: Ctx) -> None:
    ctx.positive_table = list(POSITIVE)
    prog = ctx.prog
    ctx.rule('C10.R1', 'draw table: every call of generate_draws passes (draw_types(), draws.names, n) of the same IdManager; draw_types pairs each name with the type of '
             'the expression of that same name; inside, column i is generated for the i-th name of the list, with the generator registered (native first, then user) '
             'under the type declared for that name; the stacked array is moved to [unit, draw, variable]; bioDraws.drawId is the position of its name in draws.names')
    ctx.rule('C10.R2', 'seed: np.random.seed(seed) under seed != 0 dominates the first construction of the IdManager / generation of draws in BIOGEME.__init__')
    ctx.rule('C10.R3', 'reserved names: set_random_number_generators refuses every native key before the user generators are stored')
    ctx.rule('C10.R4', 'records of MonteCarlo, Integrate, Derive and bioDraws carry the child / the kind index of the named variable / the unique index of the named element (C01.R3) and the draws reach the engine in the draws slot')
    ctx.not_decided += ['the mean over draws, quadrature accuracy, the derivative operator (engine)']
    D = prog.cls('database', 'Database')
    gd = D.methods['generate_draws']
    ps = gd.positional_params()
    types_p, names_p, n_p = ps[1], ps[2], ps[3]
    callers = [(f, c) for f, c in prog.callers_of('generate_draws') if f.decorator_call('deprecated') is None]
    n = 0
    for f, c in callers:
        n += 1
        # the arguments by parameter, written positionally or with keywords
        byname = dict(zip((types_p, names_p, n_p), [a for a in c.args if not isinstance(a, ast.Starred)]))
        for k in c.keywords:
            if k.arg:
                byname.setdefault(k.arg, k.value)
        plain = len(c.args) + len(c.keywords) == 3 and set(byname) == {types_p, names_p, n_p}
        args = [unparse(a) for a in c.args] + [f'{k.arg}={unparse(k.value)}' for k in c.keywords]
        ok = None
        from_dict = False
        if plain:
            t_ = inline_locals(f.node, byname[types_p])
            m = re.fullmatch(r'(.*)\.draw_types\(\)', unparse(t_))
            names_ = _sorted_in_place(f.node, byname[names_p], c) or byname[names_p]
            order = _order_of_names(inline_locals(f.node, names_))
            # draws.names is sorted(draws.expressions), and draw_types() has the keys of draws.expressions: sorted(<either>) is draws.names
            if m is not None and order is not None and order[0] in ('names', 'sorted') and order[1] == m.group(1):
                ok = True
            elif order is not None and order[0] == 'dict':
                # names in the order of a dictionary follow the order of appearance in the formulas, not the order that defines drawId
                ok, from_dict = False, True
        ctx.add('C10.R1', f'{f.qualname}:generate_draws', ok, (f.file, c.lineno),
                f'generate_draws({", ".join(args)})' + ('' if ok else (': the names come from a dictionary (order of appearance in the formulas); column i of the table must belong to draws.names[i], the sorted order that defines drawId'
                                                                         if from_dict else ': the arguments are not in the expected form (draw_types(), draws.names, n)')), str(args), positive=from_dict)
    ctx.need(n >= 2, 'at least two callers of generate_draws')
    # the table is regenerated whenever ids are prepared for a formula with draws: the only admissible guards are "the formula needs draws" and "there is a database"
    prep_ = prog.func('expressions.idmanager', 'IdManager.prepare')
    gcalls = [c for c in walk_no_nested(prep_.node) if isinstance(c, ast.Call) and call_name(c) == 'generate_draws']
    for c in gcalls:
        guards = []
        for i_ in walk_no_nested(prep_.node):
            if isinstance(i_, ast.If) and any(x is c for st_ in i_.body for x in ast.walk(st_)):
                guards += [unparse(v) for v in (i_.test.values if isinstance(i_.test, ast.BoolOp) and isinstance(i_.test.op, ast.And) else [i_.test])]
        # "there is a database", however it is spelt
        present = {f'{d_} is not None' for d_ in ('self.database', 'database')} | {f'None is not {d_}' for d_ in ('self.database', 'database')} | \
            {f'not {d_} is None' for d_ in ('self.database', 'database')} | {f'{d_} != None' for d_ in ('self.database', 'database')} | {'self.database', 'database'}
        extra = [g_ for g_ in guards if g_ != 'self.requires_draws' and g_ not in present]
        # a further condition that consults the STATE the database keeps about its draws (what generate_draws itself stores: the table, the
        # types; read directly or through a method of the database that reads it) makes the generation depend on what another formula
        # left there; a condition on anything else of the database (a method object, the data) is not understood: open
        reuse = [g_ for g_ in extra if _reads_draw_state(g_, D, gd)]
        okg = 'self.requires_draws' in guards and not extra
        ctx.add('C10.R1', 'IdManager.prepare:regenerates', okg if (okg or ('self.requires_draws' in guards and reuse)) else None, (prep_.file, c.lineno),
                'the draws are generated every time the ids of a formula with draws are prepared' if okg else
                (f'the draws are generated only when `{" and ".join(reuse)}` also holds: a table left by another formula (other variables, other types) is reused, so a variable is averaged over a series that is not its own' if reuse
                 else 'the condition under which the draws are generated is not in the expected form' + (f' ({" and ".join(extra)})' if extra else '')), 'regenerate', positive=bool(reuse))
    idm = prog.cls('expressions.idmanager', 'IdManager')
    dt = idm.methods['draw_types']
    rets = [x for x in walk_no_nested(dt.node) if isinstance(x, ast.Return)]
    ok = False
    det = unparse(rets[0].value) if rets else ''
    if len(rets) == 1 and isinstance(rets[0].value, ast.DictComp):
        dc = rets[0].value
        g = dc.generators[0]
        if isinstance(g.target, ast.Tuple) and unparse(g.iter) == 'self.draws.expressions.items()' and not g.ifs:
            nm, ex = (unparse(x) for x in g.target.elts)
            ok = unparse(dc.key) == nm and unparse(dc.value) == f'{ex}.drawType'
    zipped = False
    if not ok and len(rets) == 1 and isinstance(rets[0].value, ast.DictComp):
        it_ = rets[0].value.generators[0].iter
        zipped = isinstance(it_, ast.Call) and call_name(it_) == 'zip' and len(it_.args) == 2 and unparse(it_.args[0]).endswith('.names') and unparse(it_.args[1]).endswith('.expressions.values()')
    ctx.add('C10.R1', 'IdManager.draw_types', ok if (ok or zipped) else None, dt, 'type of a name = drawType of the expression registered under that name' if ok else
            (f'draw_types pairs the sorted names with the expressions in their order of appearance ({det[:100]}): a name receives the type of another variable' if zipped else f'draw_types is not in the expected form: {det[:120]}'), det, positive=zipped)
    E = prog.cls('expressions.base_expressions', 'Expression')
    dd = E.methods['dict_of_draw_types']
    ok = body_is(dd.body, '_D = self.dict_of_elementary_expression(TypeOfElementaryExpression.DRAWS)\nreturn {_N: _E.drawType for _N, _E in _D.items()}') is not None
    ctx.add('C10.R1', 'Expression.dict_of_draw_types', ok, dd, 'name -> drawType of the same expression' if ok else 'dict_of_draw_types changed', 'ddt')
    GEN = f"""
_L = [None] * len(__LEN)
for _I, _V in enumerate(__SEQ):
    NAMEDEF
    _T = {types_p}[_NAME]
    ___
    _G = native_random_number_generators.get(_T)
    if _G is None:
        _G = self.userRandomNumberGenerators.get(_T)
        if _G is None:
            ___
            raise BiogemeError(__MSG)
    _L[_I] = _G.generator(self.get_sample_size(), {n_p})
    ___
self.theDraws = np.array(_L)
___
self.theDraws = np.moveaxis(self.theDraws, 0, -1)
return self.theDraws
"""
    from ..pattern import find as _find

    # the second lookup nested in the first test, or the two tests in sequence (the second can only hold after the first did)
    GEN2 = GEN.replace("""        _G = self.userRandomNumberGenerators.get(_T)
        if _G is None:
            ___
            raise BiogemeError(__MSG)
""", """        _G = self.userRandomNumberGenerators.get(_T)
    if _G is None:
        ___
        raise BiogemeError(__MSG)
""")
    assert GEN2 != GEN
    bg = None
    for gen in (GEN, GEN2):
        bg = bg or _find(gd.node, gen.replace('NAMEDEF', '_NAME = _V')) or _find(gd.node, gen.replace('    NAMEDEF\n', '').replace('_NAME', '_V'))
    if bg is None:
        # the pairs (name, declared type of that name) prepared beforehand: for i, (name, type) in enumerate((n, types[n]) for n in names)
        for gen in (GEN, GEN2):
            gen_ = gen.replace('for _I, _V in enumerate(__SEQ):', 'for _I, (_NAME, _T) in enumerate(__SEQ):').replace('    NAMEDEF\n', '').replace(f'    _T = {types_p}[_NAME]\n', '')
            assert 'NAMEDEF' not in gen_ and f'{types_p}[' not in gen_ and '(_NAME, _T)' in gen_, gen_
            b2 = _find(gd.node, gen_)
            if b2 is None:
                continue
            pairs = inline_locals(gd.node, b2['__SEQ'][1])
            if isinstance(pairs, ast.Call) and isinstance(pairs.func, ast.Name) and pairs.func.id in ('list', 'tuple', 'iter') and len(pairs.args) == 1 and not pairs.keywords:
                pairs = pairs.args[0]
            if isinstance(pairs, (ast.ListComp, ast.GeneratorExp)) and len(pairs.generators) == 1 and not pairs.generators[0].ifs and isinstance(pairs.generators[0].target, ast.Name) \
                    and unparse(pairs.elt) == f'({pairs.generators[0].target.id}, {types_p}[{pairs.generators[0].target.id}])':
                # same obligations on the sequence the names are taken from
                bg = dict(b2)
                bg['__SEQ'] = (b2['__SEQ'][0], pairs.generators[0].iter)
                break
    ok = None
    why = 'shape not recognised - expected: one column per name of `names`, filled by the generator of the declared type of that name (native, else user, else error), variable axis moved last'

    def leaf_(x):
        # what the loop runs over, once the order-preserving wrappers are removed: the list of names or the dictionary of types
        return 'names' if isinstance(x, ast.Name) and x.id == names_p else 'dict' if isinstance(x, ast.Name) and x.id == types_p else None

    if bg is not None:
        seq_, len_ = inline_locals(gd.node, bg['__SEQ'][1]), inline_locals(gd.node, bg['__LEN'][1])
        seqv, lenv = unparse(seq_), unparse(len_)
        o_seq, o_len = _order_source(seq_, leaf_, True), _order_source(len_, leaf_)
        if o_seq == 'names' and o_len == 'names':
            ok = True
        elif o_seq == 'dict':
            ok = False
            why = f'the columns of the draw table are laid out over {seqv} (length {lenv}): column i must belong to {names_p}[i], the sorted names by which the expressions address their series'
        else:
            why = f'shape not recognised - expected: the columns of the draw table laid out over {names_p} (found {seqv}, length {lenv})'
    if bg is None:
        # which sequence numbers the slots of the list that becomes the table?
        # (the list from which self.theDraws is built: a list filled for some other purpose - a lookup prepared beforehand - says nothing about the columns)
        table_src = {x.id for a_ in walk_no_nested(gd.node) if isinstance(a_, ast.Assign) and unparse(a_.targets[0]) == 'self.theDraws'
                     for x in ast.walk(inline_locals(gd.node, a_.value)) if isinstance(x, ast.Name)}
        for lp_ in [x for x in walk_no_nested(gd.node) if isinstance(x, ast.For) and isinstance(x.iter, ast.Call) and call_name(x.iter) == 'enumerate' and x.iter.args]:
            src_n = inline_locals(gd.node, lp_.iter.args[0])
            src_ = unparse(src_n)
            fills = any(isinstance(a_, ast.Assign) and isinstance(a_.targets[0], ast.Subscript) and isinstance(lp_.target, ast.Tuple) and unparse(a_.targets[0].slice) == unparse(lp_.target.elts[0])
                        and isinstance(a_.targets[0].value, ast.Name) and a_.targets[0].value.id in table_src for a_ in ast.walk(lp_))
            # the text of the source may well mention the dictionary of types (to look the type of each name up): what counts is what it runs over
            if fills and _order_source(src_n, leaf_) == 'dict':
                ok = False
                why = f'slot i of the table is filled for the i-th entry of {src_} (the order of the dictionary of types, i.e. of appearance in the formulas): column i must belong to {names_p}[i], the sorted names by which the expressions address their series'
    if ok is not None and any(isinstance(x, ast.Name) and isinstance(x.ctx, ast.Store) and x.id in (types_p, names_p, n_p) for x in ast.walk(gd.node)):
        why = 'shape not recognised - a parameter of generate_draws is re-bound inside' + (f' - {why}' if ok is False else '')
        ok = None  # its order (value) there is not the one it arrived with
    if ok and bg is not None:
        # the statements that the pattern lets pass (`___`) must leave alone what the pattern has matched: the variables it bound,
        # the list of columns, the table
        allowed = {'_L': 1, '_I': 1, '_V': 1, '_NAME': 1, '_T': 1, '_G': 2}
        stores: dict = {}
        comp_vars = {id(y) for x in walk_no_nested(gd.node) if isinstance(x, ast.comprehension) for y in ast.walk(x.target)}  # (a scope of their own)
        for x in walk_no_nested(gd.node):
            if isinstance(x, ast.Name) and isinstance(x.ctx, (ast.Store, ast.Del)) and id(x) not in comp_vars:
                stores[x.id] = stores.get(x.id, 0) + 1
        over = [v for k, v in bg.items() if k in allowed and isinstance(v, str) and stores.get(v, 0) > allowed[k]]
        lst = bg.get('_L')
        touched = [unparse(x) for x in walk_no_nested(gd.node) if isinstance(x, ast.Attribute) and isinstance(x.value, ast.Name) and x.value.id == lst]
        n_items = sum(1 for x in walk_no_nested(gd.node) if isinstance(x, ast.Subscript) and isinstance(x.ctx, (ast.Store, ast.Del)) and isinstance(x.value, ast.Name) and x.value.id == lst)
        n_table = 0
        for x in walk_no_nested(gd.node):
            for t in (x.targets if isinstance(x, (ast.Assign, ast.Delete)) else [x.target] if isinstance(x, (ast.AugAssign, ast.AnnAssign)) else []):
                while isinstance(t, ast.Subscript):
                    t = t.value
                n_table += unparse(t) == 'self.theDraws'
        t_methods = [unparse(x) for x in walk_no_nested(gd.node) if isinstance(x, ast.Call) and isinstance(x.func, ast.Attribute) and unparse(x.func.value) == 'self.theDraws']
        if over or touched or n_items != 1 or n_table != 2 or t_methods:
            ok = None
            why = 'shape not recognised - between the recognised statements ' + (
                f'{", ".join(over)} is assigned again' if over else f'the list of columns is used through {touched[0]}' if touched else 'the list of columns is stored into more than once' if n_items != 1
                else 'the table self.theDraws is stored once more' if n_table != 2 else f'the table is changed through {t_methods[0]}')
    ctx.add('C10.R1', 'Database.generate_draws:columns', ok, gd, 'column i holds the series of the i-th name, generated with the generator of that name\'s declared type (native, else user, else error); the variable axis is moved last' if ok else why, 'columns', positive=ok is False)
    from .c01 import leaf_tables

    sub = Ctx(prog, ctx.prop, ctx.tier)
    leaf_tables(sub)
    for o in sub.obligations:
        if o.construct in ('bioDraws.set_id_manager', 'bioDraws.dict_of_elementary_expression', 'RandomVariable.set_id_manager', 'IdManager.prepare:tables', 'expressions_names_indices'):
            ctx.adopt('C10.R1', o)
    ctx.floor('C10.R1', 9)

    B = prog.cls('biogeme', 'BIOGEME')
    init = B.methods['__init__']
    cfg = cfg_of(init.node)
    seedif = [x for x in walk_no_nested(init.node) if isinstance(x, ast.If) and unparse(x.test) == 'self.seed != 0' and [unparse(s) for s in x.body] == ['np.random.seed(self.seed)']]
    sd = [x for x in walk_no_nested(init.node) if isinstance(x, ast.Assign) and unparse(x.targets[0]) == 'self.seed']
    users = [x for x in walk_no_nested(init.node) if isinstance(x, ast.Expr) and unparse(x.value) in ('self.reset_id_manager()', 'self._generate_draws(self.number_of_draws)', 'self._audit()')]
    ok = len(seedif) == 1 and len(sd) == 1 and unparse(sd[0].value) == "self.biogeme_parameters.get_value(name='seed')" and len(users) >= 3 and all(cfg.dominates(cfg.node_of(seedif[0]), cfg.node_of(u)) for u in users)
    ctx.add('C10.R2', 'BIOGEME.__init__:seed', ok, init, 'the generator is seeded (when seed != 0) before any draw is generated' if ok else 'np.random.seed no longer precedes the generation of draws', 'seed')
    # every source of randomness of the draw generators is the global numpy stream that np.random.seed controls
    # the module-level functions of numpy.random: all of them draw from the one global RandomState that np.random.seed sets
    LEGACY = {'beta', 'binomial', 'bytes', 'chisquare', 'choice', 'dirichlet', 'exponential', 'f', 'gamma', 'geometric', 'gumbel', 'hypergeometric', 'laplace', 'logistic', 'lognormal',
              'logseries', 'multinomial', 'multivariate_normal', 'negative_binomial', 'noncentral_chisquare', 'noncentral_f', 'normal', 'pareto', 'permutation', 'poisson', 'power',
              'rand', 'randint', 'randn', 'random', 'random_integers', 'random_sample', 'ranf', 'rayleigh', 'sample', 'seed', 'shuffle', 'standard_cauchy', 'standard_exponential',
              'standard_gamma', 'standard_normal', 'standard_t', 'triangular', 'uniform', 'vonmises', 'wald', 'weibull', 'zipf'}
    # generators of their own, which np.random.seed does not reach
    NP_OWN = {'default_rng', 'RandomState', 'Generator', 'SeedSequence', 'PCG64', 'PCG64DXSM', 'MT19937', 'Philox', 'SFC64'}
    NP = ('np.random.', 'numpy.random.')
    n_sources = 0
    for modname in ('draws', 'native_draws', 'database'):
        m = prog.module(modname)
        std_random = any(isinstance(n, ast.Import) and any(a.name == 'random' and a.asname is None for a in n.names) for n in ast.walk(m.tree))
        # bare names imported from a module: name -> (module, original name)
        imported = {(a.asname or a.name): (n.module, a.name) for n in ast.walk(m.tree) if isinstance(n, ast.ImportFrom) and n.module and n.level == 0 for a in n.names}
        for fn in m.all_functions:
            for c in walk_no_nested(fn.node):
                if not isinstance(c, ast.Call):
                    continue
                d = unparse(c.func)
                last = d.rsplit('.', 1)[-1]
                if isinstance(c.func, ast.Name) and d in imported:
                    mod_, last = imported[d]
                    full = f'{mod_}.{last}'
                else:
                    full = d
                if full.startswith(NP) and full.count('.') == 2 and last == 'seed':
                    # the stream BIOGEME has seeded is seeded again where the draws are made: from the clock / the system when no seed is given
                    fresh_seed = (not c.args and not c.keywords) or (len(c.args) == 1 and not c.keywords and isinstance(c.args[0], ast.Constant) and c.args[0].value is None)
                    ctx.add('C10.R2', f'{modname}.{fn.qualname}:{d}', False if fresh_seed else None, (fn.file, c.lineno),
                            f'{unparse(c)} re-seeds the global stream from the system where the draws are generated: the seed set by BIOGEME no longer determines the draws of {fn.qualname}' if fresh_seed
                            else f'shape not recognised - expected: the global stream is seeded by BIOGEME only ({unparse(c)} in {fn.qualname})', d, positive=fresh_seed)
                    continue
                if full.startswith(NP) and full.count('.') == 2 and last in LEGACY:
                    n_sources += 1
                    continue
                fresh = (full.startswith(NP) and last in NP_OWN) or (full.startswith('random.') and (std_random or full != d)) or full.startswith('secrets.') or full == 'os.urandom'
                if fresh:
                    ctx.add('C10.R2', f'{modname}.{fn.qualname}:{d}', False, (fn.file, c.lineno),
                            f'{d}(...) draws from a generator that np.random.seed does not control: with a non-zero seed the draws of {fn.qualname} differ from one run to the next', d, positive=True)
                elif full.startswith(NP) and full.count('.') == 2:
                    ctx.add('C10.R2', f'{modname}.{fn.qualname}:{d}', None, (fn.file, c.lineno), f'shape not recognised - expected: a function of numpy.random known to use the global stream or known not to ({d})', d)
    ctx.add('C10.R2', 'draw generators:sources', n_sources >= 5, D, f'{n_sources} calls on the global numpy stream (the one BIOGEME seeds) and no other source of randomness in draws / native_draws / database'
            if n_sources >= 5 else f'only {n_sources} calls on the global numpy stream found in draws / native_draws / database: sources of randomness not recognised', 'sources')
    srg = D.methods['set_random_number_generators']
    c2 = cfg_of(srg.node)
    p = srg.positional_params()[1]
    loops = [x for x in walk_no_nested(srg.node) if isinstance(x, ast.For) and unparse(x.iter) == 'native_random_number_generators']
    store = [x for x in walk_no_nested(srg.node) if isinstance(x, ast.Assign) and unparse(x.targets[0]) == 'self.userRandomNumberGenerators']
    ok = len(loops) == 1 and len(store) == 1 and has(srg.node, f'for _K in native_random_number_generators:\n    if _K in {p}:\n        ___\n        raise ValueError(__MSG)') and c2.dominates(c2.node_of(loops[0]), c2.node_of(store[0]))
    ctx.add('C10.R3', 'Database.set_random_number_generators', ok, srg, 'a user generator cannot take the name of a native one' if ok else 'reserved names are no longer refused before the user generators are stored', 'reserved')
    # what is registered is exactly what this call received, key by key
    from ..pattern import _parse, m_node

    oks = False
    det = ''
    if len(store) == 1:
        val = inline_locals(srg.node, store[0].value)
        det = unparse(val)[:140]
        oks = m_node(_parse(f'{{_K: convert_random_generator_tuple(the_tuple=_T) for _K, _T in {p}.items()}}')[0].value, val, {}) or \
            m_node(_parse(f'{{_K: convert_random_generator_tuple(_T) for _K, _T in {p}.items()}}')[0].value, val, {})
    if not oks and 'self.userRandomNumberGenerators' not in det:
        oks = None  # another spelling of the table: nothing says that old generators are kept
    ctx.add('C10.R3', 'Database.set_random_number_generators:registered', oks, srg,
            'the registered generators are those of this call, under their own names' if oks
            else f'the table of user generators is not exactly the converted argument of this call ({det}): a type name may keep another generator than the one just registered' if oks is False else f'shape not recognised - expected: the table is the converted argument of this call ({det})', det, positive=oks is False)
    from . import c01

    sub = Ctx(prog, ctx.prop, ctx.tier)
    c01.run(sub)
    for o in sub.obligations:
        if o.construct in ('MonteCarlo:record', 'Integrate:record', 'Derive:record', 'bioDraws:record', 'RandomVariable:record', 'Integrate.get_signature', 'Derive.get_signature',
                           'bioDraws.get_signature', 'RandomVariable.get_signature', 'bioDraws.set_id_manager', 'RandomVariable.set_id_manager',
                           'bioDraws.dict_of_elementary_expression', 'RandomVariable.dict_of_elementary_expression',
                           'MonteCarlo.__init__(child)', 'Integrate.__init__(child)', 'Derive.__init__(child)'):
            ctx.adopt('C10.R4', o)
    ecc(ctx, 'C10.R4', methods={'setDraws'})
    calc = prog.func('expressions.calculator', 'calculate_function_and_derivatives')
    ok = has(calc.node, 'if the_expression.requires_draws():\n    ___\n    _C.setDraws(database.theDraws)')
    ctx.add('C10.R4', 'calculator:draws', ok, calc, 'an expression that requires draws gets the draw table of the database' if ok else 'calculator no longer hands the draws over', 'draws')
    rq = E.methods['requires_draws']
    ok = body_is(rq.body, "return self.embed_expression('MonteCarlo')") is not None
    ctx.add('C10.R4', 'Expression.requires_draws', ok, rq, 'draws are required iff a MonteCarlo operator is present' if ok else 'requires_draws changed', 'req')
    ctx.floor('C10.R4', 9)


_D = 'src/biogeme/database.py'
_B = 'src/biogeme/biogeme.py'
_I = 'src/biogeme/expressions/idmanager.py'
MUTANTS = [
    dict(name='names passed in order of appearance (seed C10/1)', rule='C10.R1', file=_B, old='                self.id_manager.draws.names,\n                number_of_draws,', new='                list(self.id_manager.draw_types()),\n                number_of_draws,'),
    dict(name='draw_types pairs sorted names with expressions in formula order (seed C10/2)', rule='C10.R1', file=_I,
         old='            name: expression.drawType\n            for name, expression in self.draws.expressions.items()', new='            name: expression.drawType\n            for name, expression in zip(self.draws.names, self.draws.expressions.values())'),
    dict(name='generate_draws enumerates the types', rule='C10.R1', file=_D, old='        for i, v in enumerate(names):\n            name = v', new='        for i, v in enumerate(draw_types):\n            name = v'),
    dict(name='user generators shadow the native ones', rule='C10.R1', file=_D,
         old='                native_random_number_generators.get(draw_type)\n            )', new='                self.userRandomNumberGenerators.get(draw_type)\n            )'),
    dict(name='variable axis not moved last', rule='C10.R1', file=_D, old='        self.theDraws = np.moveaxis(self.theDraws, 0, -1)', new='        self.theDraws = np.moveaxis(self.theDraws, 0, 1)'),
    dict(name='drawId read from the table of all elements', rule='C10.R1', file='src/biogeme/expressions/elementary_expressions.py',
         old='        self.drawId = self.id_manager.draws.indices[self.name]', new='        self.drawId = self.id_manager.elementary_expressions.indices[self.name]'),
    dict(name='seed applied after the draws are generated', rule='C10.R2', file=_B,
         old='        self.seed = self.biogeme_parameters.get_value(name=\'seed\')\n        if self.seed != 0:\n            np.random.seed(self.seed)\n', new='        self.seed = self.biogeme_parameters.get_value(name=\'seed\')\n'),
    dict(name='reserved names accepted', rule='C10.R3', file=_D, old='            if k in rng:\n                error_msg = (', new='            if False:\n                error_msg = ('),
    dict(name='Integrate looks its variable up among the draws', rule='C10.R4', file='src/biogeme/expressions/unary_expressions.py',
         old='        random_variable_index = self.id_manager.random_variables.indices[', new='        random_variable_index = self.id_manager.draws.indices['),
    dict(name='calculator passes the data as draws', rule='C10.R4', file='src/biogeme/expressions/calculator.py', old='        the_cpp.setDraws(database.theDraws)', new='        the_cpp.setDraws(database.data)'),
]
NEUTRAL = []
