"""C05 - choice models return proper probability distributions (structural clauses)."""

from __future__ import annotations

import ast
import re

import sympy as sp

from ..core import seq, AnalysisError, FuncInfo, Program, call_name, const_value, dotted, unparse, walk_no_nested
from ..degree import MU, analyse
from ..report import Ctx

NESTED = 'models.nested'
CNL = 'models.cnl'

#: probability function -> log-probability function
TWINS = {
    ('models.logit', 'logit'): ('models.logit', 'loglogit'),
    ('models.mev', 'mev'): ('models.mev', 'logmev'),
    ('models.mev', 'mev_endogenous_sampling'): ('models.mev', 'logmev_endogenous_sampling'),
    (NESTED, 'nested'): (NESTED, 'lognested'),
    (NESTED, 'nested_mev_mu'): (NESTED, 'lognested_mev_mu'),
    (CNL, 'cnl'): (CNL, 'logcnl'),
    (CNL, 'cnlmu'): (CNL, 'logcnlmu'),
}

BUILDERS = [
    (NESTED, 'get_mev_for_nested', False),
    (NESTED, 'get_mev_for_nested_mu', True),
    (CNL, 'get_mev_for_cross_nested', False),
    (CNL, 'get_mev_for_cross_nested_mu', True),
]


def _is_preamble(st: ast.stmt) -> bool:
    """legacy-syntax conversion and validity check: idempotent, repeated inside the callee"""
    if isinstance(st, ast.If):
        t = unparse(st.test)
        if t.startswith('not isinstance('):
            return True
        # `if not <verdict>: raise ...`
        return isinstance(st.test, ast.UnaryOp) and isinstance(st.test.op, ast.Not) and isinstance(st.test.operand, ast.Name) and bool(st.body) and isinstance(st.body[-1], ast.Raise) and not st.orelse
    if isinstance(st, ast.Assign) and isinstance(st.value, ast.Call) and call_name(st.value) in ('check_partition', 'check_validity'):
        return True
    if isinstance(st, ast.Expr) and isinstance(st.value, ast.Constant):
        return True
    return False


def returned_expressions(f: FuncInfo) -> list[tuple[str, ast.expr]]:
    """(guard text, returned expression with single-assignment locals inlined)"""
    out = []

    def inline(e: ast.expr, env: dict[str, ast.expr]) -> ast.expr:
        class T(ast.NodeTransformer):
            def visit_Name(self, n):
                if isinstance(n.ctx, ast.Load) and n.id in env:
                    return inline(env[n.id], {k: v for k, v in env.items() if k != n.id})
                return n

        import copy

        return T().visit(copy.deepcopy(e))

    def walk(stmts, guard, env):
        env = dict(env)
        for st in stmts:
            if _is_preamble(st):
                continue
            if isinstance(st, ast.Assign) and len(st.targets) == 1 and isinstance(st.targets[0], ast.Name):
                env[st.targets[0].id] = st.value
                continue
            if isinstance(st, ast.AnnAssign) and isinstance(st.target, ast.Name) and st.value is not None:
                env[st.target.id] = st.value
                continue
            if isinstance(st, ast.If):
                walk(st.body, guard + [unparse(st.test)], env)
                if st.orelse:
                    walk(st.orelse, guard + ['not ' + unparse(st.test)], env)
                    continue
                # fallthrough: the remaining statements run when the test is false (the body returned)
                if st.body and isinstance(st.body[-1], ast.Return):
                    guard = guard + ['not ' + unparse(st.test)]
                continue
            if isinstance(st, ast.Return) and st.value is not None:
                out.append((' and '.join(guard), inline(st.value, env)))
                return
            if isinstance(st, ast.Expr) and isinstance(st.value, ast.Call) and (dotted(st.value.func) or '').startswith('logger.'):
                continue
            raise AnalysisError(f'{f.file}:{st.lineno}: statement of {f.name} not understood by the twin rule: {unparse(st)[:60]}')

    walk(f.body, [], {})
    return out


def _twin_related(prog: Program, mod, P: ast.expr, L: ast.expr) -> bool:
    """P == exp(L), or P = f(args), L = g(args) with g the log-twin of f"""
    if isinstance(P, ast.Call) and call_name(P) == 'exp' and len(P.args) == 1 and not P.keywords:
        if ast.dump(P.args[0]) == ast.dump(L):
            return True
    if isinstance(P, ast.Call) and isinstance(L, ast.Call):
        fp, fl = call_name(P), call_name(L)
        names = {k[1]: v[1] for k, v in TWINS.items()}
        if names.get(fp) == fl:
            return [ast.dump(a) for a in P.args] == [ast.dump(a) for a in L.args] and sorted((k.arg, ast.dump(k.value)) for k in P.keywords) == sorted(
                (k.arg, ast.dump(k.value)) for k in L.keywords
            )
    return False


def twin_rule(ctx: Ctx, rule: str) -> None:
    prog = ctx.prog
    for (pm, pn), (lm, ln) in TWINS.items():
        P, Lf = prog.func(pm, pn), prog.func(lm, ln)
        construct = f'{pn}/{ln}'
        if P.positional_params() != Lf.positional_params():
            ctx.add(rule, construct, False, P, f'{pn}{tuple(P.positional_params())} and {ln}{tuple(Lf.positional_params())} do not take the same parameters', 'params')
            continue
        pr, lr = returned_expressions(P), returned_expressions(Lf)
        # direct form: P returns exp(L(own parameters))
        if len(pr) == 1:
            e = pr[0][1]
            if isinstance(e, ast.Call) and call_name(e) == 'exp' and len(e.args) == 1 and isinstance(e.args[0], ast.Call) and call_name(e.args[0]) == ln:
                c = e.args[0]
                params = P.positional_params()
                bound = {}
                for i, a in enumerate(c.args):
                    if i < len(params):
                        bound[params[i]] = unparse(a)
                for k in c.keywords:
                    bound[k.arg] = unparse(k.value)
                ok = bound == {p: p for p in params}
                ctx.add(rule, construct, ok, P, f'{pn} = exp({ln}(own parameters))' if ok else f'{pn} calls {ln} with {bound}', detail=unparse(e))
                continue
        if len(pr) != len(lr) or [g for g, _ in pr] != [g for g, _ in lr]:
            ctx.add(rule, construct, False, P, f'{pn} and {ln} do not branch alike: {[g for g, _ in pr]} vs {[g for g, _ in lr]}', 'branches')
            continue
        bad = [g or 'always' for (g, pe), (_, le) in zip(pr, lr) if not _twin_related(prog, P.module, pe, le)]
        ctx.add(rule, construct, not bad, P,
                f'{pn} is exp({ln}) branch by branch' if not bad else f'{pn} is not exp({ln}) in branch(es) {bad}: {unparse(pr[0][1])[:80]} vs {unparse(lr[0][1])[:80]}',
                detail=' | '.join(unparse(e) for _, e in pr))


def degree_rule(ctx: Ctx, rule: str) -> None:
    prog = ctx.prog
    for mod, name, scaled in BUILDERS:
        f = prog.func(mod, name)
        it = analyse(f)
        for fd in it.findings:
            line, msg = fd.line, fd.msg
            # a clash of degrees between typed terms that are summed, or among the entries of the returned dictionary, is a
            # contradiction; entries of different degrees in another local container, or a statement the typing does not
            # understand, are not
            clash = fd.clash and fd.var in ('', it.ret_name)
            ctx.add(rule, f'{name}:typing', False if clash else None, (f.file, line), f'homogeneity typing fails: {msg}' if clash else f'homogeneity typing: statement not in a form the typing understands: {msg}', detail=msg, positive=clash)
        want = (MU - 1) if scaled else sp.Integer(0)
        ret = it.ret_name
        ctx.need(ret is not None and ret in it.bindings, f'{name} returns a dictionary it has filled')
        n_alone = n_member = 0
        for b in it.bindings[ret]:
            v = b.value
            classes = it.loop_classes(b.loops)
            kind = 'alone' if 'alone' in classes else 'member'
            if kind == 'alone':
                n_alone += 1
            else:
                n_member += 1
            if v.kind == 'Const':
                deg = sp.Integer(0)
            elif v.kind == 'LogHom':
                deg = v.deg
            elif v.kind == 'Hom':
                ctx.add(rule, f'{name}:{kind}', False, (f.file, b.line), f'entry of {ret} is not a log-term: {v}', detail=b.text)
                continue
            else:
                # built from a name or a call the typing has no definition for: no degree, no accusation
                ctx.add(rule, f'{name}:{kind}', None, (f.file, b.line), f'entry of {ret} not in a form the typing understands (it involves a name or a call whose value the typing does not know)', detail=b.text)
                continue
            ok = sp.simplify(deg - want) == 0
            ctx.add(rule, f'{name}:{kind}', ok, (f.file, b.line),
                    f'ln G_i of {"alternatives alone" if kind == "alone" else "nest members"} is the log of a function homogeneous of degree {sp.simplify(deg)}'
                    + ('' if ok else f'; shift invariance needs degree {want} for every alternative'),
                    detail=f'{kind}:{sp.simplify(deg)}', positive=True)
            # multiplicity: the entry is written once per alternative
            if kind == 'alone':
                good_loops = classes == ('alone',)
            else:
                good_loops = classes in (('nests', 'members'), ('entries',), ('members',))
            if good_loops:
                verdict, pos = True, False
            elif 'unknown' in classes or 'entries' in classes or not b.accumulates:
                # an iterable the rule cannot classify, or a key assigned again with the same value: nothing contradicts the property
                verdict, pos = None, False
            else:
                verdict, pos = False, True
            ctx.add(rule, f'{name}:{kind}:loops', verdict, (f.file, b.line), f'entry written under loops {b.loops}' + ('' if good_loops else (
                ' - accumulated under a loop nest that does not give one contribution per alternative' if pos else ' - loop nest not in the expected form')), detail=str(b.loops), positive=pos)
        if n_alone == 0 or n_member == 0:
            raise AnalysisError(f'{rule}: {name}: entries for alone alternatives ({n_alone}) or nest members ({n_member}) not found')


KNOWN_CALLS = {'exp', 'log', 'logzero', 'Numeric', 'ConditionalTermTuple', 'bioMultSum', 'ConditionalSum'}


def _mult_factors(e: ast.expr | None) -> list[ast.expr]:
    out: list[ast.expr] = []

    def go(x):
        if isinstance(x, ast.BinOp) and isinstance(x.op, ast.Mult):
            go(x.left)
            go(x.right)
        else:
            out.append(x)

    if e is not None:
        go(e)
    return out


def _is_zero(e: ast.expr) -> bool:
    if isinstance(e, ast.Call) and call_name(e) == 'Numeric' and len(e.args) == 1 and not e.keywords:
        e = e.args[0]
    return isinstance(e, ast.Constant) and isinstance(e.value, (int, float)) and not isinstance(e.value, bool) and e.value == 0


def _local_defs(fnode) -> tuple[dict[str, list[ast.AST]], set[str]]:
    """(statements that assign each local name, names changed in place after their definition: item / attribute assignment,
    augmented assignment, del, a method call whose result is discarded or a known mutator)"""
    assigned: dict[str, list[ast.AST]] = {}
    mutated: set[str] = set()

    def root(t):
        while isinstance(t, (ast.Subscript, ast.Attribute)):
            t = t.value
        return t.id if isinstance(t, ast.Name) else None

    def store(t, n):
        if isinstance(t, ast.Name):
            assigned.setdefault(t.id, []).append(n)
        elif isinstance(t, (ast.Tuple, ast.List)):
            for e in t.elts:
                store(e, n)
        elif isinstance(t, ast.Starred):
            store(t.value, n)
        elif isinstance(t, (ast.Subscript, ast.Attribute)) and root(t) is not None:
            mutated.add(root(t))

    for n in walk_no_nested(fnode):
        if isinstance(n, ast.Assign):
            for t in n.targets:
                store(t, n)
        elif isinstance(n, ast.AnnAssign):
            store(n.target, n)
        elif isinstance(n, ast.AugAssign):
            store(n.target, n)
            if root(n.target) is not None:
                mutated.add(root(n.target))
        elif isinstance(n, ast.Delete):
            for t in n.targets:
                if root(t) is not None:
                    mutated.add(root(t))
        elif isinstance(n, ast.NamedExpr):
            store(n.target, n)
        c = n.value if isinstance(n, ast.Expr) else n
        if isinstance(c, ast.Call) and isinstance(c.func, ast.Attribute) and root(c.func.value) is not None \
                and (isinstance(n, ast.Expr) or c.func.attr in ('sort', 'reverse', 'append', 'extend', 'insert', 'remove', 'pop', 'popitem', 'clear', 'update', 'setdefault', 'add', 'discard')):
            mutated.add(root(c.func.value))
    return assigned, mutated


def _resolved_comp(fnode, comp: ast.ListComp, scope: list[ast.stmt]) -> ast.ListComp | None:
    """a comprehension over a list that the same block builds with one comprehension stands for the comprehension over the
    original collection: `g = [(c(i), t(i)) for i in X]` ... `[h(a, b) for a, b in g]` is `[h(c(i), t(i)) for i in X]`;
    `[h(a, b) for a, b in zip(A, B)]` with A = [c(i) for i in X], B = [t(i) for i in X] likewise.  Returns the comprehension
    itself when it does not iterate over a local list, None when it does and cannot be read through it."""
    import copy

    from ..degree import iterated

    if len(comp.generators) != 1:
        return comp
    from ..core import inline_locals

    assigned, mutated = _local_defs(fnode)
    gen = comp.generators[0]

    def through(e):
        # single-definition locals looked through: `members = m.list_of_alternatives` is not a list the function builds
        try:
            return iterated(inline_locals(fnode, iterated(e)))
        except Exception:  # noqa
            return iterated(e)

    src = through(gen.iter)
    in_scope = {id(x) for st in scope for x in ast.walk(st)}

    def local_list(nm: ast.AST):
        return (isinstance(nm, ast.Name) and nm.id in assigned) or isinstance(nm, (ast.ListComp, ast.GeneratorExp))

    def definition(nm: ast.AST) -> ast.ListComp | None:
        if isinstance(nm, (ast.ListComp, ast.GeneratorExp)):
            # the list written in place (the normal form puts a temporary that is used once where it is used)
            return nm if len(nm.generators) == 1 and not nm.generators[0].ifs and not nm.generators[0].is_async else None
        ds = assigned.get(nm.id, [])
        if len(ds) != 1 or nm.id in mutated or id(ds[0]) not in in_scope or not isinstance(ds[0], (ast.Assign, ast.AnnAssign)):
            return None
        if isinstance(ds[0], ast.Assign) and (len(ds[0].targets) != 1 or not isinstance(ds[0].targets[0], ast.Name)):
            return None
        v = ds[0].value
        if isinstance(v, ast.ListComp) and len(v.generators) == 1 and not v.generators[0].ifs and not v.generators[0].is_async and ds[0].lineno <= comp.lineno:
            return v
        return None

    srcs = None
    if local_list(src):
        srcs = [src]
        targets = [gen.target]
    elif isinstance(src, ast.Call) and isinstance(src.func, ast.Name) and src.func.id == 'zip' and not src.keywords and any(local_list(through(a)) for a in src.args):
        srcs = [through(a) for a in src.args]
        if not isinstance(gen.target, ast.Tuple) or len(gen.target.elts) != len(srcs) or not all(local_list(a) for a in srcs):
            return None
        targets = list(gen.target.elts)
    if srcs is None:
        return comp
    defs = [definition(a) for a in srcs]
    if any(d is None for d in defs):
        return None
    # all the lists run over the same collection with the same variable
    g0 = defs[0].generators[0]
    if any(ast.dump(d.generators[0].target) != ast.dump(g0.target) or ast.dump(d.generators[0].iter) != ast.dump(g0.iter) for d in defs):
        return None
    inner_vars = {x.id for x in ast.walk(g0.target) if isinstance(x, ast.Name)}
    subst: dict[str, ast.expr] = {}
    for tg, d in zip(targets, defs):
        if isinstance(tg, ast.Name):
            subst[tg.id] = d.elt
        elif isinstance(tg, ast.Tuple) and isinstance(d.elt, ast.Tuple) and len(tg.elts) == len(d.elt.elts) and all(isinstance(x, ast.Name) for x in tg.elts) \
                and not any(isinstance(x, ast.Starred) for x in d.elt.elts):
            for x, e in zip(tg.elts, d.elt.elts):
                subst[x.id] = e
        else:
            return None
    # the variables of the outer comprehension must not hide names the inner elements read
    if inner_vars & set(subst) or any(isinstance(x, ast.Name) and x.id in subst and x.id not in inner_vars for e in subst.values() for x in ast.walk(e)):
        return None

    class Put(ast.NodeTransformer):
        def visit_Name(self, nn):
            return copy.deepcopy(subst[nn.id]) if isinstance(nn.ctx, ast.Load) and nn.id in subst else nn

    new = ast.ListComp(elt=Put().visit(copy.deepcopy(comp.elt)),
                       generators=[ast.comprehension(target=copy.deepcopy(g0.target), iter=copy.deepcopy(g0.iter), ifs=[Put().visit(copy.deepcopy(x)) for x in gen.ifs], is_async=0)])
    ast.copy_location(new, comp)
    ast.fix_missing_locations(new)
    return _resolved_comp(fnode, new, scope)


def _nest_sums(fnode, stmts: list[ast.stmt]) -> list[tuple[ast.AST, ast.ListComp | None]]:
    """the sums over alternatives built by the statements: for every bioMultSum / ConditionalSum call, (the call, the
    comprehension it sums - written in place or held by a local of the block that is assigned once and not changed - read
    through the local lists it iterates over; None when the summed list is not a comprehension the rule can read)"""
    assigned, mutated = _local_defs(fnode)
    in_scope = {id(x) for st in stmts for x in ast.walk(st)}
    out = []
    for st in stmts:
        for c in ast.walk(st):
            if not (isinstance(c, ast.Call) and call_name(c) in ('bioMultSum', 'ConditionalSum')):
                continue
            arg = c.args[0] if c.args else next((k.value for k in c.keywords if k.arg in ('list_of_terms', 'list_of_expressions', 'terms')), None)
            if len(c.args) + len(c.keywords) != 1 or arg is None:
                out.append((c, None))
                continue
            if isinstance(arg, ast.Name):
                ds = assigned.get(arg.id, [])
                if len(ds) == 1 and arg.id not in mutated and id(ds[0]) in in_scope and isinstance(ds[0], (ast.Assign, ast.AnnAssign)) and isinstance(ds[0].value, ast.ListComp) \
                        and (isinstance(ds[0], ast.AnnAssign) or (len(ds[0].targets) == 1 and isinstance(ds[0].targets[0], ast.Name))):
                    arg = ds[0].value
            out.append((c, _resolved_comp(fnode, arg, stmts) if isinstance(arg, ast.ListComp) else None))
    # a list the block builds and a later statement sums (`terms = [...]` in each case, `bioMultSum(terms)` after the test)
    summed_later = set()
    for c in walk_no_nested(fnode):
        if isinstance(c, ast.Call) and call_name(c) in ('bioMultSum', 'ConditionalSum') and id(c) not in in_scope:
            arg = c.args[0] if c.args else next((k.value for k in c.keywords), None)
            if isinstance(arg, ast.Name):
                summed_later.add(arg.id)
    for st in stmts:
        for a in ast.walk(st):
            if isinstance(a, (ast.Assign, ast.AnnAssign, ast.AugAssign)) and a.value is not None:
                tgts = a.targets if isinstance(a, ast.Assign) else [a.target]
                if any(isinstance(x, ast.Name) and x.id in summed_later for t in tgts for x in ast.walk(t)):
                    plain = len(tgts) == 1 and isinstance(tgts[0], ast.Name) and not isinstance(a, ast.AugAssign) and tgts[0].id not in mutated and isinstance(a.value, ast.ListComp)
                    out.append((a, _resolved_comp(fnode, a.value, stmts) if plain else None))
    out.sort(key=lambda x: (x[0].lineno, x[0].col_offset))
    return out


def _availability_cases(fnode, av: str):
    """(statement, statements that run without availabilities, statements that run with them) for every `if av is None: A
    else: B` (either way round) and every pair of consecutive `if av is not None: B` / `if av is None: A` without else - exactly
    one of the two runs, since nothing assigns the parameter"""
    from ..degree import none_test

    assigned, _ = _local_defs(fnode)
    if av in assigned:
        return []

    def test_of(n):
        r = none_test(n.test) if isinstance(n, ast.If) else None
        return r[1] if r is not None and r[0] == av else None

    out = []
    paired: set[int] = set()
    for parent in walk_no_nested(fnode):
        for fld in ('body', 'orelse', 'finalbody'):
            stmts = getattr(parent, fld, None)
            if not isinstance(stmts, list) or not stmts or not isinstance(stmts[0], ast.stmt):
                continue
            for a, b in zip(stmts, stmts[1:]):
                ta, tb = test_of(a), test_of(b)
                if ta is not None and tb is not None and ta != tb and not a.orelse and not b.orelse and id(a) not in paired \
                        and not any(isinstance(x, (ast.Return, ast.Break, ast.Continue, ast.Raise)) for x in ast.walk(a)):
                    paired.update((id(a), id(b)))
                    out.append((a, a.body if ta else b.body, b.body if ta else a.body))
    for n in walk_no_nested(fnode):
        t = test_of(n)
        if t is not None and id(n) not in paired:
            out.append((n, n.body if t else n.orelse, n.orelse if t else n.body))
    out.sort(key=lambda x: x[0].lineno)
    return out


class _Term:
    """an element of a nest sum with what it stands for made visible: single-definition locals replaced by their definition,
    `d[k]` of a dictionary built once by `{i: e(i) for i in ...}` replaced by e(k), a call of a one-expression helper of the
    module replaced by its body.  `opaque`: something in it could not be looked through (an element of another container,
    a call of an unknown function, a local with several definitions) - nothing can then be said about what it does not contain."""

    def __init__(self, f, it, e: ast.expr, ut: str, av: str, bound: set[str]):
        import copy

        from ..core import inline_locals

        fnode = f.node
        assigned, mutated = _local_defs(fnode)

        def keyed_by_its_variable(v):
            return isinstance(v, ast.DictComp) and len(v.generators) == 1 and not v.generators[0].ifs and isinstance(v.generators[0].target, ast.Name) \
                and isinstance(v.key, ast.Name) and v.key.id == v.generators[0].target.id

        def dict_def(name: str):
            ds = assigned.get(name, [])
            # a dictionary that is changed after its definition (item assignment, update, ...) does not stand for its definition
            if len(ds) != 1 or not isinstance(ds[0], (ast.Assign, ast.AnnAssign)) or name in mutated:
                return None
            v = ds[0].value
            return v if keyed_by_its_variable(v) else None

        class Look(ast.NodeTransformer):
            def __init__(self, depth):
                self.depth = depth

            def visit_Subscript(self, node):
                if self.depth > 0 and (isinstance(node.value, ast.DictComp) or (isinstance(node.value, ast.Name) and node.value.id not in (ut, av))):
                    d = dict_def(node.value.id) if isinstance(node.value, ast.Name) else (node.value if keyed_by_its_variable(node.value) else None)
                    if d is not None:
                        var = d.generators[0].target.id
                        key = node.slice

                        class Put(ast.NodeTransformer):
                            def visit_Name(self, nn):
                                return copy.deepcopy(key) if nn.id == var and isinstance(nn.ctx, ast.Load) else nn

                        return Look(self.depth - 1).visit(inline_locals(fnode, Put().visit(copy.deepcopy(d.value))))
                return self.generic_visit(node)

            def visit_Call(self, node):
                if self.depth > 0:
                    body = it._helper_body(node)
                    if body is not None:
                        return Look(self.depth - 1).visit(body)
                return self.generic_visit(node)

        try:
            self.expr = Look(4).visit(inline_locals(fnode, e))
        except Exception:  # noqa
            self.expr = e
        self.opaque = False
        self.util_idx: set[str] = set()
        self.av_idx: set[str] = set()
        self.plain_idx = True
        for x in ast.walk(self.expr):
            if isinstance(x, ast.Subscript):
                if isinstance(x.value, ast.Name) and x.value.id in (ut, av):
                    (self.util_idx if x.value.id == ut else self.av_idx).add(unparse(x.slice))
                    if not isinstance(x.slice, (ast.Name, ast.Constant)):
                        self.plain_idx = False
                elif not isinstance(x.value, ast.Attribute):
                    self.opaque = True
            elif isinstance(x, ast.Call):
                if call_name(x) not in KNOWN_CALLS:
                    self.opaque = True
            elif isinstance(x, ast.Name) and isinstance(x.ctx, ast.Load):
                if x.id in assigned and x.id not in bound:
                    self.opaque = True
                if x.id in (ut, av):
                    pass
            elif isinstance(x, (ast.Lambda, ast.ListComp, ast.DictComp, ast.SetComp, ast.GeneratorExp, ast.IfExp, ast.Starred)):
                self.opaque = True
        # the dictionaries themselves passed somewhere (not subscripted) make the element opaque
        subs = {id(x.value) for x in ast.walk(self.expr) if isinstance(x, ast.Subscript)}
        if any(isinstance(x, ast.Name) and x.id in (ut, av) and id(x) not in subs for x in ast.walk(self.expr)):
            self.opaque = True


def _symbolic_difference(a, b):
    """True: the two sympy terms differ (confirmed numerically), False: they are equal, None: cannot tell"""
    from ..degree import terms_equal

    r = terms_equal(a, b)
    return None if r is None else (not r)


def availability_rule(ctx: Ctx, rule: str) -> None:
    """inside every nest sum each term of alternative i is guarded by availability[i] of the same i"""
    from ..degree import A, iterated, none_test

    prog = ctx.prog
    for mod, name, _ in BUILDERS + [(NESTED, 'get_mev_generating_for_nested', False)]:
        f = prog.func(mod, name)
        av = f.positional_params()[1]
        ut = f.positional_params()[0]
        it = analyse(f)
        cases = _availability_cases(f.node, av)
        if not cases:
            raise AnalysisError(f'{rule}: {name}: no branch on `{av} is None`')

        def target_names(comp):
            tg = comp.generators[0].target
            return [t.id for t in (tg.elts if isinstance(tg, ast.Tuple) else [tg]) if isinstance(t, ast.Name)]

        def loop_vars():
            return {x.id for n_ in walk_no_nested(f.node) if isinstance(n_, (ast.For, ast.comprehension)) for x in ast.walk(n_.target) if isinstance(x, ast.Name)}

        def domain_ok(comp) -> bool:
            # the sum of a nest runs over the alternatives of the nest
            return len(comp.generators) == 1 and it.loop_class(it._loop_name(comp.generators[0].iter)) == 'members'

        for n, none_branch, av_branch in cases:
            sums = _nest_sums(f.node, av_branch)
            if not sums:
                ctx.add(rule, f'{name}:availability', False, (f.file, n.lineno), 'no sum over alternatives in the availability branch', 'none')
                continue
            nsums = _nest_sums(f.node, none_branch)
            if any(c is None for _, c in sums) or any(c is None for _, c in nsums):
                bad = next(call for call, c in sums + nsums if c is None)
                ctx.add(rule, f'{name}:availability', None, (f.file, bad.lineno), f'the list of terms summed by {unparse(bad)[:80]} is not a comprehension the rule can read '
                        '(it is built from a local list that is not itself one comprehension of the same block)', 'unread')
                continue
            comps = [c for _, c in sums]
            bound = loop_vars()
            for c in comps:
                names = target_names(c)
                idx = names[0] if names else unparse(c.generators[0].target)
                elt = c.elt
                T = _Term(f, it, elt, ut, av, bound)
                top = T.expr
                guarded = False
                if isinstance(top, ast.Call) and call_name(top) == 'ConditionalTermTuple':
                    cond = next((k.value for k in top.keywords if k.arg == 'condition'), top.args[0] if top.args else None)
                    if isinstance(cond, ast.Compare) and len(cond.ops) == 1 and isinstance(cond.ops[0], ast.NotEq):
                        l_, r_ = cond.left, cond.comparators[0]
                        if _is_zero(l_):
                            l_, r_ = r_, l_
                        guarded = unparse(l_) == f'{av}[{idx}]' and _is_zero(r_)
                else:
                    # multiplicative factor availability[i]
                    guarded = f'{av}[{idx}]' in [unparse(x) for x in _mult_factors(top)]
                uses_util = T.util_idx == {idx}
                ok = guarded and uses_util
                positive = False
                if not domain_ok(c):
                    ok = None
                    msg = f'the nest sum runs over {unparse(c.generators[0].iter)[:60]}, not over the alternatives of the nest in a form the rule knows'
                elif ok:
                    msg = f'each term of the nest sum is conditioned on {av}[{idx}] of the same alternative'
                elif T.opaque or len(c.generators) != 1 or c.generators[0].ifs:
                    ok = None
                    msg = f'term of the nest sum not in a form the rule understands: {unparse(elt)[:90]}'
                elif not T.av_idx:
                    positive = True
                    msg = f'term of the nest sum is not conditioned on {av}[{idx}] ({av} does not appear in it): {unparse(elt)[:90]}'
                elif T.util_idx and T.plain_idx and T.av_idx.isdisjoint(T.util_idx):
                    positive = True
                    msg = f'term of the nest sum for the utility of {sorted(T.util_idx)} is conditioned on the availability of {sorted(T.av_idx)}, another alternative: {unparse(elt)[:90]}'
                else:
                    ok = None
                    msg = f'the way the term of the nest sum is conditioned on {av}[{idx}] is not in the expected form: {unparse(elt)[:90]}'
                ctx.add(rule, f'{name}:availability', ok, (f.file, c.lineno), msg, detail=unparse(elt), positive=positive)
            # sibling: apart from the guard the two branches sum the same term
            ncomps = [c for _, c in nsums]
            if len(ncomps) != len(comps):
                ctx.add(rule, f'{name}:branches', False, (f.file, n.lineno), f'the branch without availabilities builds {len(ncomps)} sum(s), the other {len(comps)}', 'count')
                continue
            for cn, ca in zip(ncomps, comps):
                Ta, Tn = _Term(f, it, ca.elt, ut, av, bound), _Term(f, it, cn.elt, ut, av, bound)
                elt = Ta.expr
                ia = (target_names(ca) or [unparse(ca.generators[0].target)])[0]
                if isinstance(elt, ast.Call) and call_name(elt) == 'ConditionalTermTuple':
                    bare = next((k.value for k in elt.keywords if k.arg == 'term'), elt.args[1] if len(elt.args) > 1 else None)
                else:
                    rest = [x for x in _mult_factors(elt) if unparse(x) != f'{av}[{ia}]']
                    bare = None
                    for x in rest:
                        bare = x if bare is None else ast.BinOp(left=bare, op=ast.Mult(), right=x)

                def canon(e, comp):
                    # comprehension variables by position, so that the two branches may name them differently
                    txt = ast.dump(e) if e is not None else ''
                    for k, nm in enumerate(target_names(comp)):
                        txt = txt.replace(f"Name(id='{nm}'", f"Name(id='$v{k}'")
                    return txt

                same_iter = it._loop_name(ca.generators[0].iter) == it._loop_name(cn.generators[0].iter)
                same = sorted(canon(x, ca) for x in _mult_factors(bare)) == sorted(canon(x, cn) for x in _mult_factors(Tn.expr)) and same_iter
                positive = False
                verdict: bool | None = same
                if not same:
                    # decided on the typed terms: the term with availabilities, at availability = 1, against the term without
                    va = it.comp_values.get(id(ca), it.comp_values.get((ca.lineno, ca.col_offset, unparse(ca))))
                    vn = it.comp_values.get(id(cn), it.comp_values.get((cn.lineno, cn.col_offset, unparse(cn))))
                    diff = None
                    if va is not None and vn is not None and va.kind in ('Const', 'Hom', 'LogHom') and vn.kind in ('Const', 'Hom', 'LogHom') and va.term is not None and vn.term is not None \
                            and not Ta.opaque and not Tn.opaque:
                        diff = _symbolic_difference(va.term.subs(A, 1), vn.term)
                    if diff is True:
                        verdict, positive = False, True
                    elif diff is False and same_iter and Ta.util_idx == {ia} and Tn.util_idx == {(target_names(cn) or ['?'])[0]}:
                        verdict = True
                    else:
                        verdict = None
                if verdict is True and not (domain_ok(ca) and domain_ok(cn)):
                    verdict = None
                ctx.add(rule, f'{name}:branches', verdict, (f.file, cn.lineno),
                        'with and without availabilities the nest sum has the same term over the same alternatives' if verdict
                        else (f'the nest sum without availabilities has the term {unparse(cn.elt)[:80]}, with availabilities {unparse(bare)[:80] if bare is not None else "?"}: the model changes when availabilities all equal to 1 are passed'
                              if positive else f'the two branches on {av} are not in a form the rule can compare: {unparse(cn.elt)[:80]} / {unparse(bare)[:80] if bare is not None else "?"}'),
                        detail='' if verdict else unparse(cn.elt), positive=positive)
            for st in none_branch:
                if av in {x.id for x in ast.walk(st) if isinstance(x, ast.Name)}:
                    ctx.add(rule, f'{name}:availability:none', False, (f.file, st.lineno), f'{av} is used although it is None', unparse(st)[:80])
    # the kernel receives av unchanged
    for mod, name in (('models.mev', 'logmev'), ('models.mev', 'logmev_endogenous_sampling')):
        f = prog.func(mod, name)
        avp = 'av'
        calls = [c for c in ast.walk(f.node) if isinstance(c, ast.Call) and call_name(c) == '_bioLogLogit']
        ok = bool(calls) and all(len(c.args) >= 2 and unparse(c.args[1]) == avp for c in calls)
        ctx.add(rule, f'{name}:kernel', ok, f, 'the logit kernel receives the availabilities unchanged' if ok else f'_bioLogLogit called with {[unparse(c) for c in calls]}', 'kernel')
        # h_i = V_i + ln G_i (+ correction_i) for the same i
        dc = [n for n in ast.walk(f.node) if isinstance(n, ast.DictComp)]
        okh = False
        det = ''
        if len(dc) == 1:
            g = dc[0].generators[0]
            det = unparse(dc[0])
            if isinstance(g.target, ast.Tuple) and unparse(g.iter) == 'util.items()':
                i, v = (unparse(x) for x in g.target.elts)
                terms = sorted(t.strip() for t in unparse(dc[0].value).split('+'))
                want = sorted([v, f'log_gi[{i}]'] + ([f'correction[{i}]'] if 'correction' in f.positional_params() else []))
                okh = unparse(dc[0].key) == i and terms == want
        ctx.add(rule, f'{name}:h', okh, f, 'h_i = V_i + ln G_i' + (' + correction_i' if 'correction' in f.positional_params() else '') + ' with the same key i' if okh else f'h is built as {det}', det)
    # logit dispatch: same kernel in both twins (checked by the twin rule) and av=None -> full choice set kernel
    for name in ('loglogit', 'logit'):
        f = prog.func('models.logit', name)
        rets = returned_expressions(f)
        m = {g: unparse(e) for g, e in rets}
        ok = any('_bioLogLogitFullChoiceSet(util, choice=i)' in v or '_bioLogLogitFullChoiceSet(util, i)' in v for g, v in m.items() if g == 'av is None') and any(
            '_bioLogLogit(util, av, i)' in v for g, v in m.items() if g == 'not av is None'
        )
        ctx.add(rule, f'{name}:dispatch', ok, f, 'av=None selects the full-choice-set kernel, otherwise (util, av, choice) go to the availability kernel' if ok else f'dispatch of {name}: {m}', str(m))


def ordered_rule(ctx: Ctx, rule: str) -> None:
    prog = ctx.prog
    f = prog.func('models.ordered', 'ordered_likelihood')
    ps = f.positional_params()
    if len(ps) < 4:
        raise AnalysisError(f'{rule}: ordered_likelihood{tuple(ps)}: expected (value, list of categories, first threshold, cdf)')
    # further parameters (defaulted options: naming of the increments, ...) do not take part in the formula checked here
    x, vals, tau0, cdf = ps[:4]
    src = f.body
    fl = [n for n in src if isinstance(n, ast.For)]
    ctx.need(len(fl) == 1, 'ordered_likelihood has one loop over the intermediate values')
    loop = fl[0]
    item = unparse(loop.target)
    ok_iter = unparse(loop.iter) == f'{vals}[1:-1]'
    ctx.add(rule, 'ordered_likelihood:range', ok_iter, (f.file, loop.lineno), f'loop over {unparse(loop.iter)}' + ('' if ok_iter else f'; the intermediate categories are {vals}[1:-1]'), unparse(loop.iter))
    # statements of the loop, executed symbolically: every local assigned in the body is replaced by its value in terms of the
    # values at the entry of the iteration (so `lower = tau; upper = tau + d[item]; P[item] = F(x - lower) - F(x - upper)` and
    # `nxt = tau + d[item]; P[item] = F(x - tau) - F(x - nxt)` are the same statement)
    import copy

    body = loop.body
    state: dict[str, ast.expr] = {}
    stores: list[tuple[ast.Subscript, ast.expr, ast.stmt]] = []
    straight = True

    def subst(e: ast.expr) -> ast.expr:
        class S(ast.NodeTransformer):
            def visit_Name(self, nn):
                return copy.deepcopy(state[nn.id]) if isinstance(nn.ctx, ast.Load) and nn.id in state else nn

        return S().visit(copy.deepcopy(e))

    last_def: dict[str, ast.stmt] = {}
    for st in body:
        if isinstance(st, ast.Assign) and len(st.targets) == 1 and isinstance(st.targets[0], ast.Name):
            state[st.targets[0].id] = subst(st.value)
            last_def[st.targets[0].id] = st
        elif isinstance(st, ast.AnnAssign) and isinstance(st.target, ast.Name) and st.value is not None:
            state[st.target.id] = subst(st.value)
            last_def[st.target.id] = st
        elif isinstance(st, ast.Assign) and len(st.targets) == 1 and isinstance(st.targets[0], ast.Subscript):
            stores.append((st.targets[0], subst(st.value), st))
        elif isinstance(st, ast.Expr) and isinstance(st.value, ast.Constant):
            continue
        else:
            straight = False
    assigned_in_loop = set(state) | {x.id for x in ast.walk(loop.target) if isinstance(x, ast.Name)}
    pst = next((t for t in stores if isinstance(t[0].value, ast.Name) and unparse(t[0].slice) == item), None)
    ctx.need(pst is not None, 'ordered_likelihood stores the probability of the current item')
    pname = pst[0].value.id
    pv = pst[1]
    pstmt = pst[2]
    ok = False
    carried = nxt_text = None
    T = N = None
    det = unparse(pstmt.value)

    def threshold_of(c: ast.expr) -> ast.expr | None:
        """t of `cdf(x - t)`"""
        if isinstance(c, ast.Call) and isinstance(c.func, ast.Name) and c.func.id == cdf and len(c.args) == 1 and not c.keywords \
                and isinstance(c.args[0], ast.BinOp) and isinstance(c.args[0].op, ast.Sub) and unparse(c.args[0].left) == x:
            return c.args[0].right
        return None

    if straight and isinstance(pv, ast.BinOp) and isinstance(pv.op, ast.Sub):
        T, N = threshold_of(pv.left), threshold_of(pv.right)
        if T is not None and N is not None and isinstance(T, ast.Name):
            carried, nxt_text = T.id, unparse(N)
            ok = True
    ctx.add(rule, 'ordered_likelihood:middle', ok, (f.file, pstmt.lineno), f'P(item) = {det}' + ('' if ok else f'; expected {cdf}({x} - tau) - {cdf}({x} - next_tau)'), det)
    if ok:
        # next_tau = tau + diffs[item]; tau = next_tau after the probability is stored
        def increment(e: ast.expr) -> str | None:
            """d of `d[item]`"""
            if isinstance(e, ast.Subscript) and isinstance(e.value, ast.Name) and unparse(e.slice) == item:
                return e.value.id
            return None

        okn = False
        other = False
        diffs = None
        base = None
        if isinstance(N, ast.BinOp) and isinstance(N.op, ast.Add):
            for b_, d_ in ((N.left, N.right), (N.right, N.left)):
                if increment(d_) is not None and increment(b_) is None:
                    base, diffs = b_, increment(d_)
            if base is not None:
                okn = isinstance(base, ast.Name) and base.id == carried
                # the base is a name that no statement of the loop assigns: it does not advance from one category to the next
                other = not okn and isinstance(base, ast.Name) and base.id not in assigned_in_loop
        nline = pstmt.lineno
        for nm, stn in last_def.items():
            if nm != carried and ast.dump(state[nm]) == ast.dump(N):
                nline = stn.lineno
        ctx.add(rule, 'ordered_likelihood:next', okn if (okn or other) else None, (f.file, nline),
                f'next threshold = {carried} + {diffs}[{item}]' if okn else (f'next threshold = {nxt_text}; the next threshold must be the current one ({carried}) plus a non-negative increment: {unparse(base)} is not advanced by the loop, so with more than '
                                                                       'three categories the thresholds are not increasing and the probabilities do not sum to one' if other else f'the way the next threshold ({nxt_text}) is computed is not in the expected form ({carried} + increment of the item)'),
                nxt_text, positive=bool(other))
        upd = last_def.get(carried)
        oku = upd is not None and ast.dump(state[carried]) == ast.dump(N) and seq(upd) > seq(pstmt)
        ctx.add(rule, 'ordered_likelihood:carry', oku, (f.file, upd.lineno if upd is not None else loop.lineno), f'{carried} = next threshold after the probability is stored' if oku else f'the threshold {carried} is not advanced to {nxt_text} after use', unparse(upd) if upd is not None else 'missing')
        # initialisation and ends
        init = [s for s in src if isinstance(s, ast.Assign) and unparse(s.targets[0]) == carried and seq(s) < seq(loop)]
        oki = len(init) == 1 and unparse(init[0].value) == tau0
        ctx.add(rule, 'ordered_likelihood:init', oki, f, f'{carried} starts at {tau0}' if oki else f'{carried} does not start at {tau0}', unparse(init[0]) if init else 'missing')
        first = [s for s in src if isinstance(s, ast.Assign) and unparse(s.targets[0]) == pname and seq(s) < seq(loop)]
        okf = len(first) == 1 and unparse(first[0].value).replace(' ', '') == f'{{{vals}[0]:1-{cdf}({x}-{tau0})}}'
        ctx.add(rule, 'ordered_likelihood:first', okf, f, f'P(first) = 1 - {cdf}({x} - {tau0})' if okf else f'first category: {unparse(first[0].value) if first else "missing"}', unparse(first[0].value) if first else 'missing')
        last = [s for s in src if isinstance(s, ast.Assign) and unparse(s.targets[0]) == f'{pname}[{vals}[-1]]' and seq(s) > seq(loop)]
        okl = len(last) == 1 and unparse(last[0].value) == f'{cdf}({x} - {carried})'
        ctx.add(rule, 'ordered_likelihood:last', okl, f, f'P(last) = {cdf}({x} - {carried})' if okl else f'last category: {unparse(last[0].value) if last else "missing"}', unparse(last[0].value) if last else 'missing')
        # increments are Beta with a constant non-negative lower bound
        dd = [s for s in src if isinstance(s, ast.Assign) and unparse(s.targets[0]) == diffs]
        okd = False
        det = ''
        if len(dd) == 1 and isinstance(dd[0].value, ast.DictComp):
            dc = dd[0].value
            det = unparse(dc)
            b = dc.value
            if isinstance(b, ast.Call) and call_name(b) == 'Beta' and len(b.args) == 5 and unparse(dc.generators[0].iter) == f'{vals}[1:-1]' and unparse(dc.key) == unparse(dc.generators[0].target):
                try:
                    lb = const_value(b.args[2])
                    init_v = const_value(b.args[1])
                    status = const_value(b.args[4])
                    okd = lb is not None and lb >= 0 and init_v >= lb and status == 0
                except ValueError:
                    okd = False
        ctx.add(rule, 'ordered_likelihood:increments', okd, f, 'one free increment per intermediate category, lower bound >= 0' if okd else f'increments: {det[:100]}', det)
    # two categories
    two = [n for n in src if isinstance(n, ast.If) and unparse(n.test) == f'len({vals}) == 2']
    ok2 = False
    if len(two) == 1:
        txt = ' '.join(unparse(s) for s in two[0].body).replace(' ', '').replace('\n', '')
        ok2 = f'{{{vals}[0]:1-{cdf}({x}-{tau0}),{vals}[1]:{cdf}({x}-{tau0})}}' in txt
    ctx.add(rule, 'ordered_likelihood:binary', ok2, f, 'two categories: 1 - F and F of the same argument' if ok2 else 'binary case not in the expected form', 'binary')
    for name, want in (('ordered_logit', 'dist.logisticcdf'), ('ordered_probit', 'bioNormalCdf')):
        g = prog.func('models.ordered', name)
        calls = [c for c in ast.walk(g.node) if isinstance(c, ast.Call) and call_name(c) == 'ordered_likelihood']
        bound = prog.bind_call(g, calls[0]) if len(calls) == 1 else None
        ok = bound is not None and {k: unparse(v) for k, v in bound.items()} == {
            'continuous_value': 'continuous_value', 'list_of_discrete_values': 'list_of_discrete_values', 'tau_parameter': 'tau_parameter', 'cdf': want}
        ctx.add(rule, f'{name}:forward', ok, g, f'{name} forwards its parameters with cdf={want}' if ok else f'{name} forwards {unparse(calls[0]) if calls else "nothing"}', unparse(calls[0]) if calls else '')


#: obligations whose failure contradicts the property (rule, construct pattern, why); every other failure is 'not recognised'
POSITIVE: list[tuple[str, str, str]] = [
    ('C05.R6', r':record$', 'the record template interpreted from get_signature is not the one the engine parses for this tag'),
    ('C05.R6', r'\.get_signature$', 'an id written in the record belongs to a node whose signature is not emitted before it'),
    ('C05.R4', r':(unavailable|chosen-availability|denominator)$', 'LogLogit.get_value matched with holes'),
]


def run(ctx: Ctx) -> None:
    ctx.positive_table = list(POSITIVE)
    ctx.rule('C05.R1', 'log/probability twins: for the 7 pairs, the probability function is exp(<log function>(own parameters)) or the two are related '
             'branch by branch through the twin table (mev ~ logmev), with identical parameters')
    ctx.rule('C05.R2', 'shift invariance by homogeneity typing of the four MEV builders: every ln G_i (nest members and alternatives alone) is the log of a '
             'function of y=exp(V) homogeneous of the same degree mu-1 (mu=1 unscaled); entries are written once per alternative')
    ctx.rule('C05.R3', 'availability conditioning: in the availability branch every term of a nest sum is guarded by availability[i] of the same i; '
             'the kernel receives the availabilities unchanged; h_i = V_i + ln G_i with the same key')
    ctx.rule('C05.R4', 'LogLogit.get_value returns a log-probability (<= 0, -inf for an unavailable chosen alternative)')
    ctx.rule('C05.R6', 'the logit kernel gets, for every alternative, the ids of its own utility and of its own availability: record templates and constructor plumbing of the '
             'logit classes agree with the engine reader (obligations of C01.R2-R4 restricted to LogLogit, _bioLogLogit, _bioLogLogitFullChoiceSet) - zero probability '
             'for an unavailable alternative depends on this pairing')
    ctx.rule('C05.R5', 'ordered models: entries telescope (1-F(x-t0), F(x-t_k)-F(x-t_k+1), F(x-t_last)) with t_k+1 = t_k + non-negative free increment')
    ctx.not_decided += ['range and sum of the logit kernel itself (engine)', 'MEV models with user-supplied generating terms']
    twin_rule(ctx, 'C05.R1')
    ctx.floor('C05.R1', 7)
    degree_rule(ctx, 'C05.R2')
    ctx.floor('C05.R2', 16)
    availability_rule(ctx, 'C05.R3')
    ctx.floor('C05.R3', 9)
    from .c01 import _loglogit_value

    sub = Ctx(ctx.prog, ctx.prop, ctx.tier)
    _loglogit_value(sub)
    for o in sub.obligations:
        ctx.adopt('C05.R4', o)
    # the logit kernel receives, for every alternative, its own utility and its own availability (record of the logit classes)
    from . import c01

    sub1 = Ctx(ctx.prog, ctx.prop, ctx.tier)
    c01.run(sub1)
    n_rec = 0
    for o in sub1.obligations:
        if ('LogLogit' in o.construct) and o.rule in ('C01.R2', 'C01.R3', 'C01.R4'):
            n_rec += 1
            ctx.adopt('C05.R6', o)
    if n_rec < 10:
        raise AnalysisError(f'C05.R6: only {n_rec} record obligations of the logit classes found')
    ordered_rule(ctx, 'C05.R5')
    ctx.floor('C05.R5', 10)


# --------------------------------------------------------------------------
_N = 'src/biogeme/models/nested.py'
_C = 'src/biogeme/models/cnl.py'
_M = 'src/biogeme/models/mev.py'
_O = 'src/biogeme/models/ordered.py'
MUTANTS = [
    dict(name='nested member term loses the -1', rule='C05.R2', file=_N,
         old='            log_gi[i] = (m.nest_param - 1.0) * util[i] + (\n                1.0 / m.nest_param - 1.0\n            ) * log(the_sum)',
         new='            log_gi[i] = m.nest_param * util[i] + (\n                1.0 / m.nest_param - 1.0\n            ) * log(the_sum)'),
    dict(name='scaled nested copies the unscaled exponent (seed C05/2)', rule='C05.R2', file=_N,
         old='                + (mu / m.nest_param - 1.0) * log(the_sum)', new='                + (1.0 / m.nest_param - 1.0) * log(the_sum)'),
    dict(name='scaled nested: alone alternatives get log(mu) only', rule='C05.R2', file=_N,
         old='        log_gi = {i: log(mu) + (mu - 1) * util[i] for i in nests.alone}\n    for m in nests:\n        if availability is None:\n            sum_terms = [exp(m.nest_param * util[i]) for i in m.list_of_alternatives]\n            the_sum = bioMultSum(sum_terms)\n\n',
         new='        log_gi = {i: log(mu) for i in nests.alone}\n    for m in nests:\n        if availability is None:\n            sum_terms = [exp(m.nest_param * util[i]) for i in m.list_of_alternatives]\n            the_sum = bioMultSum(sum_terms)\n\n'),
    dict(name='cnl term uses exp(mu_m V) instead of exp((mu_m-1) V)', rule='C05.R2', file=_C,
         old='                a**m.nest_param\n                * exp((m.nest_param - 1) * (util[i]))', new='                a**m.nest_param\n                * exp(m.nest_param * (util[i]))'),
    dict(name='cnlmu power of the nest sum inverted', rule='C05.R2', file=_C,
         old='                * biosum ** ((mu / m.nest_param) - 1.0)', new='                * biosum ** ((m.nest_param / mu) - 1.0)'),
    dict(name='nested calls mev without availability', rule='C05.R1', file=_N,
         old='    P = mev(util, log_gi, availability, choice)', new='    P = mev(util, log_gi, None, choice)'),
    dict(name='cnlmu forgets exp', rule='C05.R1', file=_C,
         old='    return exp(logcnlmu(util, availability, nests, choice, mu))', new='    return logcnlmu(util, availability, nests, choice, mu)'),
    dict(name='nested_mev_mu swaps choice and mu', rule='C05.R1', file=_N,
         old='    return exp(lognested_mev_mu(util, availability, nests, choice, mu))', new='    return exp(lognested_mev_mu(util, availability, nests, mu, choice))'),
    dict(name='logit with availabilities uses the full-choice-set kernel', rule='C05.R', file='src/biogeme/models/logit.py',
         old='    return exp(_bioLogLogit(util, av, i))', new='    return exp(_bioLogLogitFullChoiceSet(util, choice=i))'),
    dict(name='availability guard dropped in one nest sum', rule='C05.R3', file=_N,
         old='                ConditionalTermTuple(\n                    condition=availability[i] != Numeric(0),\n                    term=exp(m.nest_param * util[i]),\n                )\n                for i in m.list_of_alternatives\n            ]\n            the_sum = ConditionalSum(list_of_terms=sum_terms)\n\n        for i in m.list_of_alternatives:\n            log_gi[i] = (m.nest_param - 1.0)',
         new='                ConditionalTermTuple(\n                    condition=Numeric(1),\n                    term=exp(m.nest_param * util[i]),\n                )\n                for i in m.list_of_alternatives\n            ]\n            the_sum = ConditionalSum(list_of_terms=sum_terms)\n\n        for i in m.list_of_alternatives:\n            log_gi[i] = (m.nest_param - 1.0)'),
    dict(name='cnl availability factor dropped', rule='C05.R3', file=_C,
         old='                    availability[i] * a**m.nest_param * exp(m.nest_param * (util[i]))', new='                    a**m.nest_param * exp(m.nest_param * (util[i]))'),
    dict(name='logmev adds log_gi of the chosen alternative to every utility', rule='C05.R3', file=_M,
         old='    h = {i: v + log_gi[i] for i, v in util.items()}', new='    h = {i: v + log_gi[choice] for i, v in util.items()}'),
    dict(name='scaled nested member term: (mu_m - mu) V', rule='C05.R2', file=_N,
         old='                + (m.nest_param - 1.0) * util[i]\n                + (mu / m.nest_param - 1.0) * log(the_sum)', new='                + (m.nest_param - mu) * util[i]\n                + (mu / m.nest_param - 1.0) * log(the_sum)'),
    dict(name='ordered: next threshold built from the first one (seed C05/1)', rule='C05.R5', file=_O,
         old='        next_tau = tau + diffs[item]', new='        next_tau = tau_parameter + diffs[item]'),
    dict(name='ordered: threshold not advanced', rule='C05.R5', file=_O, old='        tau = next_tau\n', new=''),
    dict(name='ordered: increments may be negative', rule='C05.R5', file=_O,
         old="            f'{tau_parameter.name}_diff_{current_item}',\n            1,\n            0,\n            None,", new="            f'{tau_parameter.name}_diff_{current_item}',\n            1,\n            None,\n            None,"),
    dict(name='ordered: last category uses the first threshold', rule='C05.R5', file=_O,
         old='    the_proba[list_of_discrete_values[-1]] = cdf(continuous_value - tau)', new='    the_proba[list_of_discrete_values[-1]] = cdf(continuous_value - tau_parameter)'),
    dict(name='ordered_probit uses the logistic cdf', rule='C05.R5', file=_O, old='        cdf=bioNormalCdf,', new='        cdf=dist.logisticcdf,'),
]
NEUTRAL = [
    dict(name='nested written like lognested', file=_N,
         old='    log_gi = get_mev_for_nested(util, availability, nests)\n    P = mev(util, log_gi, availability, choice)\n    return P',
         new='    return exp(lognested(util, availability, nests, choice))'),
    dict(name='member term reordered', file=_N,
         old='            log_gi[i] = (m.nest_param - 1.0) * util[i] + (\n                1.0 / m.nest_param - 1.0\n            ) * log(the_sum)',
         new='            log_gi[i] = (1.0 - m.nest_param) / m.nest_param * log(the_sum) + util[i] * (m.nest_param - 1.0)'),
    dict(name='ordered loop variables renamed', edits=[(_O, '    the_proba[list_of_discrete_values[-1]] = cdf(continuous_value - tau)', '    the_proba[list_of_discrete_values[-1]] = cdf(continuous_value - current)'), (_O,
         '    tau = tau_parameter\n    for item in list_of_discrete_values[1:-1]:\n        next_tau = tau + diffs[item]\n        the_proba[item] = cdf(continuous_value - tau) - cdf(continuous_value - next_tau)\n        tau = next_tau',
         '    current = tau_parameter\n    for item in list_of_discrete_values[1:-1]:\n        following = current + diffs[item]\n        the_proba[item] = cdf(continuous_value - current) - cdf(continuous_value - following)\n        current = following')]),
]
