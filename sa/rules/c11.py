"""C11 - every named draw type delivers what it advertises."""

from __future__ import annotations

import ast
import re
from dataclasses import dataclass, replace

import sympy as sp

from ..core import seq, AnalysisError, FuncInfo, const_value, dotted, unparse, walk_no_nested
from ..report import Ctx
from ..sym import ToSympy, equal
from ..tables import AS241

ND = 'native_draws'
DR = 'draws'


@dataclass(frozen=True)
class Draws:
    dist: str  # uniform | normal
    sym: bool
    source: str  # random | halton | mlhs
    base: int | None = None
    skip: int | None = None
    anti: bool = False
    count: str = 'N'

    def describe(self) -> str:
        s = f'{self.dist}{" on [-1,1]" if self.sym and self.dist == "uniform" else ""} from {self.source}'
        if self.source == 'halton':
            s += f'(base={self.base}, skip={self.skip})'
        if self.anti:
            s += ', antithetic'
        return s + f', {self.count} draws'


@dataclass(frozen=True)
class Neg:
    of: Draws


@dataclass(frozen=True)
class OneMinus:
    of: Draws


class Count(str):
    pass


def concat_axis(c: ast.Call, value=None):
    """(parts, where) for a call that puts 2-D (sample, draws) blocks together: np.concatenate(parts, axis) with the axis given by
    keyword or as second positional argument, np.hstack / np.column_stack (axis 1 of 2-D arrays), np.vstack / np.row_stack (axis 0).
    where: 'beside' (axis 1, or -1: the last of two axes), 'below' (axis 0, or -2, or no axis: the default is 0), None when the axis
    is not a constant the rule can read.  Not such a call: None."""
    name = (dotted(c.func) or '')
    if not name.startswith(('np.', 'numpy.')) or not c.args or any(isinstance(a, ast.Starred) for a in c.args) or any(k.arg is None for k in c.keywords):
        return None
    last = name.split('.', 1)[1]
    if last in ('hstack', 'column_stack'):
        return c.args[0], 'beside'
    if last in ('vstack', 'row_stack'):
        return c.args[0], 'below'
    if last != 'concatenate':
        return None
    ax = next((k.value for k in c.keywords if k.arg == 'axis'), c.args[1] if len(c.args) > 1 else None)
    if ax is None:
        return c.args[0], 'below'
    try:
        v = value(ax) if value is not None else const_value(ax)
    except (ValueError, AnalysisError):
        return c.args[0], None
    if isinstance(v, bool) or not isinstance(v, int):
        return c.args[0], None
    return c.args[0], 'beside' if v in (1, -1) else 'below' if v in (0, -2) else None


class Interp:
    """Constant propagation through the helpers of native_draws.py."""

    def __init__(self, ctx: Ctx):
        self.ctx = ctx
        self.prog = ctx.prog
        self.nd = self.prog.module(ND)
        self.dr = self.prog.module(DR)
        self.depth = 0

    def fail(self, node, msg):
        raise AnalysisError(f'C11: generator idiom not recognised at {self.nd.path}:{getattr(node, "lineno", "?")}: {msg}')

    def call_generator(self, f: FuncInfo, args: list, kwargs: dict):
        self.depth += 1
        if self.depth > 12:
            raise AnalysisError('C11: generator helpers recurse')
        try:
            if f.module is self.dr:
                return self.base_generator(f, args, kwargs)
            env = self.bind(f, args, kwargs)
            for st in f.body:
                if isinstance(st, ast.Assign) and len(st.targets) == 1 and isinstance(st.targets[0], ast.Name):
                    env[st.targets[0].id] = self.ev(st.value, env, f)
                elif isinstance(st, ast.Return):
                    return self.ev(st.value, env, f)
                else:
                    self.fail(st, f'statement {unparse(st)[:60]}')
            self.fail(f.node, 'no return')
        finally:
            self.depth -= 1

    def bind(self, f: FuncInfo, args: list, kwargs: dict) -> dict:
        a = f.node.args
        params = [x.arg for x in a.posonlyargs + a.args]
        defaults = dict(zip(params[len(params) - len(a.defaults) :], a.defaults))
        env = {}
        for p, v in zip(params, args):
            env[p] = v
        for k, v in kwargs.items():
            if k not in params:
                self.fail(f.node, f'unknown keyword {k} for {f.name}')
            env[k] = v
        for p in params:
            if p not in env:
                if p in defaults:
                    try:
                        env[p] = const_value(defaults[p])
                    except ValueError:
                        self.fail(f.node, f'default of {p}')
                else:
                    self.fail(f.node, f'parameter {p} of {f.name} not bound')
        return env

    def base_generator(self, f: FuncInfo, args: list, kwargs: dict):
        env = self.bind(f, args, kwargs)
        n = f.name
        cnt = env.get('number_of_draws')
        if n == 'get_uniform':
            return Draws('uniform', bool(env['symmetric']), 'random', count=cnt)
        if n == 'get_latin_hypercube_draws':
            if env['uniform_numbers'] is not None:
                self.fail(f.node, 'MLHS fed with explicit uniform numbers')
            return Draws('uniform', bool(env['symmetric']), 'mlhs', count=cnt)
        if n == 'get_halton_draws':
            if env['shuffled']:
                self.fail(f.node, 'shuffled Halton')
            return Draws('uniform', bool(env['symmetric']), 'halton', base=env['base'], skip=env['skip'], count=cnt)
        if n == 'get_antithetic':
            g = env['uniform_draws']
            if not isinstance(g, FuncInfo):
                self.fail(f.node, 'get_antithetic without a generator function')
            half = Count('N/2') if cnt == 'N' else Count(f'({cnt})/2')
            d = self.call_generator(g, [env['sample_size'], half], {})
            if not isinstance(d, Draws):
                self.fail(f.node, 'antithetic of a non-draw')
            # mirror image 1 - d is the antithetic of a [0,1] variate only
            return replace(d, anti=True, count=Count('N') if d.count == 'N/2' else Count(f'2*({d.count})'), sym=d.sym,
                           dist=d.dist if not d.sym else 'uniform-mirrored-with-1-minus-on-[-1,1]')
        if n == 'get_normal_wichura_draws':
            u = env['uniform_numbers']
            anti = bool(env['antithetic'])
            if u is None:
                return Draws('normal', False, 'random', anti=anti, count=cnt)
            if not isinstance(u, Draws) or u.dist != 'uniform':
                self.fail(f.node, 'normal transform of a non-uniform')
            want = 'N/2' if anti else 'N'
            ok_count = u.count == want if cnt == 'N' else False
            return Draws(
                'normal' if not u.sym else 'normal-of-[-1,1]-numbers',
                False,
                u.source,
                u.base,
                u.skip,
                anti=anti or u.anti,
                count=Count('N') if ok_count else Count(f'uniform numbers: {u.count}, needed {want}'),
            )
        self.fail(f.node, f'unknown base generator {n}')

    def ev(self, e: ast.expr, env: dict, f: FuncInfo):
        if isinstance(e, ast.Constant):
            return e.value
        if isinstance(e, ast.Name):
            if e.id in env:
                return env[e.id]
            r = self.prog.resolve_name(f.module, e.id)
            if r and r[0] == 'func':
                return r[1]
            self.fail(e, f'name {e.id}')
        if isinstance(e, ast.Attribute):
            r = self.prog.resolve_expr(f.module, e)
            if r and r[0] == 'func':
                return r[1]
            self.fail(e, f'attribute {unparse(e)}')
        if isinstance(e, ast.UnaryOp) and isinstance(e.op, ast.USub):
            v = self.ev(e.operand, env, f)
            if isinstance(v, Draws):
                return Neg(v)
            if isinstance(v, (int, float)):
                return -v
        if isinstance(e, ast.BinOp):
            l, r = self.ev(e.left, env, f), self.ev(e.right, env, f)
            if isinstance(e.op, ast.Sub) and l in (1, 1.0) and isinstance(r, Draws):
                return OneMinus(r)
            if isinstance(e.op, (ast.Div, ast.FloorDiv)) and isinstance(l, str) and r in (2, 2.0):
                return Count('N/2') if l == 'N' else Count(f'({l})/2')
            if isinstance(l, (int, float)) and isinstance(r, (int, float)):
                return const_value(e)
        if isinstance(e, (ast.Tuple, ast.List)):
            return tuple(self.ev(x, env, f) for x in e.elts)
        if isinstance(e, ast.Call):
            name = dotted(e.func) or ''
            if name == 'int' and len(e.args) == 1:
                return self.ev(e.args[0], env, f)
            cat = concat_axis(e, lambda a: self.ev(a, env, f))
            if cat is not None:
                parts = self.ev(cat[0], env, f)
                if not (isinstance(parts, tuple) and len(parts) == 2 and isinstance(parts[0], Draws)):
                    self.fail(e, 'concatenate of something else than (d, mirror of d)')
                d, m = parts
                # the arrays of these generators are (sample, draws): axis 1 and axis -1 are the same one; no axis means axis 0
                if cat[1] is None:
                    self.fail(e, 'axis of the concatenation is not a constant')
                if cat[1] == 'below':
                    return replace(d, dist=f'{d.dist}-concatenated-along-axis-0')
                # the mirror image of the very array it stands beside: two calls of a random generator are two different arrays
                same = isinstance(m, (Neg, OneMinus)) and (m.of is d or (m.of == d and d.source == 'halton'))
                if isinstance(m, Neg) and same:
                    good = d.sym or d.dist == 'normal'
                    return replace(d, anti=True, count=Count('N') if d.count == 'N/2' else Count(f'2*({d.count})'),
                                   dist=d.dist if good else f'{d.dist}-mirrored-with-minus-on-[0,1]')
                if isinstance(m, OneMinus) and same:
                    good = not d.sym and d.dist == 'uniform'
                    return replace(d, anti=True, count=Count('N') if d.count == 'N/2' else Count(f'2*({d.count})'),
                                   dist=d.dist if good else f'{d.dist}-mirrored-with-1-minus')
                self.fail(e, 'second half is not the mirror image of the first')
            callee = self.ev(e.func, env, f)
            if isinstance(callee, FuncInfo):
                args = [self.ev(a, env, f) for a in e.args]
                kwargs = {k.arg: self.ev(k.value, env, f) for k in e.keywords}
                return self.call_generator(callee, args, kwargs)
        self.fail(e, f'expression {unparse(e)[:60]}')


KEY_RE = re.compile(r'^(UNIFORM|UNIFORMSYM|NORMAL)(?:_(HALTON)(\d+)|_(MLHS))?(_ANTI)?$')


#: obligations whose failure contradicts the property (rule, construct pattern, why); every other failure is 'not recognised'
POSITIVE: list[tuple[str, str, str]] = [
    ('C11.R1', r'^catalogue\[\w+\](\.description)?$', 'the key / the description of a catalogue entry names another support, method or variant than the entry has'),
    ('C11.R1', r'^catalogue\[\w+\]=catalogue\[\w+\]$', 'two catalogue keys deliver the same thing'),
    ('C11.R3', r'^AS241\.(?!algorithm)', 'a constant, shift or region of the matched AS241 algorithm differs from the published one'),
]


def run(ctx: Ctx) -> None:
    ctx.positive_table = list(POSITIVE)
    prog = ctx.prog
    ctx.rule(
        'C11.R1',
        'catalogue agreement: tokens of each key of native_random_number_generators (UNIFORM|UNIFORMSYM|NORMAL, _HALTON<b>, _MLHS, '
        '_ANTI) = tokens of its description = feature vector of the bound generator, obtained by constant propagation through the '
        'helpers of native_draws.py into the base generators of draws.py (distribution, support, source, base, skip, antithetic '
        'construction, number of draws)',
    )
    ctx.rule(
        'C11.R2',
        'base generators: the symmetric variant is 2u-1 applied after generation, antithetic halves are (d, 1-d) resp. (d, -d) of '
        'int(n/2) generated draws along axis 1, the returned array has shape (sample_size, number_of_draws), the Halton slice starts '
        'after skip+1 elements and has the requested length, MLHS puts point i at (i + u_i)/n',
    )
    ctx.rule(
        'C11.R3',
        'AS241: the coefficients and constants of get_normal_wichura_draws equal the published PPND16 table, the rational forms are '
        'Horner forms of those coefficients in the published order, the central form is selected by |u - 1/2| <= 0.425 and the tails '
        'by the complement, r = min(u, 1-u), the sign is restored for u < 1/2',
    )
    ctx.not_decided += ['supports and shapes of the arrays at run time', 'the Halton digit recursion', 'randomness of the underlying numpy generator']
    nd = prog.module(ND)
    table = nd.assigns.get('native_random_number_generators')
    ctx.need(isinstance(table, ast.Dict), 'native_draws.native_random_number_generators is a dict literal')
    # the literal is the catalogue only if nothing stores into it afterwards
    for m_ in prog.modules.values():
        for x in ast.walk(m_.tree):
            tgt = None
            if isinstance(x, ast.Subscript) and isinstance(x.ctx, (ast.Store, ast.Del)):
                tgt = x.value
            elif isinstance(x, ast.AugAssign):
                tgt = x.target
            elif isinstance(x, ast.Call) and isinstance(x.func, ast.Attribute) and x.func.attr in ('update', 'pop', 'popitem', 'clear', 'setdefault', '__setitem__', '__delitem__'):
                tgt = x.func.value
            if tgt is not None and (dotted(tgt) or '').split('.')[-1] == 'native_random_number_generators':
                raise AnalysisError(f'C11: the catalogue native_random_number_generators is changed after its definition ({m_.path}:{x.lineno}): the literal is not the catalogue')
    n_defs = sum(1 for x in ast.walk(nd.tree) if isinstance(x, ast.Name) and x.id == 'native_random_number_generators' and isinstance(x.ctx, (ast.Store, ast.Del)))
    ctx.need(n_defs == 1, 'native_draws.native_random_number_generators is bound once')
    interp = Interp(ctx)
    seen_features: dict[str, Draws] = {}
    for k, v in zip(table.keys, table.values):
        try:
            key = const_value(k)
        except ValueError:
            raise AnalysisError('C11: non-literal catalogue key')
        where = (nd.path, k.lineno)
        m = KEY_RE.match(key)
        if not m:
            ctx.add('C11.R1', f'catalogue[{key}]', False, where, f'key {key} does not follow the naming scheme', key)
            continue
        kind, halton, base, mlhs, anti = m.groups()
        if not (isinstance(v, ast.Call) and (dotted(v.func) or '').endswith('RandomNumberGeneratorTuple')):
            raise AnalysisError(f'C11: catalogue entry {key} is not a RandomNumberGeneratorTuple(...)')
        gen = next((kw.value for kw in v.keywords if kw.arg == 'generator'), v.args[0] if v.args else None)
        desc = next((kw.value for kw in v.keywords if kw.arg == 'description'), v.args[1] if len(v.args) > 1 else None)
        try:
            description = const_value(desc)
        except ValueError:
            raise AnalysisError(f'C11: description of {key} is not a literal')
        r = prog.resolve_expr(nd, gen)
        if not r or r[0] != 'func':
            ctx.add('C11.R1', f'catalogue[{key}].generator', False, where, f'generator {unparse(gen)} does not resolve', unparse(gen))
            continue
        d = interp.call_generator(r[1], ['S', Count('N')], {})
        if not isinstance(d, Draws):
            ctx.add('C11.R1', f'catalogue[{key}].generator', False, where, f'{unparse(gen)} does not return draws', unparse(gen))
            continue
        want = Draws(
            'normal' if kind == 'NORMAL' else 'uniform',
            kind == 'UNIFORMSYM',
            'halton' if halton else 'mlhs' if mlhs else 'random',
            int(base) if base else None,
            d.skip if halton else None,
            bool(anti),
            'N',
        )
        ok = d == want
        ctx.add('C11.R1', f'catalogue[{key}].generator', ok, where,
                f'{key} is bound to {unparse(gen)} which yields: {d.describe()}' + ('' if ok else f'; advertised: {want.describe()}'),
                detail=d.describe(), positive=True)
        seen_features[key] = d
        # description tokens
        problems = []
        dl = description
        if '[-1, 1]' in dl and kind != 'UNIFORMSYM':
            problems.append('mentions [-1, 1]')
        if '[0, 1]' in dl and kind != 'UNIFORM':
            problems.append('mentions [0, 1]')
        if kind == 'UNIFORMSYM' and '[-1, 1]' not in dl:
            problems.append('does not mention [-1, 1]')
        if ('ormal' in dl) != (kind == 'NORMAL'):
            problems.append('normal/uniform wording')
        if ('ntithetic' in dl) != bool(anti):
            problems.append('antithetic wording')
        mb = re.search(r'base (\d+)', dl)
        if bool(mb) != bool(halton) or (mb and mb.group(1) != base):
            problems.append(f'base wording ({mb.group(1) if mb else None} vs key {base})')
        if ('Halton' in dl) != bool(halton):
            problems.append('Halton wording')
        if ('Latin Hypercube' in dl) != bool(mlhs):
            problems.append('Latin Hypercube wording')
        ms = re.search(r'skipping the first (\d+)', dl)
        if ms and (d.skip is None or int(ms.group(1)) != d.skip):
            problems.append(f'advertises skipping {ms.group(1)}, generator skips {d.skip}')
        ctx.add('C11.R1', f'catalogue[{key}].description', not problems, where,
                f'{key}: "{dl}"' + ('' if not problems else ' - ' + ', '.join(problems)), detail=dl + '|' + ','.join(problems))
    ctx.floor('C11.R1', 40)
    # different advertised bases => different sequences
    for a in seen_features:
        for b in seen_features:
            if a < b and seen_features[a] == seen_features[b]:
                ctx.add('C11.R1', f'catalogue[{a}]=catalogue[{b}]', False, (nd.path, table.lineno),
                        f'{a} and {b} are generated identically: {seen_features[a].describe()}', f'{a}={b}')
    # description_of_native_draws pairs key with description (index 1 / .description)
    dn = prog.func(ND, 'description_of_native_draws')
    rets = [n for n in walk_no_nested(dn.node) if isinstance(n, ast.Return)]
    ok = False
    if len(rets) == 1 and isinstance(rets[0].value, ast.DictComp):
        dc = rets[0].value
        g = dc.generators[0]
        if unparse(g.iter) == 'native_random_number_generators.items()' and isinstance(g.target, ast.Tuple) and not g.ifs:
            kn, vn = unparse(g.target.elts[0]), unparse(g.target.elts[1])
            ok = unparse(dc.key) == kn and unparse(dc.value) in (f'{vn}[1]', f'{vn}.description')
    ctx.add('C11.R1', 'native_draws.description_of_native_draws', ok, dn, 'pairs every key with the description of the same entry', unparse(rets[0].value) if rets else '')

    _base_generators(ctx)
    _as241(ctx)
    # the catalogue entry of a variable is the one of ITS declared type: the table built by Database.generate_draws (rule of C10.R1)
    ctx.rule('C11.R4', 'served as declared: Database.generate_draws fills column i with the generator registered for the declared type of the i-th name (obligation of C10.R1 on generate_draws)')
    from . import c10

    sub = Ctx(prog, ctx.prop, ctx.tier)
    c10.run(sub)
    got = 0
    for o in sub.obligations:
        if o.construct == 'Database.generate_draws:columns':
            got += 1
            ctx.adopt('C11.R4', o)
    ctx.need(got == 1, 'the obligation of C10.R1 on Database.generate_draws')


# --------------------------------------------------------------------------


def _assigns_to(f: FuncInfo, name: str) -> list[ast.Assign]:
    out = []
    for n in walk_no_nested(f.node):
        if isinstance(n, ast.Assign) and any(unparse(t) == name for t in n.targets):
            out.append(n)
    return out


def _other_stores_to(f: FuncInfo, name: str) -> list[ast.stmt]:
    """the statements that change `name` and are not plain assignments: x += ..., x: T = ..., x[...] = ..., for x in ..., an
    in-place operator method or ufunc with out=x"""
    out = []
    for n in walk_no_nested(f.node):
        if isinstance(n, (ast.AugAssign, ast.AnnAssign)) and unparse(n.target) == name:
            out.append(n)
        elif isinstance(n, ast.AugAssign) and isinstance(n.target, ast.Subscript) and unparse(n.target.value) == name:
            out.append(n)
        elif isinstance(n, ast.Assign) and any(isinstance(t, ast.Subscript) and unparse(t.value) == name for t in n.targets):
            out.append(n)
        elif isinstance(n, ast.Assign) and any(isinstance(t, (ast.Tuple, ast.List)) and any(unparse(x) == name for x in ast.walk(t) if isinstance(x, ast.Name)) for t in n.targets):
            out.append(n)
        elif isinstance(n, ast.For) and any(isinstance(x, ast.Name) and x.id == name for x in ast.walk(n.target)):
            out.append(n)
        elif isinstance(n, ast.Expr) and isinstance(n.value, ast.Call) and any(k.arg == 'out' and unparse(k.value) == name for k in n.value.keywords):
            out.append(n)
    return out


def _base_generators(ctx: Ctx) -> None:
    prog = ctx.prog
    for fname in ('get_uniform', 'get_latin_hypercube_draws', 'get_halton_draws'):
        f = prog.func(DR, fname)
        # `if symmetric: x = 2*x - 1` exactly once, on the array that is returned
        hits = []
        for n in walk_no_nested(f.node):
            if isinstance(n, ast.If) and unparse(n.test) == 'symmetric':
                hits.append(n)
        ok = False
        det = ''
        if len(hits) == 1 and len(hits[0].body) == 1 and not hits[0].orelse and isinstance(hits[0].body[0], ast.Assign):
            a = hits[0].body[0]
            tgt = unparse(a.targets[0])
            ts = ToSympy()
            try:
                ok = equal(ts(a.value), 2 * ts.sym(tgt) - 1)
            except AnalysisError:
                ok = False
            det = unparse(a)
            rets = [n for n in walk_no_nested(f.node) if isinstance(n, ast.Return)]
            ok = ok and len(rets) == 1 and unparse(rets[0].value) == tgt
            # nothing rescales the array after the symmetric map
            later = [s for s in _assigns_to(f, tgt) if seq(s) > seq(a)]
            ok = ok and not later
            # (x = x * c is read as x *= c by the normal form; an item store or an in-place operation changes the array as well)
            ok = ok and not [s for s in _other_stores_to(f, tgt) if getattr(s, 'lineno', 0) > a.lineno]
        ctx.add('C11.R2', f'draws.{fname}:symmetric', ok, (f.file, hits[0].lineno if hits else f.line),
                f'symmetric variant of {fname} is the map 2u-1 of the returned array' if ok else f'symmetric branch of {fname} is not `x = 2x-1` on the returned array: {det}', det)
    for fname in ('get_uniform', 'get_latin_hypercube_draws', 'get_halton_draws', 'get_normal_wichura_draws'):
        f = prog.func(DR, fname)
        rets = [n for n in walk_no_nested(f.node) if isinstance(n, ast.Return)]
        ret = unparse(rets[-1].value) if rets else ''
        shapes = [n for n in _assigns_to(f, f'{ret}.shape')]
        ok = bool(shapes) and unparse(shapes[-1].value) == '(sample_size, number_of_draws)'
        ctx.add('C11.R2', f'draws.{fname}:shape', ok, (f.file, shapes[-1].lineno if shapes else f.line),
                f'{fname} returns shape (sample_size, number_of_draws)' if ok else f'{fname}: last shape of the returned array is {unparse(shapes[-1].value) if shapes else "never set"}',
                unparse(shapes[-1]) if shapes else '')
    # get_antithetic
    f = prog.func(DR, 'get_antithetic')
    rets = [n for n in walk_no_nested(f.node) if isinstance(n, ast.Return)]
    ok = False
    det = unparse(rets[0].value) if rets else ''
    cat_ = concat_axis(rets[0].value) if len(rets) == 1 and isinstance(rets[0].value, ast.Call) else None
    if cat_ is not None:
        if isinstance(cat_[0], (ast.Tuple, ast.List)) and len(cat_[0].elts) == 2 and cat_[1] == 'beside':
            a, b = cat_[0].elts
            nm = unparse(a)
            ts = ToSympy()
            try:
                mirror = equal(ts(b), 1 - ts.sym(nm))
            except AnalysisError:
                mirror = False
            src = _assigns_to(f, nm)
            half = False
            if len(src) == 1 and isinstance(src[0].value, ast.Call) and unparse(src[0].value.func) == 'uniform_draws':
                cnt = src[0].value.args[1] if len(src[0].value.args) > 1 else None
                if cnt is not None:
                    defs = _assigns_to(f, unparse(cnt))
                    cexpr = defs[0].value if defs else cnt
                    half = unparse(cexpr).replace(' ', '') in ('int(number_of_draws/2.0)', 'int(number_of_draws/2)', 'number_of_draws//2')
                half = half and unparse(src[0].value.args[0]) == 'sample_size'
            ok = mirror and half
    stacked = None
    if not ok:
        for cc in [x for x in walk_no_nested(f.node) if isinstance(x, ast.Call)]:
            cat_ = concat_axis(cc)
            if cat_ is None or not (isinstance(cat_[0], (ast.Tuple, ast.List)) and len(cat_[0].elts) == 2):
                continue
            a_, b_ = cat_[0].elts
            try:
                ts_ = ToSympy()
                mir = equal(ts_(b_), 1 - ts_.sym(unparse(a_)))
            except AnalysisError:
                mir = False
            # the blocks are (sample, draws): only axis 0 (also the default, also -2) puts the mirror images below the generated block.
            # That is a fact only when the blocks are the generated array itself (a name defined once, by the call of the generator: not
            # its transpose, not a slice) and the stacked array is what is returned (as it is, reshaped or copied: a transposition,
            # a split ... of the result may well put the halves side by side again)
            src_ = _assigns_to(f, unparse(a_)) if isinstance(a_, ast.Name) else []
            plain = len(src_) == 1 and isinstance(src_[0].value, ast.Call) and unparse(src_[0].value.func) == 'uniform_draws' and not any(
                isinstance(x, (ast.Attribute, ast.Call, ast.Subscript)) for x in ast.walk(b_))
            from ..core import inline_locals as _inl

            rv = _inl(f.node, rets[0].value) if len(rets) == 1 and rets[0].value is not None else None
            while rv is not None and unparse(rv) != unparse(_inl(f.node, cc)):
                if isinstance(rv, ast.Call) and isinstance(rv.func, ast.Attribute) and rv.func.attr == 'reshape':
                    rv = rv.func.value
                elif isinstance(rv, ast.Call) and (dotted(rv.func) or '') in ('np.ascontiguousarray', 'np.asarray', 'np.array', 'np.copy') and len(rv.args) == 1 and not rv.keywords:
                    rv = rv.args[0]
                else:
                    rv = None
            if mir and cat_[1] == 'below' and plain and rv is not None:
                stacked = f'{unparse(cc)[:80]}: the mirror images are concatenated along axis 0 (below the generated block), not beside it: observation i no longer receives its draws followed by their mirror images'
    ctx.add('C11.R2', 'draws.get_antithetic', ok if (ok or stacked) else None, f, 'returns (d, 1-d) along axis 1 with d = uniform_draws(sample_size, int(n/2))' if ok else (stacked or f'antithetic construction not recognised: {det}'), det, positive=bool(stacked))
    # normal antithetic
    f = prog.func(DR, 'get_normal_wichura_draws')
    ifs = [n for n in walk_no_nested(f.node) if isinstance(n, ast.If) and unparse(n.test) == 'antithetic']
    halves = [a for i in ifs for a in i.body if isinstance(a, ast.Assign) and unparse(a.targets[0]) == 'number_of_draws']
    ok1 = len(halves) == 1 and unparse(halves[0].value).replace(' ', '') in ('int(number_of_draws/2.0)', 'int(number_of_draws/2)', 'number_of_draws//2')
    even = any(isinstance(n, ast.If) and 'number_of_draws % 2' in unparse(n.test) and any(isinstance(x, ast.Raise) for x in n.body) for i in ifs for n in i.body)
    cat = [a for i in ifs for a in i.body if isinstance(a, ast.Assign) and isinstance(a.value, ast.Call) and concat_axis(a.value) is not None]
    ok2 = False
    det = ''
    if len(cat) == 1:
        c = cat[0].value
        det = unparse(cat[0])
        cat_ = concat_axis(c)
        if cat_ is not None and isinstance(cat_[0], (ast.Tuple, ast.List)) and len(cat_[0].elts) == 2 and cat_[1] == 'beside':
            a, b = cat_[0].elts
            ok2 = unparse(b) == f'-{unparse(a)}' and unparse(cat[0].targets[0]) == unparse(a)
            rets = [n for n in walk_no_nested(f.node) if isinstance(n, ast.Return)]
            ok2 = ok2 and rets and unparse(rets[-1].value) == unparse(a)
    ctx.add('C11.R2', 'draws.get_normal_wichura_draws:antithetic', ok1 and ok2 and even, f,
            'antithetic normal draws: int(n/2) generated (even n required), completed by their negatives along axis 1' if ok1 and ok2 and even
            else f'antithetic normal construction not recognised (halving={ok1}, even-test={even}, mirror={ok2}): {det}', det)
    # Halton slice
    from ..core import inline_locals
    from ..pattern import find as pfind

    f = prog.func(DR, 'get_halton_draws')
    rets = [n for n in walk_no_nested(f.node) if isinstance(n, ast.Return)]
    arr = unparse(rets[-1].value) if rets else ''
    sl = [a for a in _assigns_to(f, arr) if isinstance(a.value, ast.Subscript) and isinstance(a.value.slice, ast.Slice) and unparse(a.value.value) == arr]
    ok = False
    det = ''
    if len(sl) == 1:
        s = sl[0].value.slice
        det = unparse(sl[0]).replace(arr, 'numbers')
        ts = ToSympy()
        try:
            lo, hi = ts(inline_locals(f.node, s.lower)), ts(inline_locals(f.node, s.upper))
            ok = equal(lo, ts.sym('skip') + 1) and equal(hi - lo, ts.sym('number_of_draws') * ts.sym('sample_size')) and s.step is None
            # ... of the parameters as they arrived: none of them is re-bound (skip = skip + 1 is read as skip += 1)
            ok = ok and not any(isinstance(x, ast.Name) and isinstance(x.ctx, (ast.Store, ast.Del)) and x.id in ('skip', 'number_of_draws', 'sample_size', 'base') for x in walk_no_nested(f.node))
        except AnalysisError:
            ok = False
    ctx.add('C11.R2', 'draws.get_halton_draws:skip', ok, (f.file, sl[0].lineno if sl else f.line),
            'keeps elements skip+1 .. skip+n*s of the sequence (element 0 is the origin)' if ok else f'Halton slice is not [skip+1 : skip+1+length]: {det}', det)
    # MLHS strata
    f = prog.func(DR, 'get_latin_hypercube_draws')
    comps = [n for n in walk_no_nested(f.node) if isinstance(n, ast.ListComp)]
    ok = False
    det = ''
    for c in comps:
        g = c.generators[0]
        det = unparse(c)
        if isinstance(g.target, ast.Name) and isinstance(g.iter, ast.Call) and unparse(g.iter.func) == 'range' and len(g.iter.args) == 1 and not g.ifs:
            i = g.target.id
            T = unparse(g.iter.args[0])
            ts = ToSympy()
            try:
                ok = equal(ts(c.elt), (ts.sym(i) + ts.sym(f'uniform_numbers[{i}]')) / ts.sym(T))
            except AnalysisError:
                ok = False
            tdef = _assigns_to(f, T)
            ok = ok and len(tdef) == 1 and unparse(tdef[0].value).replace(' ', '') in ('number_of_draws*sample_size', 'sample_size*number_of_draws')
        elif isinstance(g.target, ast.Tuple) and len(g.target.elts) == 2 and all(isinstance(x, ast.Name) for x in g.target.elts) and unparse(g.iter) == 'enumerate(uniform_numbers)' and not g.ifs:
            # the same points, the uniform numbers taken in turn: their count is fixed by `uniform_numbers.shape = (n,)`
            i, u = (x.id for x in g.target.elts)
            shp = [a for a in _assigns_to(f, 'uniform_numbers.shape') if isinstance(a.value, ast.Tuple) and len(a.value.elts) == 1 and seq(a) < seq(c)]
            if len(shp) == 1:
                T = unparse(shp[0].value.elts[0])
                ts = ToSympy()
                try:
                    ok = equal(ts(c.elt), (ts.sym(i) + ts.sym(u)) / ts.sym(T))
                except AnalysisError:
                    ok = False
                tdef = _assigns_to(f, T)
                ok = ok and len(tdef) == 1 and unparse(tdef[0].value).replace(' ', '') in ('number_of_draws*sample_size', 'sample_size*number_of_draws')
    ctx.add('C11.R2', 'draws.get_latin_hypercube_draws:strata', ok, f,
            'point i is (i + u_i)/n for i in range(n), n = sample_size*number_of_draws' if ok else f'MLHS stratum formula not recognised: {det}', det)


AS241_PATTERN = """
_Q = uniform_numbers - 0.5
_D = np.zeros(uniform_numbers.shape)
_R = np.zeros(uniform_numbers.shape)
_M1 = __P1
_R[_M1] = __K1 - _Q[_M1] * _Q[_M1]
_D[_M1] = _Q[_M1] * (((((((_A7 * _R[_M1] + _A6) * _R[_M1] + _A5) * _R[_M1] + _A4) * _R[_M1] + _A3) * _R[_M1] + _A2) * _R[_M1] + _A1) * _R[_M1] + _A0) / (((((((_B7 * _R[_M1] + _B6) * _R[_M1] + _B5) * _R[_M1] + _B4) * _R[_M1] + _B3) * _R[_M1] + _B2) * _R[_M1] + _B1) * _R[_M1] + 1)
_M2 = __P2
_M2A = np.logical_and(_M2, _Q < 0.0)
_M2B = np.logical_and(_M2, _Q >= 0.0)
_R[_M2A] = uniform_numbers[_M2A]
_R[_M2B] = 1 - uniform_numbers[_M2B]
_M2C = np.logical_and(_M2, _R <= 0)
_M2D = np.logical_and(_M2, _R > 0)
_D[_M2C] = 0.0
_R[_M2D] = np.sqrt(-np.log(_R[_M2D]))
_M2DA = np.logical_and(_M2D, _R <= __TH1)
_M2DB = np.logical_and(_M2D, _R > __TH2)
_R[_M2DA] = _R[_M2DA] - __SHIFTC
_D[_M2DA] = (((((((_C7 * _R[_M2DA] + _C6) * _R[_M2DA] + _C5) * _R[_M2DA] + _C4) * _R[_M2DA] + _C3) * _R[_M2DA] + _C2) * _R[_M2DA] + _C1) * _R[_M2DA] + _C0) / (((((((_D7 * _R[_M2DA] + _D6) * _R[_M2DA] + _D5) * _R[_M2DA] + _D4) * _R[_M2DA] + _D3) * _R[_M2DA] + _D2) * _R[_M2DA] + _D1) * _R[_M2DA] + 1)
_R[_M2DB] = _R[_M2DB] - __SHIFTE
_D[_M2DB] = (((((((_E7 * _R[_M2DB] + _E6) * _R[_M2DB] + _E5) * _R[_M2DB] + _E4) * _R[_M2DB] + _E3) * _R[_M2DB] + _E2) * _R[_M2DB] + _E1) * _R[_M2DB] + _E0) / (((((((_F7 * _R[_M2DB] + _F6) * _R[_M2DB] + _F5) * _R[_M2DB] + _F4) * _R[_M2DB] + _F3) * _R[_M2DB] + _F2) * _R[_M2DB] + _F1) * _R[_M2DB] + 1)
_D[_M2A] = -_D[_M2A]
_D.shape = (sample_size, number_of_draws)
"""


def _as241(ctx: Ctx) -> None:
    """The tail of get_normal_wichura_draws is matched, as a whole, against the published algorithm written with
    metavariables for every local; the constants bound to the coefficient metavariables are then compared with the
    published table and the two region predicates are examined separately."""
    from ..pattern import find

    prog = ctx.prog
    f = prog.func(DR, 'get_normal_wichura_draws')
    b = find(f.node, AS241_PATTERN)
    ctx.add('C11.R3', 'AS241.algorithm', b is not None, f,
            'the transform follows AS241/PPND16: q = u - 1/2; central form q*A(r)/B(r) with r = const1 - q^2; tails r = min(u, 1-u), r = sqrt(-ln r), C/D form on r - const2 for r <= split2, E/F form on r - split2 beyond; sign restored for q < 0; Horner forms in published coefficient order'
            if b is not None else 'the statements of get_normal_wichura_draws after `q = u - 0.5` are not the AS241 algorithm (rational forms, tail handling, shifts by const2 / split2 or sign restoration changed)',
            'algorithm')
    if b is None:
        return
    consts = {}
    n_stores: dict = {}
    for x in walk_no_nested(f.node):
        if isinstance(x, ast.Name) and isinstance(x.ctx, (ast.Store, ast.Del)):
            n_stores[x.id] = n_stores.get(x.id, 0) + 1
    for st in f.body:
        # (a name stored more than once - c3 = c3 * 1.01 after the literal - is not the constant of its first assignment)
        if isinstance(st, ast.Assign) and len(st.targets) == 1 and isinstance(st.targets[0], ast.Name) and n_stores.get(st.targets[0].id) == 1:
            try:
                v = const_value(st.value)
            except ValueError:
                continue
            if isinstance(v, (int, float)) and not isinstance(v, bool):
                consts[st.targets[0].id] = (float(v), st.lineno)
    roles = {}
    for c in 'ABCDEF':
        for k in range(8):
            if k == 0 and c in 'BDF':
                continue
            roles[f'_{c}{k}'] = f'{c.lower()}{k}'
    for mv, pub in roles.items():
        local = b.get(mv)
        if local is None or local not in consts:
            raise AnalysisError(f'C11.R3: the {pub} of AS241 (local {local}) is not a constant of get_normal_wichura_draws')
        got, line = consts[local]
        ok = got == float(AS241[pub])
        ctx.add('C11.R3', f'AS241.{pub}', ok, (f.file, line), f'{pub} = {got!r}' + ('' if ok else f', published {AS241[pub]!r}'), detail=f'{pub}={got!r}')
    # the constants of the algorithm that are not coefficients: which published constant stands where
    def value_of(e):
        try:
            return float(const_value(e))
        except ValueError:
            c = consts.get(unparse(e))
            return c[0] if c else None

    for mv, pub, what in (('__K1', 'const1', 'r = const1 - q^2 in the central region'), ('__TH1', 'split2', 'the C/D form is used for r <= split2'), ('__TH2', 'split2', 'the E/F form is used for r > split2'),
                          ('__SHIFTC', 'const2', 'the C/D form is evaluated at r - const2'), ('__SHIFTE', 'split2', 'the E/F form is evaluated at r - split2')):
        e = b[mv][1]
        got = value_of(e)
        if got is None:
            raise AnalysisError(f'C11.R3: {unparse(e)} in get_normal_wichura_draws is not a constant')
        ok = got == float(AS241[pub])
        ctx.add('C11.R3', f'AS241.{pub}@{mv.strip("_").lower()}', ok, (f.file, e.lineno), f'{what}: {unparse(e)} = {got!r}' + ('' if ok else f'; AS241 has {pub} = {AS241[pub]!r} there'), detail=f'{mv}={got!r}')
    for pub in ('const1', 'const2', 'split2'):
        if pub in consts:
            got = consts[pub][0]
            ok = got == float(AS241[pub])
            ctx.add('C11.R3', f'AS241.{pub}', ok, (f.file, consts[pub][1]), f'{pub} = {got!r}' + ('' if ok else f', published {AS241[pub]!r}'), detail=f'{pub}={got!r}')
    Q = b['_Q']
    from ..core import inline_locals

    FLIP = {'LtE': 'Gt', 'Gt': 'LtE', 'Lt': 'GtE', 'GtE': 'Lt'}  # complement of a comparison
    MIRROR = {'LtE': 'GtE', 'GtE': 'LtE', 'Lt': 'Gt', 'Gt': 'Lt'}  # the same comparison read from the other side
    SYM = {'LtE': '<=', 'Lt': '<', 'Gt': '>', 'GtE': '>='}

    def is_abs(x):
        return isinstance(x, ast.Call) and (dotted(x.func) or '') in ('abs', 'np.abs', 'numpy.abs', 'np.absolute', 'numpy.absolute', 'np.fabs', 'numpy.fabs') and len(x.args) == 1 and not x.keywords

    def norm(x):
        """(abs call, op, threshold node, threshold value) of a mask `abs(ARG) OP constant` - written from either side, or as the
        complement (~m, np.logical_not(m), np.invert(m)) of such a mask; None when the mask has another form"""
        if isinstance(x, ast.UnaryOp) and isinstance(x.op, ast.Invert):
            r = norm(x.operand)
            return None if r is None else (r[0], FLIP[r[1]], r[2], r[3])
        if isinstance(x, ast.Call) and (dotted(x.func) or '') in ('np.logical_not', 'numpy.logical_not', 'np.invert', 'numpy.invert', 'np.bitwise_not', 'numpy.bitwise_not') and len(x.args) == 1 and not x.keywords:
            r = norm(x.args[0])
            return None if r is None else (r[0], FLIP[r[1]], r[2], r[3])
        if not (isinstance(x, ast.Compare) and len(x.ops) == 1 and type(x.ops[0]).__name__ in FLIP):
            return None
        op = type(x.ops[0]).__name__
        lhs, rhs = x.left, x.comparators[0]
        if is_abs(rhs) and not is_abs(lhs):
            lhs, rhs, op = rhs, lhs, MIRROR[op]
        if not is_abs(lhs):
            return None
        try:
            thr = float(const_value(rhs))
        except ValueError:
            c = consts.get(unparse(rhs)) if n_stores.get(unparse(rhs), 0) == 1 else None
            thr = c[0] if c else None
        if thr is None:
            return None
        return lhs, op, rhs, thr

    q_def = unparse(inline_locals(f.node, ast.Name(id=Q, ctx=ast.Load())))

    def region(key: str, what: str, want_op: str):
        e = b[key][1]
        txt = unparse(e)
        r = norm(inline_locals(f.node, e))
        if r is None:
            ctx.add('C11.R3', f'AS241.region.{what}', None, (f.file, e.lineno), f'shape not recognised - expected: the {what} form selected by a mask abs(q) {SYM[want_op]} constant (found {txt})', detail=txt)
            return None
        call, op, thr_node, thr = r
        arg = unparse(call.args[0])
        is_q = arg in (Q, q_def)
        # the mask in one spelling: abs(ARG) OP threshold (the text by which a known finding is keyed)
        canon = f'{unparse(call)} {SYM[op]} {unparse(thr_node)}'
        ok = is_q and op == want_op and thr == AS241['split1']
        shown = f'{unparse(call.func)}(q) {SYM[op]} {unparse(thr_node)}' if is_q else canon
        ctx.add('C11.R3', f'AS241.region.{what}', ok, (f.file, e.lineno), f'{what} form selected by {canon}' + ('' if ok else f'; AS241 selects it by abs(q) {"<=" if want_op == "LtE" else ">"} 0.425 with q = u - 0.5'), detail=shown)
        return arg, op, thr

    a1 = region('__P1', 'central', 'LtE')
    a2 = region('__P2', 'tails', 'Gt')
    if a1 is None or a2 is None or a1[0] != a2[0]:
        # a mask in a form the rule does not read, or the two masks on different quantities: nothing is known about their union
        compl = None
    else:
        compl = a1[2] == a2[2] and FLIP[a1[1]] == a2[1]
    ctx.add('C11.R3', 'AS241.region.partition', compl, f, 'central and tail regions are complementary' if compl else
            'the central and the tail predicates are not complementary' if compl is False else 'shape not recognised - expected: the tail mask is the complement of the central mask', f'{a1}/{a2}')
    ctx.floor('C11.R3', 50)


def digest_text(t: str) -> str:
    from ..core import digest

    return digest(t)


# --------------------------------------------------------------------------
_ND = 'src/biogeme/native_draws.py'
_DRW = 'src/biogeme/draws.py'
MUTANTS = [
    dict(name='pre-fix: NORMAL_HALTON3 generated with base 2', rule='C11.R1', file=_ND,
         old='unif = draws.get_halton_draws(sample_size, number_of_draws, base=3, skip=10)', new='unif = draws.get_halton_draws(sample_size, number_of_draws, base=2, skip=10)'),
    dict(name='pre-fix: NORMAL_HALTON5 generated with base 2', rule='C11.R1', file=_ND,
         old='unif = draws.get_halton_draws(sample_size, number_of_draws, base=5, skip=10)', new='unif = draws.get_halton_draws(sample_size, number_of_draws, base=2, skip=10)'),
    dict(name='UNIFORM_HALTON5 bound to halton3', rule='C11.R1', file=_ND,
         old="        generator=halton5,\n        description='Halton draws with base 5", new="        generator=halton3,\n        description='Halton draws with base 5"),
    dict(name='symm_halton3 forgets symmetric=True', rule='C11.R1', file=_ND,
         old='sample_size, number_of_draws, symmetric=True, base=3, skip=10', new='sample_size, number_of_draws, base=3, skip=10'),
    dict(name='halton2 skips 0', rule='C11.R1', file=_ND,
         old='def halton2(sample_size: int, number_of_draws: int) -> np.ndarray:\n    return draws.get_halton_draws(sample_size, number_of_draws, base=2, skip=10)',
         new='def halton2(sample_size: int, number_of_draws: int) -> np.ndarray:\n    return draws.get_halton_draws(sample_size, number_of_draws, base=2, skip=0)'),
    dict(name='symm antithetic mirrors with 1-x', rule='C11.R1', file=_ND,
         old='    local_draws = symm_uniform(sample_size, number_local_draws)\n    return np.concatenate((local_draws, -local_draws), axis=1)',
         new='    local_draws = symm_uniform(sample_size, number_local_draws)\n    return np.concatenate((local_draws, 1 - local_draws), axis=1)'),
    dict(name='symm MLHS antithetic generates all draws then doubles', rule='C11.R1', file=_ND,
         old='    local_draws = symm_MLHS(sample_size, number_local_draws)', new='    local_draws = symm_MLHS(sample_size, number_of_draws)'),
    dict(name='normal_MLHS_anti feeds full-size uniforms', rule='C11.R1', file=_ND,
         old='unif = draws.get_latin_hypercube_draws(sample_size, int(number_of_draws / 2.0))', new='unif = draws.get_latin_hypercube_draws(sample_size, number_of_draws)'),
    dict(name='NORMAL_MLHS bound to plain normal', rule='C11.R1', file=_ND,
         old="        generator=normal_MLHS,\n", new="        generator=draws.get_normal_wichura_draws,\n"),
    dict(name='UNIFORM_ANTI described without antithetic', rule='C11.R1', file=_ND,
         old="description='Antithetic uniform U[0, 1]'", new="description='Uniform U[0, 1]'"),
    dict(name='normal_antithetic not antithetic', rule='C11.R1', file=_ND,
         old='        number_of_draws=number_of_draws,\n        antithetic=True,', new='        number_of_draws=number_of_draws,\n        antithetic=False,'),
    dict(name='AS241 coefficient c3 altered in the 8th digit', rule='C11.R3', file=_DRW, old='c3 = 3.64784832476320460504e00', new='c3 = 3.64784842476320460504e00'),
    dict(name='AS241 const2 1.6 -> 1.5', rule='C11.R3', file=_DRW, old='const2 = 1.6e00', new='const2 = 1.5e00'),
    dict(name='AS241 Horner form drops a5', rule='C11.R3', file=_DRW,
         old='(((a7 * r[cond1] + a6) * r[cond1] + a5) * r[cond1] + a4)', new='(((a7 * r[cond1] + a6) * r[cond1] + a4) * r[cond1] + a4)'),
    dict(name='AS241 denominators d/f swapped', rule='C11.R3', file=_DRW,
         old='(((d7 * r[cond2d_a] + d6) * r[cond2d_a] + d5) * r[cond2d_a] + d4)', new='(((f7 * r[cond2d_a] + d6) * r[cond2d_a] + d5) * r[cond2d_a] + d4)'),
    dict(name='AS241 sign restored for the upper tail', rule='C11.R3', file=_DRW, old='draws[cond2a] = -draws[cond2a]', new='draws[cond2b] = -draws[cond2b]'),
    dict(name='AS241 upper tail uses u instead of 1-u', rule='C11.R3', file=_DRW, old='r[cond2b] = 1 - uniform_numbers[cond2b]', new='r[cond2b] = uniform_numbers[cond2b]'),
    dict(name='symmetric Halton is 2u instead of 2u-1', rule='C11.R2', file=_DRW,
         old='    if symmetric:\n        numbers = 2.0 * numbers - 1.0\n\n    numbers.shape = (sample_size, number_of_draws)\n    return numbers\n\n\n@deprecated(get_halton_draws)',
         new='    if symmetric:\n        numbers = 2.0 * numbers\n\n    numbers.shape = (sample_size, number_of_draws)\n    return numbers\n\n\n@deprecated(get_halton_draws)'),
    dict(name='Halton slice keeps the origin', rule='C11.R2', file=_DRW, old='numbers = numbers[skip + 1 : length + skip + 1]', new='numbers = numbers[skip : length + skip]'),
    dict(name='antithetic mirror is -d on [0,1]', rule='C11.R2', file=_DRW, old='return np.concatenate((draws, 1 - draws), axis=1)', new='return np.concatenate((draws, -draws), axis=1)'),
    dict(name='antithetic halves stacked along axis 0', rule='C11.R2', file=_DRW, old='return np.concatenate((draws, 1 - draws), axis=1)', new='return np.concatenate((draws, 1 - draws), axis=0)'),
    dict(name='uniform shape transposed', rule='C11.R2', file=_DRW, old='    uniform_numbers.shape = (sample_size, number_of_draws)\n    return uniform_numbers', new='    uniform_numbers.shape = (number_of_draws, sample_size)\n    return uniform_numbers'),
    dict(name='MLHS stratum uses i+1', rule='C11.R2', file=_DRW, old='(float(i) + uniform_numbers[i]) / float(totalSize)', new='(float(i + 1) + uniform_numbers[i]) / float(totalSize)'),
    dict(name='normal antithetic completes with copies', rule='C11.R2', file=_DRW, old='draws = np.concatenate((draws, -draws), axis=1)', new='draws = np.concatenate((draws, draws), axis=1)'),
]
NEUTRAL = [
    dict(name='halton3 helper written with keywords', file=_ND,
         old='def halton3(sample_size: int, number_of_draws: int) -> np.ndarray:\n    return draws.get_halton_draws(sample_size, number_of_draws, base=3, skip=10)',
         new='def halton3(sample_size: int, number_of_draws: int) -> np.ndarray:\n    res = draws.get_halton_draws(sample_size=sample_size, number_of_draws=number_of_draws, skip=10, base=3)\n    return res'),
    dict(name='symm_uniform_antithetic calls get_uniform directly', file=_ND,
         old='    local_draws = symm_uniform(sample_size, number_local_draws)', new='    local_draws = draws.get_uniform(sample_size, number_local_draws, symmetric=True)'),
    dict(name='symmetric map written as -1 + 2*x', file=_DRW,
         old='    if symmetric:\n        uniform_numbers = 2.0 * uniform_numbers - 1.0', new='    if symmetric:\n        uniform_numbers = -1.0 + uniform_numbers * 2'),
    dict(name='AS241 coefficient written with fewer trailing zeros', file=_DRW, old='c0 = 1.42343711074968357734e00', new='c0 = 1.42343711074968357734'),
    dict(name='docstring of get_antithetic edited', file=_DRW, old='"""Returns antithetic uniform draws', new='"""Returns antithetic uniform draws (first half, then mirror image)'),
]
