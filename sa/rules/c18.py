"""C18 - MDCEV: alternative labels are never used as positions ("whatever integer labels the alternatives carry")."""

from __future__ import annotations

import ast
import re

from ..core import seq, AnalysisError, FuncInfo, call_name, unparse, walk_no_nested
from ..pattern import _parse, body_is, find, find_expr, has, has_expr, m_node
from ..report import Ctx

MODS = ['mdcev.mdcev', 'mdcev.gamma_profile', 'mdcev.translated', 'mdcev.generalized', 'mdcev.non_monotonic']

#: parameters of the MDCEV API that carry an alternative label (callers pass them by keyword)
LABEL_PARAMS = {'the_id', 'alternative_id', 'alt_id', 'candidate_alternative', 'candidate_alternative_id', 'last_chosen_alternative'}
LABEL_SET_PARAMS = {'chosen_alternatives', 'candidate_set'}
#: containers keyed by label
LABEL_KEYED_ATTRS = {'baseline_utilities', 'gamma_parameters', 'alpha_parameters', 'prices', 'key_to_index', 'lambda_parameters', 'mu_utilities'}
#: positional containers
POS_PARAMS = {'epsilon', 'consumptions', 'x'}
POS_ATTRS = {'index_to_key'}

L, P, LS, LD, PA = 'label', 'position', 'set-of-labels', 'label-keyed', 'positional-array'
#: the positions 0 .. n-1 of the alternatives
_N_ALTS = re.compile(r'range\((number_of_alternatives|len\(self\.alternatives\)|self\.number_of_alternatives|len\(self\.index_to_key\))\)')


class Sorts:
    """flow-insensitive sort inference for one function"""

    def __init__(self, f: FuncInfo):
        self.f = f
        self.env: dict[str, str] = {}
        a = f.node.args
        for p in a.args + a.kwonlyargs:
            ann = unparse(p.annotation) if p.annotation is not None else ''
            if p.arg in LABEL_PARAMS:
                self.env[p.arg] = L
            elif p.arg in LABEL_SET_PARAMS:
                self.env[p.arg] = LS
            elif p.arg in POS_PARAMS and ('ndarray' in ann or 'np.array' in ann):
                self.env[p.arg] = PA
            elif p.arg == 'consumption' and ann.startswith('dict'):
                self.env[p.arg] = LD
        #: a local name has a sort only when EVERY binding of that name in the function gives it that same sort (a name reused
        #: for a label here and a position there, or rebound to something the rule does not type, has no sort)
        fixed = dict(self.env)
        pnames = {p.arg for p in a.posonlyargs + a.args + a.kwonlyargs} | ({a.vararg.arg} if a.vararg else set()) | ({a.kwarg.arg} if a.kwarg else set())
        nodes = list(ast.walk(f.node))
        # 1. candidate sorts: the first typed binding of a name proposes its sort (bindings may depend on each other in a circle)
        for _ in range(4):
            before = dict(self.env)
            for n in nodes:
                for name, srt in self._bindings(n):
                    if srt is not None and name not in pnames:
                        self.env.setdefault(name, srt)
            if before == self.env:
                break
        # 2. a candidate is kept only when every binding of the name, read with the candidates, gives that sort
        for _ in range(8):
            seen: dict[str, set] = {p: {fixed.get(p)} for p in pnames}
            for n in nodes:
                for name, srt in self._bindings(n):
                    seen.setdefault(name, set()).add(srt)
            drop = [name for name in self.env if seen.get(name, {None}) != {self.env[name]}]
            if not drop:
                break
            for name in drop:
                del self.env[name]

    def sort(self, e: ast.AST) -> str | None:
        if isinstance(e, ast.Name):
            return self.env.get(e.id)
        if isinstance(e, ast.Attribute) and isinstance(e.value, ast.Name) and e.value.id == 'self':
            if e.attr == 'outside_good_key':
                return L
            if e.attr == 'outside_good_index':
                return P
            if e.attr == 'alternatives':
                return LS
            if e.attr in LABEL_KEYED_ATTRS:
                return LD
            if e.attr in POS_ATTRS:
                return PA
        if isinstance(e, ast.Attribute) and e.attr == 'x' and 'optimization_result' in unparse(e.value):
            return PA
        if isinstance(e, ast.Subscript):
            b = self.sort(e.value)
            if unparse(e.value) == 'self.key_to_index':
                return P
            if unparse(e.value) == 'self.index_to_key':
                return L
            return None
        if isinstance(e, ast.Call):
            n = call_name(e)
            if n in ('set', 'list', 'sorted', 'tuple') and e.args:
                s = self.sort(e.args[0])
                if s in (LS, LD):
                    return LS
            if n in ('keys',) and isinstance(e.func, ast.Attribute) and self.sort(e.func.value) == LD:
                return LS
            if n == 'float' and e.args:
                return self.sort(e.args[0])
            if n in ('forecast_bisection_one_draw', 'forecast_bruteforce_one_draw', 'optimal_consumption'):
                return LD
        if isinstance(e, ast.BinOp) and isinstance(e.op, (ast.BitOr, ast.BitAnd, ast.Sub)):
            if self.sort(e.left) == LS or self.sort(e.right) == LS:
                return LS
        if isinstance(e, ast.Set):
            if e.elts and all(self.sort(x) == L for x in e.elts):
                return LS
        if isinstance(e, ast.DictComp):
            if self.sort(e.key) == L:
                return LD
        # a list with one entry per alternative in the order of the positions: [v for _ in range(n)], [f(k) for k in index_to_key], [v] * n
        if isinstance(e, ast.ListComp) and len(e.generators) == 1 and not e.generators[0].ifs:
            it = e.generators[0].iter
            if _N_ALTS.fullmatch(unparse(it)) or unparse(it) in ('self.index_to_key', 'enumerate(self.index_to_key)'):
                return PA
        if isinstance(e, ast.BinOp) and isinstance(e.op, ast.Mult):
            for lst, k in ((e.left, e.right), (e.right, e.left)):
                if isinstance(lst, ast.List) and len(lst.elts) == 1 and _N_ALTS.fullmatch(f'range({unparse(k)})'):
                    return PA
        if isinstance(e, ast.Call) and call_name(e) in ('np.array', 'np.asarray', 'array', 'asarray', 'list', 'tuple') and len(e.args) >= 1 and self.sort(e.args[0]) == PA:
            return PA
        return None

    def is_counter(self, e: ast.AST) -> bool:
        """a name bound only as the counter of enumerate(...) / range(...) loops of the function: never None"""
        if not isinstance(e, ast.Name):
            return False
        ok = False
        for n in ast.walk(self.f.node):
            if isinstance(n, ast.Name) and n.id == e.id and isinstance(n.ctx, (ast.Store, ast.Del)):
                ok = True
                if id(n) not in self._counters():
                    return False
        return ok

    def _counters(self) -> set:
        if not hasattr(self, '_counter_ids'):
            self._counter_ids = set()
            for n in ast.walk(self.f.node):
                if isinstance(n, (ast.For, ast.comprehension)) and isinstance(n.iter, ast.Call) and isinstance(n.iter.func, ast.Name):
                    if n.iter.func.id == 'range' and isinstance(n.target, ast.Name):
                        self._counter_ids.add(id(n.target))
                    elif n.iter.func.id == 'enumerate' and isinstance(n.target, ast.Tuple) and n.target.elts and isinstance(n.target.elts[0], ast.Name):
                        self._counter_ids.add(id(n.target.elts[0]))
        return self._counter_ids

    def _loop_sorts(self, target: ast.AST, it: ast.AST) -> list[tuple[str, str | None]]:
        """(name, sort or None) for every name bound by iterating `it` into `target`"""
        s = self.sort(it)
        t = unparse(it)
        names = [x.id for x in ast.walk(target) if isinstance(x, ast.Name)]
        out: dict[str, str | None] = {x: None for x in names}
        if isinstance(target, ast.Name):
            if s == LS or (s == LD):
                out[target.id] = L
            elif s == PA and t == 'self.index_to_key':
                out[target.id] = L
            elif _N_ALTS.fullmatch(t):
                out[target.id] = P
        elif isinstance(target, ast.Tuple) and len(target.elts) == 2 and all(isinstance(x, ast.Name) for x in target.elts):
            a, b = target.elts
            if isinstance(it, ast.Call) and call_name(it) == 'enumerate' and it.args and len(it.args) == 1 and not it.keywords:
                inner = unparse(it.args[0])
                out[a.id] = P
                if inner == 'self.index_to_key':
                    out[b.id] = L
            elif isinstance(it, ast.Call) and call_name(it) == 'items' and isinstance(it.func, ast.Attribute):
                if self.sort(it.func.value) == LD:
                    out[a.id] = L
            elif isinstance(it, ast.Call) and call_name(it) == 'sorted' and it.args and isinstance(it.args[0], ast.Call) and call_name(it.args[0]) == 'items':
                if self.sort(it.args[0].func.value) == LD:
                    out[a.id] = L
        return list(out.items())

    def _bindings(self, n: ast.AST) -> list[tuple[str, str | None]]:
        """the names bound by node n, each with the sort this binding gives it (None: not typed)"""
        if isinstance(n, (ast.For, ast.AsyncFor, ast.comprehension)):
            return self._loop_sorts(n.target, n.iter)
        if isinstance(n, (ast.Assign, ast.AnnAssign, ast.NamedExpr)) and n.value is not None and _neutral(n.value):
            return []  # initialisation with None or an empty container: says nothing about what the name will hold
        if isinstance(n, ast.Assign):
            if len(n.targets) == 1 and isinstance(n.targets[0], ast.Name):
                return [(n.targets[0].id, self.sort(n.value))]
            return [(x.id, None) for t in n.targets for x in ast.walk(t) if isinstance(x, ast.Name) and isinstance(x.ctx, ast.Store)]
        if isinstance(n, ast.AnnAssign) and isinstance(n.target, ast.Name):
            if n.value is None:
                return []
            s = self.sort(n.value)
            ann = unparse(n.annotation)
            if s is None and ann.startswith('dict[int'):
                s = LD
            if s is None and ann.startswith('set[int'):
                s = LS
            return [(n.target.id, s)]
        if isinstance(n, ast.AugAssign) and isinstance(n.target, ast.Name):
            # x op= e keeps a set of labels a set of labels; any other in-place update leaves the rule without a type
            keep = self.env.get(n.target.id) == LS and isinstance(n.op, (ast.BitOr, ast.BitAnd, ast.Sub))
            return [] if keep else [(n.target.id, None)]
        if isinstance(n, ast.NamedExpr) and isinstance(n.target, ast.Name):
            return [(n.target.id, self.sort(n.value))]
        if isinstance(n, (ast.With, ast.AsyncWith)):
            return [(x.id, None) for it in n.items if it.optional_vars is not None for x in ast.walk(it.optional_vars) if isinstance(x, ast.Name)]
        if isinstance(n, ast.ExceptHandler) and n.name:
            return [(n.name, None)]
        return []


def _order_of(func: ast.FunctionDef, e: ast.expr, depth: int = 8):
    """the iteration order of a collection expression of a constructor, as a term:
      ('atom', text)          a collection the method receives (a parameter, or the attribute it is stored in unchanged)
      ('set', term, site)     the set built at `site` from the elements of term (its order is its own)
      ('sorted', atom-text)   the elements in increasing order
      ('reversed', term)
    order-preserving wrappers (list, tuple, iter, [x for x in .], dict.keys(), dict.fromkeys) are looked through, single-definition
    locals and attributes of self stored once in the method are read as their definition.  None: not understood."""
    from ..core import inline_locals

    if depth == 0:
        return None
    a = func.args
    params = {x.arg for x in a.posonlyargs + a.args + a.kwonlyargs}
    e = inline_locals(func, e)
    if isinstance(e, ast.Name):
        reb = [n for n in ast.walk(func) if isinstance(n, ast.Name) and n.id == e.id and isinstance(n.ctx, (ast.Store, ast.Del))]
        return ('atom', e.id) if e.id in params and not reb and not _container_touched(func, e.id) else None
    if isinstance(e, ast.Attribute) and isinstance(e.value, ast.Name) and e.value.id == (a.args[0].arg if a.args else 'self'):
        text = unparse(e)
        stores = [n for n in ast.walk(func) if isinstance(n, (ast.Assign, ast.AnnAssign, ast.AugAssign)) and
                  any(unparse(x) == text for t in (n.targets if isinstance(n, ast.Assign) else [n.target]) for x in ast.walk(t) if isinstance(x, ast.Attribute))]
        if len(stores) != 1 or isinstance(stores[0], ast.AugAssign) or stores[0].value is None or _container_touched(func, text):
            return None
        st = stores[0]
        if isinstance(st, ast.Assign) and (len(st.targets) != 1 or unparse(st.targets[0]) != text):
            return None
        return _order_of(func, st.value, depth - 1)
    if isinstance(e, ast.Call) and not e.keywords and len(e.args) == 1 and isinstance(e.func, ast.Name):
        inner = _order_of(func, e.args[0], depth - 1)
        if inner is None:
            return None
        if e.func.id in ('list', 'tuple', 'iter'):
            return inner
        if e.func.id in ('set', 'frozenset'):
            return ('set', inner, (e.lineno, e.col_offset))
        if e.func.id == 'sorted':
            return ('sorted', _elements(inner))
        if e.func.id == 'reversed':
            return ('reversed', inner)
        return None
    if isinstance(e, ast.Call) and isinstance(e.func, ast.Attribute) and not e.args and not e.keywords and e.func.attr == 'keys':
        return _order_of(func, e.func.value, depth - 1)
    if isinstance(e, ast.Call) and unparse(e.func) == 'dict.fromkeys' and len(e.args) == 1 and not e.keywords:
        return _order_of(func, e.args[0], depth - 1)
    if isinstance(e, (ast.ListComp, ast.GeneratorExp, ast.SetComp)) and len(e.generators) == 1:
        g = e.generators[0]
        if not g.ifs and not g.is_async and isinstance(g.target, ast.Name) and isinstance(e.elt, ast.Name) and e.elt.id == g.target.id:
            inner = _order_of(func, g.iter, depth - 1)
            if inner is None:
                return None
            return ('set', inner, (e.lineno, e.col_offset)) if isinstance(e, ast.SetComp) else inner
    return None


def _container_touched(func: ast.AST, text: str) -> bool:
    """an in-place change of the collection written `text` somewhere in the method (its order may change under way)"""
    for n in ast.walk(func):
        if isinstance(n, ast.Call) and isinstance(n.func, ast.Attribute) and unparse(n.func.value) == text and \
                n.func.attr in ('add', 'remove', 'discard', 'pop', 'clear', 'update', 'append', 'extend', 'insert', 'sort', 'reverse', 'popitem', 'setdefault',
                                'difference_update', 'intersection_update', 'symmetric_difference_update', '__setitem__', '__delitem__'):
            return True
        if isinstance(n, ast.Subscript) and isinstance(n.ctx, (ast.Store, ast.Del)) and unparse(n.value) == text:
            return True
        if isinstance(n, ast.AugAssign) and unparse(n.target) == text:
            return True
    return False


def _elements(o):
    """the collection whose elements an order term enumerates"""
    while o is not None and o[0] in ('set', 'reversed'):
        o = o[1]
    if o is not None and o[0] == 'sorted':
        return o[1]
    return o


def _show(o) -> str:
    if o[0] == 'atom':
        return f'{o[1]} in its own order'
    if o[0] == 'set':
        return f'the set built at line {o[2][0]} from {_show(o[1]).replace(" in its own order", "")}, in the order of that set'
    if o[0] == 'sorted':
        return f'the sorted elements of {_show(o[1]).replace(" in its own order", "")}'
    return f'the reverse of {_show(o[1])}'


def _by_position(k: ast.expr) -> bool:
    """the sort key `lambda item: self.key_to_index[item[0]]` of (label, value) pairs: the position of the label"""
    if not (isinstance(k, ast.Lambda) and len(k.args.args) == 1 and not k.args.defaults and not k.args.vararg and not k.args.kwonlyargs and not k.args.kwarg):
        return False
    a = k.args.args[0].arg
    return unparse(k.body) == f'self.key_to_index[{a}[0]]'


def _neutral(v: ast.expr) -> bool:
    if isinstance(v, ast.Constant) and v.value is None:
        return True
    if isinstance(v, (ast.List, ast.Tuple, ast.Set)) and not v.elts:
        return True
    if isinstance(v, ast.Dict) and not v.keys:
        return True
    return isinstance(v, ast.Call) and isinstance(v.func, ast.Name) and v.func.id in ('set', 'list', 'dict', 'tuple', 'frozenset') and not v.args and not v.keywords


def _closed_forms(ctx: Ctx) -> None:
    import itertools

    import sympy as sp

    from ..mdcevformulas import LAM, X, Formula, same

    prog = ctx.prog
    base = prog.cls('mdcev.mdcev', 'Mdcev')
    names = ('utility_expression_one_alternative', 'utility_one_alternative', 'derivative_utility_one_alternative', 'optimal_consumption_one_alternative')
    variants = [c for c in prog.subclasses(base) if all(n in c.methods for n in names)]
    if len(variants) < 4:
        raise AnalysisError(f'C18.R3: only {len(variants)} MDCEV variants implement the four closed forms')
    for c in sorted(variants, key=lambda z: z.name):
        uses_prices = any(unparse(n) == 'self.prices' for m in names for n in ast.walk(c.methods[m].node) if isinstance(n, ast.Attribute))
        for g, sc, pr in itertools.product((True, False), (True, False), (True, False) if uses_prices else (True,)):
            cfg = dict(gamma_none=g, scale_none=sc, prices_none=pr)
            label = ('no gamma' if g else 'gamma') + (', no scale' if sc else ', scale') + ((', no prices' if pr else ', prices') if uses_prices else '')
            F = {n: Formula(c.methods[n], cfg) for n in names}
            us, u, d, o = (F[n].ret for n in names)
            ok = same(u, us)
            ctx.add('C18.R3', f'{c.name}[{label}]:numeric=symbolic', ok, c.methods[names[1]], f'utility_one_alternative = {sp.simplify(u)}' + ('' if ok else f' ; utility_expression_one_alternative = {sp.simplify(us)}'), 'num=sym')
            ok = same(sp.diff(u, X), d)
            ctx.add('C18.R3', f'{c.name}[{label}]:derivative', ok, c.methods[names[2]], f'derivative_utility_one_alternative = {sp.simplify(d)}' + ('' if ok else f' ; d/dx of the utility is {sp.simplify(sp.diff(u, X))}'), 'derivative')
            ok = same(d.subs(X, o), LAM)
            ctx.add('C18.R3', f'{c.name}[{label}]:inverse', ok, c.methods[names[3]], f'optimal_consumption_one_alternative = {sp.simplify(o)}' + ('' if ok else f' ; the derivative at that consumption is {sp.simplify(d.subs(X, o))}, not the dual variable'), 'inverse')
    ctx.floor('C18.R3', 60)


def _epsilon_scaling(ctx: Ctx) -> None:
    """C18.R4: in a variant the error term enters every formula divided by the scale parameter (when there is one)"""
    from ..cfg import cfg_of

    prog = ctx.prog
    base = prog.cls('mdcev.mdcev', 'Mdcev')
    n = 0
    for c in sorted(prog.subclasses(base), key=lambda z: z.name):
        if not any(unparse(x) == 'self.scale_parameter' for m in c.methods.values() for x in ast.walk(m.node) if isinstance(x, ast.Attribute)):
            continue
        per = {}
        for name, m in c.methods.items():
            if getattr(m.node, '_verif_transparent', False):
                continue  # a new helper all of whose calls were expanded in place: examined where it is called
            # a new helper that is still called: what its parameter `epsilon` receives (the scaled term or not) is decided by its callers
            new_helper = getattr(m.node, '_verif_new_helper', False)
            eps = {p for p in m.positional_params() if p in ('epsilon', 'unscaled_epsilon')}
            if not eps:
                continue
            for _ in range(3):
                for a in walk_no_nested(m.node):
                    if isinstance(a, ast.Assign) and len(a.targets) == 1 and isinstance(a.targets[0], ast.Name) and any(isinstance(x, ast.Name) and x.id in eps for x in ast.walk(a.value)) \
                            and not any(isinstance(x, ast.Call) and call_name(x) not in ('float',) for x in ast.walk(a.value)):
                        eps.add(a.targets[0].id)

            def is_eps(e):
                return isinstance(e, ast.Name) and e.id in eps

            cm = cfg_of(m.node)

            def scale(e, at=None, seen=None) -> bool:
                """the expression reads self.scale_parameter, directly or through the definitions that reach its names"""
                seen = set() if seen is None else seen
                if at is None:
                    at = cm.node_of(e)
                for x in ast.walk(e):
                    if isinstance(x, ast.Attribute) and unparse(x) == 'self.scale_parameter':
                        return True
                    if isinstance(x, ast.Name) and isinstance(x.ctx, ast.Load) and at is not None:
                        for df in cm.reaching(at, x.id):
                            if (df.node, x.id) not in seen and df.value is not None:
                                seen.add((df.node, x.id))
                                if scale(df.value, df.node, seen):
                                    return True
                return False

            stmts = list(walk_no_nested(m.node))
            divisions = [(x.target, x.value, x) for x in stmts if isinstance(x, ast.AugAssign) and isinstance(x.op, ast.Div) and is_eps(x.target)] + \
                        [(x.left, x.right, x) for x in stmts if isinstance(x, ast.BinOp) and isinstance(x.op, ast.Div) and is_eps(x.left)]
            scaled = any(scale(d, cm.node_of(at)) for _n, d, at in divisions)
            # other places where a scaling the rule does not follow may happen: a division by something else, a product with a
            # quantity computed from the scale (its inverse), the error term handed to a call
            unclear = bool(divisions) and not scaled
            for x in stmts:
                if isinstance(x, ast.BinOp) and isinstance(x.op, ast.Mult) and ((is_eps(x.left) and scale(x.right, cm.node_of(x))) or (is_eps(x.right) and scale(x.left, cm.node_of(x)))):
                    unclear = True
                if isinstance(x, ast.AugAssign) and isinstance(x.op, ast.Mult) and is_eps(x.target) and scale(x.value, cm.node_of(x)):
                    unclear = True
                if isinstance(x, ast.Call) and call_name(x) not in ('float',) and any(is_eps(a_) for a_ in list(x.args) + [k.value for k in x.keywords]):  # the error term itself is an argument
                    unclear = True
            arith = [x for x in stmts if (isinstance(x, ast.BinOp) and isinstance(x.op, (ast.Add, ast.Sub, ast.Mult)) and (is_eps(x.left) or is_eps(x.right))) or
                     (isinstance(x, ast.AugAssign) and isinstance(x.op, (ast.Add, ast.Sub)) and is_eps(x.value))]
            if arith:
                per[name] = (True if scaled else (None if unclear or new_helper else False), m, arith[0])
        sibs = sorted(k for k, v in per.items() if v[0])
        for name, (scaled, m, where) in sorted(per.items()):
            n += 1
            if scaled is False and not sibs:
                scaled = None  # no method of the class divides by the scale: the scaling is done somewhere the rule does not look
            ctx.add('C18.R4', f'{c.name}.{name}:epsilon/scale', scaled, (m.file, where.lineno),
                    f'{name}: the error term is divided by the scale parameter before it enters `{unparse(where)[:60]}`' if scaled else
                    (f'{name}: the error term enters `{unparse(where)[:60]}` and is never divided in this method (no division of it, no product with a quantity computed from the scale, not handed to another function), '
                     f'while {", ".join(sibs)} of {c.name} use epsilon / scale: with a scale different from 1 this method disagrees with the utility, its derivative and the optimal consumption' if scaled is False else
                     f'{name}: the way the error term is scaled before it enters `{unparse(where)[:60]}` is not in the expected form (epsilon / scale parameter)'), 'scale', positive=scaled is False)
    ctx.floor('C18.R4', 12)


#: obligations whose failure contradicts the property (rule, construct pattern, why); every other failure is 'not recognised'
POSITIVE: list[tuple[str, str, str]] = [
    ('C18.R1', r':[\w\.]+\[.*\]$', 'label / position typing: a label-keyed table is indexed by a position or a positional array by a label'),
    ('C18.R1', r' (==|!=) ', 'label / position typing: a label is compared with a position'),
    ('C18.R1', r':\w+\(\w+=\)$', 'label / position typing: a position is passed where a label is expected'),
    ('C18.R1', r'<-', 'a positional array is filled in the order of the sorted labels'),
    ('C18.R2', r'.', 'an array received as argument (the error terms) is modified in place'),
    ('C18.R3', r':(numeric=symbolic|derivative|inverse)$', 'closed forms translated to sympy: the numeric utility, its derivative and the optimal consumption do not fit together'),
]


def run(ctx: Ctx) -> None:
    ctx.positive_table = list(POSITIVE)
    prog = ctx.prog
    ctx.rule('C18.R1', 'label / position typing over the five MDCEV modules: every integer-valued expression is an alternative label (dictionary key, the_id, element of '
             'alternatives / index_to_key), a position (key_to_index[.], outside_good_index, counter of enumerate(index_to_key), range(number of alternatives)) or '
             'unknown; a label-keyed container is subscripted with labels, a positional array (epsilon, consumptions, x, bounds) with positions, labels are compared '
             'with labels; a label-keyed dictionary is flattened to a positional array only in the order of index_to_key; key_to_index is the inverse of index_to_key')
    ctx.rule('C18.R2', 'caller-owned arrays: a parameter annotated as numpy array (the vector of error terms) is never modified in place')
    ctx.rule('C18.R4', 'sibling agreement on the error term: in every MDCEV variant with a scale parameter, each method that does arithmetic on epsilon (utility, derivative, optimal consumption, '
             'bounds on the dual variable) first divides it by the scale parameter')
    ctx.rule('C18.R3', 'closed forms agree (formula normal form): for every MDCEV variant and every configuration (gamma present or not, scale present or not, prices '
             'present or not) the numeric utility equals the symbolic utility, the numeric derivative is the derivative of that utility with respect to the consumption, '
             'and the closed-form optimal consumption, substituted into the derivative, gives back the dual variable - at a generic interior point (boundary guards '
             'for zero consumption / zero dual variable / alpha at 0 or 1 / overflow are not examined)')
    ctx.not_decided += ['KKT conditions, budget exhaustion, non-negativity, optimality against brute force (numerical)', 'the boundary branches of the closed forms (zero consumption, zero dual variable)']
    n_sub = n_cmp = 0
    for mod in MODS:
        m = prog.module(mod)
        for f in m.all_functions:
            st = Sorts(f)
            for n in walk_no_nested(f.node):
                # a label or a position used as a truth value: 0 is a legitimate label and a legitimate position
                tests = []
                if isinstance(n, (ast.If, ast.IfExp, ast.While, ast.Assert)):
                    tests = [n.test]
                elif isinstance(n, ast.BoolOp):
                    tests = list(n.values)
                elif isinstance(n, ast.UnaryOp) and isinstance(n.op, ast.Not):
                    tests = [n.operand]
                for t in tests:
                    # the contradiction is a LABEL (or the optional position of the outside good) read as present / absent: a label
                    # may be 0.  A counter tested for zero (`if rank` = not the first one) says nothing about labels.
                    if st.sort(t) == L or unparse(t) == 'self.outside_good_index':
                        ctx.add('C18.R1', f'{f.qualname}:truth({unparse(t)})', False, (f.file, getattr(t, 'lineno', f.line)),
                                f'{unparse(t)} ({st.sort(t)}) is tested for truth: the {st.sort(t)} 0 counts as absent (an alternative labelled 0, or in first position, is treated as if there were none); the test for absence is `is None`',
                                'truth', positive=True)
                    elif st.sort(t) == P and not st.is_counter(t):
                        ctx.add('C18.R1', f'{f.qualname}:truth({unparse(t)})', None, (f.file, getattr(t, 'lineno', f.line)),
                                f'{unparse(t)} (position) is tested for truth: a test for the position 0 or a test for absence? not resolved', 'truth')
                if isinstance(n, ast.Subscript):
                    cs = st.sort(n.value)
                    is_ = st.sort(n.slice)
                    base = unparse(n.value)
                    if cs in (LD, PA) and is_ in (L, P):
                        n_sub += 1
                        ok = (cs == LD and is_ == L) or (cs == PA and is_ == P)
                        ctx.add('C18.R1', f'{f.qualname}:{base}[{unparse(n.slice)}]', ok, (f.file, n.lineno),
                                f'{base} ({cs}) indexed by {unparse(n.slice)} ({is_})' + ('' if ok else ' - a label is used as a position (or conversely): wrong element as soon as labels are not 0..n-1'),
                                detail=f'{cs}[{is_}]')
                elif isinstance(n, ast.Compare) and len(n.ops) == 1 and isinstance(n.ops[0], (ast.Eq, ast.NotEq)):
                    a, b = st.sort(n.left), st.sort(n.comparators[0])
                    if a in (L, P) and b in (L, P):
                        n_cmp += 1
                        ok = a == b
                        ctx.add('C18.R1', f'{f.qualname}:{unparse(n)}', ok, (f.file, n.lineno), f'{unparse(n.left)} ({a}) compared with {unparse(n.comparators[0])} ({b})' + ('' if ok else ' - a label is compared with a position'), f'{a}=={b}')
                elif isinstance(n, ast.Call):
                    bound = prog.bind_call(f, n) or {karg: kvalue for k in n.keywords if karg}
                    for karg, kvalue in bound.items():
                        if karg in LABEL_PARAMS:
                            s = st.sort(kvalue)
                            if s in (L, P):
                                n_sub += 1
                                ctx.add('C18.R1', f'{f.qualname}:{call_name(n)}({karg}=)', s == L, (f.file, n.lineno), f'{karg}={unparse(kvalue)} ({s})' + ('' if s == L else ' - a position is passed where a label is expected'), f'{karg}<-{s}')
                        if karg in ('consumptions', 'epsilon') and isinstance(kvalue, ast.Name):
                            # a positional array built from a label-keyed dict must follow index_to_key
                            defs = [a for a in walk_no_nested(f.node) if isinstance(a, ast.Assign) and unparse(a.targets[0]) == kvalue.id]
                            for d in defs:
                                for comp in ast.walk(d.value):
                                    if isinstance(comp, ast.ListComp):
                                        it = comp.generators[0].iter
                                        src = unparse(it)
                                        if isinstance(it, ast.Call) and call_name(it) == 'sorted' and it.args and isinstance(it.args[0], ast.Call) and call_name(it.args[0]) == 'items' and st.sort(it.args[0].func.value) == LD:
                                            n_sub += 1
                                            # sorted(d.items()) with nothing else is the order of the labels; with a key= / reverse= the order is whatever that argument says
                                            plain = len(it.args) == 1 and not it.keywords and isinstance(it.func, ast.Name)
                                            if len(it.args) == 1 and isinstance(it.func, ast.Name) and len(it.keywords) == 1 and it.keywords[0].arg == 'key' and _by_position(it.keywords[0].value):
                                                ctx.add('C18.R1', f'{f.qualname}:{karg}<-{kvalue.id}', True, (f.file, d.lineno), f'{kvalue.id} is sorted by the position key_to_index[label]: it follows index_to_key', src)
                                                continue
                                            ctx.add('C18.R1', f'{f.qualname}:{karg}<-{kvalue.id}', False if plain else None, (f.file, d.lineno),
                                                    (f'{kvalue.id} lists the values of a label-keyed dictionary in the order of the sorted labels and is passed as the positional array `{karg}`: '
                                                     f'positions follow index_to_key, not sorted labels') if plain else
                                                    f'{kvalue.id} lists the values of a label-keyed dictionary in an order given by `{src[:80]}` and is passed as the positional array `{karg}`: that order is not resolved', detail=src)
                                        elif src in ('self.index_to_key', 'enumerate(self.index_to_key)'):
                                            n_sub += 1
                                            ctx.add('C18.R1', f'{f.qualname}:{karg}<-{kvalue.id}', True, (f.file, d.lineno), f'{kvalue.id} follows index_to_key', src)
            # R2
            a = f.node.args
            arrays = {p.arg for p in a.args + a.kwonlyargs if p.annotation is not None and re.search(r'ndarray|np\.array', unparse(p.annotation))}
            for n in walk_no_nested(f.node):
                if isinstance(n, ast.AugAssign) and isinstance(n.target, ast.Name) and n.target.id in arrays:
                    rebound = [x for x in walk_no_nested(f.node) if isinstance(x, (ast.Assign, ast.AnnAssign)) and any(unparse(t) == n.target.id for t in (x.targets if isinstance(x, ast.Assign) else [x.target])) and seq(x) < seq(n)]
                    ctx.add('C18.R2', f'{f.qualname}:{n.target.id}', bool(rebound), (f.file, n.lineno), f'{unparse(n)} on a local copy' if rebound else f'{unparse(n)} modifies the caller\'s array {n.target.id} in place: the next use of the same draw sees other values', unparse(n))
                elif isinstance(n, (ast.Assign, ast.AugAssign)):
                    for t in (n.targets if isinstance(n, ast.Assign) else [n.target]):
                        if isinstance(t, ast.Subscript) and isinstance(t.value, ast.Name) and t.value.id in arrays:
                            rebound = [x for x in walk_no_nested(f.node) if isinstance(x, (ast.Assign, ast.AnnAssign)) and any(unparse(t_) == t.value.id for t_ in (x.targets if isinstance(x, ast.Assign) else [x.target])) and seq(x) < seq(n)]
                            ctx.add('C18.R2', f'{f.qualname}:{t.value.id}[]', True if rebound else False, (f.file, n.lineno), f'{unparse(n)[:60]} writes into a local copy' if rebound else f'{unparse(n)[:60]} writes into the caller\'s array', unparse(n)[:60])
            for p in arrays:
                ctx.add('C18.R2', f'{f.qualname}({p})', True, f, f'array parameter {p} examined', p)
    if n_sub < 15 or n_cmp < 2:
        raise AnalysisError(f'C18.R1: only {n_sub} typed subscripts / {n_cmp} typed comparisons found in the MDCEV modules')
    _closed_forms(ctx)
    _epsilon_scaling(ctx)
    # C18.R5: the numeric value of a utility part is the value of the SAME table of expressions with and without estimation results
    ctx.rule('C18.R5', 'the calculate_<part>_utility methods evaluate the same table of expressions (self.<part>_utilities) whether estimation results are attached or not, and the table named by the method; '
             'the bisection of the dual variable may run long enough to bring the largest initial bracket (np.finfo(float64).max, about 2**1024) down to working precision')
    n5 = 0
    for c_ in [prog.cls('mdcev.mdcev', 'Mdcev')] + prog.subclasses(prog.cls('mdcev.mdcev', 'Mdcev')):
        for mname, m_ in c_.methods.items():
            mm = re.fullmatch(r'calculate_(\w+)_utility', mname)
            if not mm:
                continue
            tables = [re.match(r'self\.(\w+)\[', unparse(r_.value)) for r_ in walk_no_nested(m_.node) if isinstance(r_, ast.Return) and r_.value is not None]
            tables = [t_.group(1) for t_ in tables if t_]
            if len(tables) < 2:
                ctx.add('C18.R5', f'{c_.name}.{mname}:table', None, m_, f'{mname} is not in the expected form (one return per case, each evaluating an entry of a table of expressions)', 'table')
                continue
            n5 += 1
            want = f'{mm.group(1)}_utilities'
            okt = set(tables) == {want}
            # the contradiction: the cases of one method read different tables, or the table of another calculate_<part>_utility
            others = {f'{mo.group(1)}_utilities' for k_ in c_.mro() for mn_ in k_.methods for mo in [re.fullmatch(r'calculate_(\w+)_utility', mn_)] if mo and mo.group(1) != mm.group(1)}
            crossed = len(set(tables)) > 1 or bool(set(tables) & others)
            ctx.add('C18.R5', f'{c_.name}.{mname}:table', True if okt else (False if crossed else None), m_, f'{mname} evaluates self.{want} in every case' if okt else
                    (f'{mname} evaluates {" / ".join("self." + t_ for t_ in tables)}: with estimation results attached another part of the utility is computed than without (and than the symbolic utility uses)' if crossed else
                     f'{mname} evaluates self.{tables[0]} in every case: not the table the rule expects under that name (self.{want}); shape not recognised'), str(tables), positive=crossed and not okt)
    if n5 < 2:
        raise AnalysisError(f'C18.R5: only {n5} calculate_<part>_utility methods found')
    fb = prog.cls('mdcev.mdcev', 'Mdcev').methods['forecast_bisection_one_draw']
    caps = [x for x in walk_no_nested(fb.node) if isinstance(x, ast.For) and isinstance(x.iter, ast.Call) and call_name(x.iter) == 'range' and len(x.iter.args) == 1 and isinstance(x.iter.args[0], ast.Constant) and isinstance(x.iter.args[0].value, int)]
    huge = any('np.finfo(np.float64).max' in unparse(x) for x in ast.walk(prog.cls('mdcev.mdcev', 'Mdcev').methods['identification_chosen_alternatives'].node) if isinstance(x, ast.Return))
    if len(caps) == 1 and huge:
        cap = caps[0].iter.args[0].value
        okc = cap >= 1100
        ctx.add('C18.R5', 'Mdcev.forecast_bisection_one_draw:iterations', okc, (fb.file, caps[0].lineno), f'up to {cap} halvings of a bracket that can start at np.finfo(float64).max (2**1024)' if okc else
                f'the bisection stops after {cap} halvings, but the upper bound of the dual variable can start at np.finfo(float64).max (about 2**1024): after {cap} halvings the bracket is still wider than {2.0 ** (1024 - cap):.3g}, '
                'so in the corner solution (only the outside good consumed) the budget is not exhausted', str(cap), positive=True)
    else:
        ctx.add('C18.R5', 'Mdcev.forecast_bisection_one_draw:iterations', None, fb, 'the iteration cap of the bisection / the largest initial bracket are not in the expected form', 'cap')
    M = prog.cls('mdcev.mdcev', 'Mdcev')
    init = M.methods['__init__']
    from ..pattern import find as _find

    bk = _find(init.node, 'self.key_to_index = {_K: _I for _I, _K in enumerate(__SRC)}')
    ok, why = None, 'shape not recognised - expected: index_to_key = list of the alternatives, key_to_index = {key: position} over it'
    if bk is not None:
        o_key = _order_of(init.node, bk['__SRC'][1])
        o_idx = _order_of(init.node, ast.parse('self.index_to_key', mode='eval').body)
        src = unparse(bk['__SRC'][1])
        if o_key is not None and o_idx is not None:
            if o_key == o_idx:
                ok, why = True, f'key_to_index enumerates {src}, the sequence index_to_key is built from (same collection, same order): the two tables are inverse of each other'
            elif _elements(o_key) == _elements(o_idx):
                ok = False
                why = (f'key_to_index enumerates {src} ({_show(o_key)}) while index_to_key lists {_show(o_idx)}: the same labels in two orders that differ as soon as the labels are not written in increasing order; '
                       'the two tables are inverse of each other only when both orders happen to coincide')
    ctx.add('C18.R1', 'Mdcev.__init__:tables', ok, init, why, 'tables', positive=ok is False)
    og = M.methods['outside_good_index']
    ok = 'return self.key_to_index[self.outside_good_key]' in unparse(og.node)
    ctx.add('C18.R1', 'Mdcev.outside_good_index', ok, og, 'position of the outside good = key_to_index[its label]' if ok else 'outside_good_index changed', 'og')
    su = M.methods['sum_of_utilities']
    ok = has_expr(su.node, '[self.utility_one_alternative(_K, float(consumptions[_I]), float(epsilon[_I]), data_row) for _I, _K in enumerate(self.index_to_key)]')
    ctx.add('C18.R1', 'Mdcev.sum_of_utilities', ok, su, 'position i of consumptions / epsilon belongs to label index_to_key[i]' if ok else 'pairing of positions and labels in sum_of_utilities changed', 'sum')
    bf = M.methods['forecast_bruteforce_one_draw']
    ok = False
    for b in find_expr(bf.node, '{self.index_to_key[_I]: _RES.x[_I] for _I in range(_N)}'):
        ok = has(bf.node, f'{b["_N"]} = len(self.alternatives)') and any(isinstance(a, ast.Assign) and unparse(a.targets[0]) == b['_RES'] and isinstance(a.value, ast.Call) and call_name(a.value) == 'minimize' for a in walk_no_nested(bf.node))
    ctx.add('C18.R1', 'Mdcev.forecast_bruteforce_one_draw:result', ok, bf, 'the optimiser\'s vector is mapped back to labels through index_to_key' if ok else 'mapping of the brute-force solution to labels changed', 'bf')


_G = 'src/biogeme/mdcev/gamma_profile.py'
_M = 'src/biogeme/mdcev/mdcev.py'
MUTANTS = [
    dict(name='generalized: derivative forgets the price', rule='C18.R3', file='src/biogeme/mdcev/generalized.py',
         old='            * (1 + the_consumption / (price * gamma.get_value())) ** (alpha - 1)\n            / price\n        )\n\n    def optimal_consumption_one_alternative', new='            * (1 + the_consumption / (price * gamma.get_value())) ** (alpha - 1)\n        )\n\n    def optimal_consumption_one_alternative'),
    dict(name='translated: optimal consumption adds gamma', rule='C18.R3', file='src/biogeme/mdcev/translated.py', old='        return np.exp(log_result) - gamma.get_value()', new='        return np.exp(log_result) + gamma.get_value()'),
    dict(name='non-monotonic: numeric utility forgets 1/alpha', rule='C18.R3', file='src/biogeme/mdcev/non_monotonic.py',
         old='            * ((1 + the_consumption / gamma.get_value()) ** alpha - 1)\n            / alpha\n            + (mu_utility + epsilon) * the_consumption\n        )\n\n    def derivative_utility_one_alternative',
         new='            * ((1 + the_consumption / gamma.get_value()) ** alpha - 1)\n            + (mu_utility + epsilon) * the_consumption\n        )\n\n    def derivative_utility_one_alternative'),
    dict(name='gamma profile: symbolic utility without the translation by one', rule='C18.R3', file=_G,
         old='            * log(1 + the_consumption / (price * gamma))', new='            * log(the_consumption / (price * gamma))'),
    dict(name='translated: derivative uses alpha instead of alpha - 1', rule='C18.R3', file='src/biogeme/mdcev/translated.py',
         old='                    + np.log(alpha)\n                    + (alpha - 1) * np.log(the_consumption)\n', new='                    + np.log(alpha)\n                    + alpha * np.log(the_consumption)\n'),
    dict(name='pre-fix: consumptions listed in the order of the sorted labels', rule='C18.R1', file=_M, old='            np.array([analytical[key] for key in self.index_to_key])', new='            np.array([value for key, value in sorted(analytical.items())])'),
    dict(name='pre-fix: label compared with the outside good position', rule='C18.R1', file=_G, old='        if the_id == self.outside_good_key and the_consumption == 0.0:', new='        if the_id == self.outside_good_index and the_consumption == 0.0:'),
    dict(name='epsilon indexed by the label', rule='C18.R1', file=_M, old='                    epsilon=float(epsilon[self.key_to_index[alt_id]]),\n                    one_observation=one_observation,', new='                    epsilon=float(epsilon[alt_id]),\n                    one_observation=one_observation,'),
    dict(name='bounds of the outside good set at its label', rule='C18.R1', file=_M, old='            bounds[self.outside_good_index] = (SMALLEST_NON_ZERO_NUMBER, total_budget)', new='            bounds[self.outside_good_key] = (SMALLEST_NON_ZERO_NUMBER, total_budget)'),
    dict(name='baseline utility looked up by position', rule='C18.R1', file=_M, old='                    the_id=key,\n                    the_consumption=float(consumptions[index]),', new='                    the_id=index,\n                    the_consumption=float(consumptions[index]),'),
    dict(name='key_to_index enumerates the sorted labels (seed C18/1)', rule='C18.R1', file=_M, old='            key: index for index, key in enumerate(self.index_to_key)', new='            key: index for index, key in enumerate(sorted(self.alternatives))'),
    dict(name='non-monotonic: draw rescaled in place (seed C18/2)', rule='C18.R2', file='src/biogeme/mdcev/non_monotonic.py',
         old='            epsilon_alternative = epsilon[self.key_to_index[alternative_id]]', new='            epsilon /= 1.0\n            epsilon_alternative = epsilon[self.key_to_index[alternative_id]]'),
]
NEUTRAL = [
    dict(name='local alt_id renamed', file=_M,
         old='            alt_id: self.derivative_utility_one_alternative(\n                the_id=alt_id,\n                one_observation=database,\n                the_consumption=0,\n                epsilon=float(epsilon[self.key_to_index[alt_id]]),\n            )\n            for alt_id in self.alternatives\n            if alt_id != self.outside_good_key',
         new='            a: self.derivative_utility_one_alternative(\n                the_id=a,\n                one_observation=database,\n                the_consumption=0,\n                epsilon=float(epsilon[self.key_to_index[a]]),\n            )\n            for a in self.alternatives\n            if a != self.outside_good_key'),
]
