"""C02 - gradient, Hessian, BHHH returned with a value are its derivatives (packaging and indexing)."""

from __future__ import annotations

import ast
import re

from ..cfg import cfg_of
from ..core import named_args, AnalysisError, call_name, inline_locals, unparse, walk_no_nested
from ..packs import ecc, fwd, ord_pack
from ..report import Ctx

FIELDS = ('function', 'gradient', 'hessian', 'bhhh')


#: obligations whose failure contradicts the property (rule, construct pattern, why); every other failure is 'not recognised'
POSITIVE: list[tuple[str, str, str]] = [
    ('C02.R3', r':record$', 'the record template interpreted from get_signature is not the one the engine parses for this tag'),
    ('C02.R3', r'\.get_signature$', 'an id written in the record belongs to a node whose signature is not emitted before it'),
    ('C02.R3', r':appearance-order$', 'a positional sequence follows the insertion order of a dictionary of parameters'),
    ('C02.R3', r'_betas\.expressions\[', 'a per-parameter vector is indexed by names of another kind / another order'),
    ('C02.R2', r'.', 'flag forwarding: a flag parameter lands, through a resolved call, in a differently named flag parameter of the callee'),
]


def run(ctx: Ctx) -> None:
    ctx.positive_table = list(POSITIVE)
    prog = ctx.prog
    ctx.rule('C02.R1', 'result slots: what the engine returns as (f, g, h, b) lands in the fields function / gradient / hessian / bhhh (aggregate: element 0 of '
             'the same array), each gated by its own flag; legacy tuple unpacking yields the same order; every named output field is built from the same-named '
             'field of the raw output')
    ctx.rule('C02.R2', 'flag forwarding (FWD): a flag parameter handed over by keyword or position lands in the same-named parameter of the callee')
    ctx.rule('C02.R3', 'literal ids: the engine differentiates with respect to ids 0..n-1, so the free parameters come first in the global numbering, their '
             'indices enumerate the sorted names, and the derivative call receives free_betas.indices.values() in the id slot; the records of Beta, bioLinearUtility and Derive carry the unique index (the id the engine differentiates by), not the per-kind index')
    ctx.rule('C02.R4', 'named outputs: convert_to_dict pairs name with the_sequence[index] of the same (name, index) item; both named outputs of '
             'get_value_and_derivatives receive id_manager.free_betas.indices')
    ctx.rule('C02.R5', 'the guard "(hessian or bhhh) and not gradient => BiogemeError" dominates the hand-over to the engine')
    ctx.not_decided += ['the derivative values, symmetry, BHHH = sum of outer products, aggregated = sum of per-row values (engine arithmetic)']

    calc = prog.func('expressions.calculator', 'calculate_function_and_derivatives')
    # f, g, h, b = the_cpp.getResults()
    unpack = [n for n in walk_no_nested(calc.node) if isinstance(n, ast.Assign) and isinstance(n.value, ast.Call) and call_name(n.value) == 'getResults']
    ctx.need(len(unpack) == 1 and isinstance(unpack[0].targets[0], ast.Tuple) and len(unpack[0].targets[0].elts) == 4, 'calculator unpacks getResults() into four names')
    raw = [unparse(x) for x in unpack[0].targets[0].elts]
    flags = dict(zip(FIELDS[1:], ('calculate_gradient', 'calculate_hessian', 'calculate_bhhh')))
    # gated copies: gres = g if calculate_gradient else None
    gated = {}
    # (normal form of `gres = g if calculate_gradient else None`: an if / else with one assignment in each arm)
    for n in walk_no_nested(calc.node):
        if isinstance(n, ast.If) and len(n.body) == 1 and len(n.orelse) == 1 and all(isinstance(a, ast.Assign) and len(a.targets) == 1 and isinstance(a.targets[0], ast.Name) for a in (n.body[0], n.orelse[0])) \
                and n.body[0].targets[0].id == n.orelse[0].targets[0].id:
            a, b = n.body[0], n.orelse[0]
            if unparse(b.value) == 'None' and unparse(a.value) in raw:
                gated[a.targets[0].id] = (unparse(a.value), unparse(n.test), n)
    for fld, r in zip(FIELDS[1:], raw[1:]):
        hit = [(k, v) for k, v in gated.items() if v[0] == r]
        ok = len(hit) == 1 and hit[0][1][1] == flags[fld]
        ctx.add('C02.R1', f'calculator:gate:{fld}', ok, (calc.file, hit[0][1][2].lineno if hit else calc.line),
                f'{fld}: engine slot {r} is kept iff {flags[fld]}' if ok else f'{fld}: slot {r} is gated by {hit[0][1][1] if hit else "nothing"} (expected {flags[fld]})', f'{fld}:{hit[0][1][1] if hit else None}')
    gname = {v[0]: k for k, v in gated.items()}
    for call in [c for c in walk_no_nested(calc.node) if isinstance(c, ast.Call) and call_name(c) in ('BiogemeFunctionOutput', 'BiogemeDisaggregateFunctionOutput')]:
        agg = call_name(call) == 'BiogemeFunctionOutput'
        kws = named_args(call)
        for i, fld in enumerate(FIELDS):
            key = fld if agg else fld + 's'
            got = kws.get(key)
            r = raw[i]
            if i == 0:
                want = {f'{r}[0]'} if agg else {r}
            else:
                gn = gname.get(r, '?')
                want = {f'None if {gn} is None else {r}[0]'} if agg else {gn}
            ok = got in want
            ctx.add('C02.R1', f'calculator:{call_name(call)}.{key}', ok, (calc.file, call.lineno), f'{key} = {got}' + ('' if ok else f'; expected {sorted(want)[0]}'), f'{key}={got}')
    # the calculate() call gets the four flags (FWD covers name agreement) - BIOGEME side
    B = prog.cls('biogeme', 'BIOGEME')
    f = B.methods['calculate_likelihood_and_derivatives']
    un = [n for n in walk_no_nested(f.node) if isinstance(n, ast.Assign) and isinstance(n.value, ast.Call) and call_name(n.value) == 'calculateLikelihoodAndDerivatives']
    ctx.need(len(un) == 1 and isinstance(un[0].targets[0], ast.Tuple) and len(un[0].targets[0].elts) == 4, 'BIOGEME unpacks calculateLikelihoodAndDerivatives into four names')
    rawb = [unparse(x) for x in un[0].targets[0].elts]
    # the three buffers are handed over in the order g, h, b and come back in the same order
    bufs = [unparse(a) for a in un[0].value.args[3:6]]
    ok = bufs == rawb[1:]
    ctx.add('C02.R1', 'BIOGEME.calculate_likelihood_and_derivatives:buffers', ok, (f.file, un[0].lineno), f'buffers {bufs} are received back as {rawb[1:]}' if ok else f'buffers handed over as {bufs} but unpacked as {rawb[1:]}', str(bufs))
    for call in [c for c in walk_no_nested(f.node) if isinstance(c, ast.Call) and call_name(c) == 'BiogemeFunctionOutput']:
        kws = named_args(call)
        divs = set()
        extracted = 0
        for i, fld in enumerate(FIELDS):
            got = kws.get(fld, '')
            m = re.fullmatch(rf'(?:np\.asarray\()?{re.escape(rawb[i])}\)?(?: / (\w+))?', got)
            ok = m is not None
            extracted += ok
            if m and m.group(1):
                # the divisor is compared by what the name stands for: a local assigned once is its definition (`d = sample_size`)
                divs.add(unparse(inline_locals(f.node, ast.Name(id=m.group(1), ctx=ast.Load()))))
            ctx.add('C02.R1', f'BIOGEME.calculate_likelihood_and_derivatives:{fld}@{"scaled" if "/" in got else "raw"}', ok, (f.file, call.lineno),
                    f'{fld} = {got}' + ('' if ok else f'; expected the engine slot {rawb[i]}'), f'{fld}={got}')
        if divs:
            same = len(divs) == 1 and all('/' in kws.get(x, '') for x in FIELDS)
            ctx.add('C02.R1', 'BIOGEME.calculate_likelihood_and_derivatives:one-divisor', same if (same or extracted == 4) else None, (f.file, call.lineno),
                    f'all four components are divided by the same {sorted(divs)}' if same else (f'components scaled inconsistently: {kws}' if extracted == 4 else 'the scaled components are not in the expected form (engine slot / divisor)'),
                    str(sorted(kws.items())), positive=extracted == 4 and not same)
    # legacy unpacking order
    fo = prog.module('function_output')
    for cname, suffix in (('BiogemeFunctionOutputSmartOutputProxy', ''), ('BiogemeDisaggregateFunctionOutputSmartOutputProxy', 's')):
        c = fo.classes.get(cname)
        ctx.need(c is not None, cname)
        it = c.methods['__iter__']
        ys = [unparse(n.value) for n in sorted((n for n in walk_no_nested(it.node) if isinstance(n, ast.Yield)), key=lambda n: n.lineno)]
        want = [f'self.data.{x}{suffix}' for x in FIELDS]
        ctx.add('C02.R1', f'{cname}.__iter__', ys == want, it, 'tuple unpacking yields function, gradient, hessian, bhhh' if ys == want else f'unpacking order is {ys}', str(ys))
    ue = fo.classes['BiogemeDisaggregateFunctionOutput'].methods['unique_entry']
    kws = {k: v for c in ast.walk(ue.node) if isinstance(c, ast.Call) and call_name(c) == 'BiogemeFunctionOutput' for k, v in named_args(c).items()}
    want = {'function': 'float(self.functions[0])', 'gradient': 'self.gradients[0] if self.gradients else None', 'hessian': 'self.hessians[0] if self.hessians else None', 'bhhh': 'self.bhhhs[0] if self.bhhhs else None'}
    okq = all(re.fullmatch(rf'(float\()?self\.{k}s\[0\]\)?( if self\.{k}s( is not None)? else None)?', v or '') for k, v in kws.items()) and set(kws) == set(FIELDS)
    ctx.add('C02.R1', 'BiogemeDisaggregateFunctionOutput.unique_entry', okq, ue, 'the single entry keeps each field under its own name' if okq else f'unique_entry: {kws}', str(sorted(kws.items())))
    # named outputs: field <- same-named field
    for cname, suffix, flds in (('NamedFunctionOutput', '', FIELDS[:3]), ('NamedBiogemeFunctionOutput', '', ('bhhh',)), ('NamedBiogemeDisaggregateFunctionOutput', 's', FIELDS)):
        c = fo.classes.get(cname)
        ctx.need(c is not None, cname)
        init = c.methods['__init__']
        for fld in flds:
            key = fld + suffix
            st = [n for n in walk_no_nested(init.node) if isinstance(n, (ast.Assign, ast.AnnAssign)) and unparse(n.targets[0] if isinstance(n, ast.Assign) else n.target) == f'self.{key}']
            if not st:
                ctx.add('C02.R1', f'{cname}.{key}', None, init, f'shape not recognised - expected: an assignment to self.{key}', key)
                continue
            # the normal form writes `x = None if c else v` as two assignments under an if / else
            guards = ' '.join(unparse(i.test) for i in walk_no_nested(init.node) if isinstance(i, ast.If) and any(a in ast.walk(i) for a in st))
            alltext = ' '.join(unparse(a.value) for a in st)
            refs = sorted({m for m in re.findall(r'function_output\.(\w+)', alltext + ' ' + guards)})
            ok = refs == [key]
            foreign = sorted(set(refs) - {key})
            ctx.add('C02.R1', f'{cname}.{key}', ok if (ok or foreign) else None, (init.file, st[0].lineno), f'self.{key} is built from function_output.{key}' if ok else
                    (f'self.{key} is built from function_output.{foreign[0]}: the named {key} are those of another field' if foreign else f'self.{key}: its source in function_output is not in the expected form'), f'{key}<-{refs}', positive=bool(foreign))
            # rows and columns use the same mapping
            if fld in ('hessian', 'bhhh'):
                allmaps = set(re.findall(r',\s*(mapping|\w+)\s*\)', alltext.replace('\n', ' ')))
                okm = allmaps == {'mapping'}
                ctx.add('C02.R4', f'{cname}.{key}:mapping', okm, (init.file, st[0].lineno), 'rows and columns are named with the same mapping' if okm else f'mappings used: {sorted(allmaps)}', str(sorted(allmaps)))
    ctx.floor('C02.R1', 30)

    n = fwd(ctx, 'C02.R2')
    ctx.floor('C02.R2', 15)
    # NegativeLikelihood / create_objective_function literal flags
    ecc(ctx, 'C02.R3', only_class='pyBiogeme', methods={'calculateLikelihoodAndDerivatives'})
    ecc(ctx, 'C02.R3', only_class='pyEvaluateOneExpression', methods={'calculate'})
    sub = Ctx(prog, ctx.prop, ctx.tier)
    ord_pack(sub, 'C02.R3')
    for o in sub.obligations:
        # entry i of a derivative belongs to name i: every positional sequence of parameters follows the sorted names
        ctx.adopt('C02.R3', o)
    # the ids by which the engine indexes derivatives are the ones written in the records of the parameters
    from . import c01

    sub1 = Ctx(prog, ctx.prop, ctx.tier)
    c01.run(sub1)
    for o in sub1.obligations:
        if o.construct in ('Beta:record', 'bioLinearUtility:record', 'Derive:record', 'Beta.set_id_manager', 'Beta.set_id_manager:status', 'IdManager.prepare:tables'):
            ctx.adopt('C02.R3', o)
    ctx.floor('C02.R3', 19)

    ctd = prog.func('function_output', 'convert_to_dict')
    seq, mp = ctd.positional_params()
    rets = [n for n in walk_no_nested(ctd.node) if isinstance(n, (ast.Return, ast.Assign)) and isinstance(getattr(n, 'value', None), ast.DictComp)]
    ok = False
    det = ''
    if len(rets) == 1:
        dc = rets[0].value
        det = unparse(dc)
        g = dc.generators[0]
        if isinstance(g.target, ast.Tuple) and unparse(g.iter) == f'{mp}.items()' and not g.ifs:
            nm, ix = (unparse(x) for x in g.target.elts)
            ok = unparse(dc.key) == nm and unparse(dc.value) == f'{seq}[{ix}]'
    ctx.add('C02.R4', 'convert_to_dict', ok, ctd, 'result[name] = the_sequence[index] for each (name, index) of the map' if ok else f'convert_to_dict: {det}', det)
    gv = prog.func('expressions.base_expressions', 'Expression.get_value_and_derivatives')
    named = [c for c in walk_no_nested(gv.node) if isinstance(c, ast.Call) and call_name(c) in ('NamedBiogemeFunctionOutput', 'NamedBiogemeDisaggregateFunctionOutput')]
    ctx.need(len(named) == 2, 'two named outputs in get_value_and_derivatives')
    res = [unparse(n.targets[0]) for n in walk_no_nested(gv.node) if isinstance(n, ast.Assign) and isinstance(n.value, ast.Call) and call_name(n.value) == 'calculate_function_and_derivatives']
    ctx.need(len(res) == 1, 'get_value_and_derivatives stores the result of the engine evaluation')
    for c in named:
        kw = named_args(c)
        ok = kw == {'function_output': res[0], 'mapping': 'self.id_manager.free_betas.indices'}
        ctx.add('C02.R4', f'get_value_and_derivatives:{call_name(c)}', ok, (gv.file, c.lineno), 'names come from free_betas.indices' if ok else f'{call_name(c)}({kw})', str(sorted(kw.items())))
    ctx.floor('C02.R4', 5)

    # R5
    for fn, target in ((gv, 'calculate_function_and_derivatives'), (prog.func('expressions.base_expressions', 'Expression.create_function'), None)):
        cfg = cfg_of(fn.node)
        guards = [n for n in walk_no_nested(fn.node) if isinstance(n, ast.If) and unparse(n.test).replace(' ', '').replace('(', '').replace(')', '') == 'hessianorbhhhandnotgradient' and isinstance(n.test, ast.BoolOp) and isinstance(n.test.op, ast.And) and any(isinstance(x, ast.Raise) and 'BiogemeError' in unparse(x) for x in n.body)]
        ok = len(guards) == 1
        if ok and target:
            calls = [c for c in walk_no_nested(fn.node) if isinstance(c, ast.Call) and call_name(c) == target]
            ok = len(calls) == 1 and cfg.dominates(cfg.node_of(guards[0]), cfg.node_of(calls[0]))
        elif ok:
            rets = [n for n in fn.body if isinstance(n, ast.Return)]
            ok = bool(rets) and cfg.dominates(cfg.node_of(guards[0]), cfg.node_of(rets[-1]))
        ctx.add('C02.R5', f'{fn.qualname}:guard', ok, fn, 'second derivatives without first ones are refused before anything is computed' if ok else 'the guard (hessian or bhhh) and not gradient is missing or does not dominate the evaluation', 'guard')


_C = 'src/biogeme/expressions/calculator.py'
_B = 'src/biogeme/biogeme.py'
_F = 'src/biogeme/function_output.py'
_E = 'src/biogeme/expressions/base_expressions.py'
MUTANTS = [
    dict(name='aggregate hessian takes the BHHH slot', rule='C02.R1', file=_C, old='            hessian=None if hres is None else h[0],', new='            hessian=None if hres is None else b[0],'),
    dict(name='gradient gated by the hessian flag', rule='C02.R1', file=_C, old='    gres = g if calculate_gradient else None', new='    gres = g if calculate_hessian else None'),
    dict(name='disaggregate hessians and bhhhs swapped', rule='C02.R1', file=_C, old='functions=f, gradients=gres, hessians=hres, bhhhs=bhhhres', new='functions=f, gradients=gres, hessians=bhhhres, bhhhs=hres'),
    dict(name='results unpacked as f, g, b, h', rule='C02.R1', file=_C, old='    f, g, h, b = the_cpp.getResults()', new='    f, g, b, h = the_cpp.getResults()'),
    dict(name='BIOGEME passes bh before h to the engine', rule='C02.R1', file=_B, old='            g,\n            h,\n            bh,\n            hessian,', new='            g,\n            bh,\n            h,\n            hessian,'),
    dict(name='scaled BHHH not divided', rule='C02.R1', file=_B, old='                bhhh=np.asarray(bh) / sample_size,', new='                bhhh=np.asarray(bh),'),
    dict(name='legacy unpacking yields hessian before gradient', rule='C02.R1', file=_F,
         old='        yield self.data.function\n        yield self.data.gradient\n        yield self.data.hessian\n        yield self.data.bhhh',
         new='        yield self.data.function\n        yield self.data.hessian\n        yield self.data.gradient\n        yield self.data.bhhh'),
    dict(name='named disaggregate bhhhs built from hessians (seed C02/2)', rule='C02.R1', file=_F,
         old='                    for bhhh in function_output.bhhhs', new='                    for bhhh in function_output.hessians'),
    dict(name='create_function forwards hessian=bhhh', rule='C02.R2', file=_E,
         old='                gradient=gradient,\n                hessian=hessian,\n                bhhh=bhhh,\n                aggregation=True,', new='                gradient=gradient,\n                hessian=bhhh,\n                bhhh=hessian,\n                aggregation=True,'),
    dict(name='calculator forwards the hessian flag as bhhh', rule='C02.R2', file=_C, old='        hessian=calculate_hessian,\n        bhhh=calculate_bhhh,', new='        hessian=calculate_bhhh,\n        bhhh=calculate_hessian,'),
    dict(name='get_value_c forwards aggregation as prepare_ids', rule='C02.R2', file=_E,
         old='            aggregation=aggregation,\n            prepare_ids=prepare_ids,\n        )\n\n        if aggregation or database is None:', new='            aggregation=prepare_ids,\n            prepare_ids=aggregation,\n        )\n\n        if aggregation or database is None:'),
    dict(name='derivative call receives the indices of the fixed parameters', rule='C02.R3', file=_B,
         old='            self.id_manager.free_betas.indices.values(),', new='            self.id_manager.fixed_betas.indices.values(),'),
    dict(name='fixed parameters numbered first', rule='C02.R3', file='src/biogeme/expressions/idmanager.py',
         old='            self.free_betas.names\n            + self.fixed_betas.names', new='            self.fixed_betas.names\n            + self.free_betas.names'),
    dict(name='convert_to_dict pairs names with positions of enumeration', rule='C02.R4', file=_F,
         old='    result = {name: the_sequence[index] for name, index in the_map.items()}', new='    result = {name: the_sequence[i] for i, (name, index) in enumerate(the_map.items())}'),
    dict(name='named output uses the indices of all elements', rule='C02.R4', file=_E,
         old='                results = NamedBiogemeFunctionOutput(\n                    function_output=results, mapping=self.id_manager.free_betas.indices',
         new='                results = NamedBiogemeFunctionOutput(\n                    function_output=results, mapping=self.id_manager.elementary_expressions.indices'),
    dict(name='guard dropped in get_value_and_derivatives', rule='C02.R5', file=_E,
         old='        if (hessian or bhhh) and not gradient:\n            raise BiogemeError(\n                "If the hessian or the BHHH matrix is calculated, "', new='        if False:\n            raise BiogemeError(\n                "If the hessian or the BHHH matrix is calculated, "'),
]
NEUTRAL = [
    dict(name='gated copies renamed', file=_C, edits=[(_C, 'gres', 'gradient_result', True)]),
    dict(name='docstring edit', file=_F, old='"""Output of a function calculation"""\n\n    bhhh', new='"""Output of one calculation"""\n\n    bhhh'),
]
