"""C08 - reported statistics obey their defining formulas (structural clauses)."""

from __future__ import annotations

import ast
import copy
import re

import sympy as sp

from ..cfg import EXIT, cfg_of
from ..core import named_args, AnalysisError, call_name, const_value, dotted, unparse, walk_no_nested
from ..report import Ctx
from ..sym import ToSympy, equal, inline_defs, inline_returns, matrix_index, unknowns
from ..pattern import body_is, find, find_expr, has, has_expr

L, L0, Li = sp.symbols('L L0 Li')
#: the number of parameters and the sample size are counts: int(N) is N
K, N = sp.symbols('K N', integer=True)
SYMS = {'self.data.logLike': L, 'self.data.nullLogLike': L0, 'self.data.initLogLike': Li, 'self.data.nparam': K, 'self.data.sampleSize': N}

FORMULAS = {
    'self.data.likelihoodRatioTestNull': -2 * (L0 - L),
    'self.data.likelihoodRatioTest': -2 * (Li - L),
    'self.data.rhoSquare': 1 - L / Li,
    'self.data.rhoSquareNull': 1 - L / L0,
    'self.data.rhoBarSquare': 1 - (L - K) / Li,
    'self.data.rhoBarSquareNull': 1 - (L - K) / L0,
    'self.data.akaike': 2 * K - 2 * L,
    'self.data.bayesian': -2 * L + K * sp.log(N),
}
GUARD = {
    'self.data.likelihoodRatioTestNull': 'self.data.nullLogLike', 'self.data.likelihoodRatioTest': 'self.data.initLogLike',
    'self.data.rhoSquare': 'self.data.initLogLike', 'self.data.rhoSquareNull': 'self.data.nullLogLike',
    'self.data.rhoBarSquare': 'self.data.initLogLike', 'self.data.rhoBarSquareNull': 'self.data.nullLogLike',
}

FAMILIES = ('', 'robust_', 'bootstrap_')
FAMNAME = {'': 'classical', 'robust_': 'robust', 'bootstrap_': 'bootstrap'}

PARAM_LABELS = {
    'Value': 'b.value', 'Std err': 'b.stdErr', 't-test': 'b.tTest', 'p-value': 'b.pValue',
    'Rob. Std err': 'b.robust_stdErr', 'Rob. t-test': 'b.robust_tTest', 'Rob. p-value': 'b.robust_pValue',
    'Bootstrap t-test': 'b.bootstrap_tTest', 'Bootstrap p-value': 'b.bootstrap_pValue',
}
CORR_LABELS = ['Covariance', 'Correlation', 't-test', 'p-value', 'Rob. cov.', 'Rob. corr.', 'Rob. t-test', 'Rob. p-value', 'Boot. cov.', 'Boot. corr.', 'Boot. t-test', 'Boot. p-value']
GENERAL = {
    'Number of estimated parameters': 'self.data.nparam', 'Sample size': 'self.data.sampleSize', 'Observations': 'self.data.numberOfObservations',
    'Excluded observations': 'self.data.excludedData', 'Null log likelihood': 'self.data.nullLogLike', 'Init log likelihood': 'self.data.initLogLike',
    'Final log likelihood': 'self.data.logLike', 'Likelihood ratio test for the null model': 'self.data.likelihoodRatioTestNull',
    'Rho-square for the null model': 'self.data.rhoSquareNull', 'Rho-square-bar for the null model': 'self.data.rhoBarSquareNull',
    'Likelihood ratio test for the init. model': 'self.data.likelihoodRatioTest', 'Rho-square for the init. model': 'self.data.rhoSquare',
    'Rho-square-bar for the init. model': 'self.data.rhoBarSquare', 'Akaike Information Criterion': 'self.data.akaike',
    'Bayesian Information Criterion': 'self.data.bayesian', 'Final gradient norm': 'self.data.gradientNorm', 'Number of draws': 'self.data.numberOfDraws',
    'Draws generation time': 'self.data.drawsProcessingTime', 'Bootstrapping time': 'self.data.bootstrap_time', 'Nbr of threads': 'self.data.numberOfThreads',
    'Number of free parameters': 'nf',
}


def _strip(e: ast.expr) -> ast.expr:
    """x if g is not None else None  ->  x ;  np.nan_to_num(x) -> x"""
    while True:
        if isinstance(e, ast.IfExp) and unparse(e.orelse) == 'None':
            e = e.body
        elif isinstance(e, ast.Call) and dotted(e.func) in ('np.nan_to_num', 'numpy.nan_to_num') and len(e.args) == 1:
            e = e.args[0]
        else:
            return e


def free_names(e: ast.AST) -> list[ast.Name]:
    """the names read in e that are variables of the enclosing function: a name bound inside e by a comprehension or a lambda
    is a variable of that comprehension / lambda, whatever the function calls the same way"""
    out: list[ast.Name] = []

    def go(n: ast.AST, bound: frozenset) -> None:
        if isinstance(n, ast.Name):
            if isinstance(n.ctx, ast.Load) and n.id not in bound:
                out.append(n)
            return
        if isinstance(n, (ast.ListComp, ast.SetComp, ast.GeneratorExp, ast.DictComp)):
            b = bound
            for k, g in enumerate(n.generators):
                go(g.iter, bound if k == 0 else b)  # the first iterable is evaluated outside
                b = b | {x.id for x in ast.walk(g.target) if isinstance(x, ast.Name)}
                for c in g.ifs:
                    go(c, b)
            for part in ([n.key, n.value] if isinstance(n, ast.DictComp) else [n.elt]):
                go(part, b)
            return
        if isinstance(n, ast.Lambda):
            a = n.args
            for d in list(a.defaults) + [d for d in a.kw_defaults if d is not None]:
                go(d, bound)
            go(n.body, bound | {x.arg for x in a.posonlyargs + a.args + a.kwonlyargs + ([a.vararg] if a.vararg else []) + ([a.kwarg] if a.kwarg else [])})
            return
        for c in ast.iter_child_nodes(n):
            go(c, bound)

    go(e, frozenset())
    return out


def _flat_targets(t: ast.expr) -> list[ast.expr]:
    if isinstance(t, (ast.Tuple, ast.List)):
        return [y for x in t.elts for y in _flat_targets(x)]
    if isinstance(t, ast.Starred):
        return _flat_targets(t.value)
    return [t]


def _store_targets(n: ast.AST) -> list[ast.expr]:
    """what the statement n binds or writes into"""
    if isinstance(n, ast.Assign):
        return [y for t in n.targets for y in _flat_targets(t)]
    if isinstance(n, (ast.AugAssign, ast.AnnAssign)):
        return _flat_targets(n.target)
    if isinstance(n, ast.Delete):
        return [y for t in n.targets for y in _flat_targets(t)]
    if isinstance(n, (ast.For, ast.AsyncFor)):
        return _flat_targets(n.target)
    if isinstance(n, (ast.With, ast.AsyncWith)):
        return [y for it in n.items if it.optional_vars is not None for y in _flat_targets(it.optional_vars)]
    return []


def stores_of(func_node: ast.AST, chain: str) -> list[ast.AST]:
    """the statements of the function that write the attribute `chain` (a dotted text) or one of its elements (chain[i] = ...),
    by any kind of assignment, in source order"""
    out = []
    for n in walk_no_nested(func_node):
        for t in _store_targets(n):
            while isinstance(t, ast.Subscript):
                t = t.value
            if dotted(t) == chain:
                out.append(n)
                break
    return sorted(out, key=lambda x: (x.lineno, x.col_offset))


def plain_store(n: ast.AST, chain: str) -> bool:
    return isinstance(n, ast.Assign) and len(n.targets) == 1 and dotted(n.targets[0]) == chain


def text_parts(e: ast.expr) -> tuple[str, list[ast.expr]]:
    """(the literal text, the embedded values) of a text assembled from literals and values: f-string, 'lit %s' % x,
    'lit {}'.format(x), a + b; any other expression is one embedded value"""
    if isinstance(e, ast.Constant) and isinstance(e.value, str):
        return e.value, []
    if isinstance(e, ast.JoinedStr):
        txt, vals = '', []
        for v in e.values:
            if isinstance(v, ast.FormattedValue) and isinstance(v.value, ast.Constant) and isinstance(v.value.value, str) and v.conversion == -1 and v.format_spec is None:
                txt += v.value.value  # a text placed in an f-string is that text
            elif isinstance(v, ast.FormattedValue):
                vals.append(v.value)
            else:
                t_, v_ = text_parts(v)
                txt, vals = txt + t_, vals + v_
        return txt, vals
    if isinstance(e, ast.BinOp) and isinstance(e.op, ast.Mod) and isinstance(e.left, ast.Constant) and isinstance(e.left.value, str):
        return re.sub(r'%[-0-9.]*[sdrfg]', '', e.left.value), list(e.right.elts) if isinstance(e.right, ast.Tuple) else [e.right]
    if isinstance(e, ast.BinOp) and isinstance(e.op, ast.Add):
        (t1, v1), (t2, v2) = text_parts(e.left), text_parts(e.right)
        return t1 + t2, v1 + v2
    if isinstance(e, ast.Call) and isinstance(e.func, ast.Attribute) and e.func.attr == 'format' and isinstance(e.func.value, ast.Constant) and isinstance(e.func.value.value, str):
        return re.sub(r'\{[^{}]*\}', '', e.func.value.value), list(e.args) + [k.value for k in e.keywords]
    return '', [e]


#: obligations whose failure contradicts the property (rule, construct pattern, why); every other failure is 'not recognised'
POSITIVE: list[tuple[str, str, str]] = [
]


def run(ctx: Ctx) -> None:
    ctx.positive_table = list(POSITIVE)
    prog = ctx.prog
    ctx.rule('C08.R1', 'defining formulas: the right-hand side of each summary statistic, of the pairwise test, of t and p, of the three variance-covariance '
             'matrices, standard errors and correlations equals its defining formula (sympy normal form for the scalar formulas, structural match for the matrix ones)')
    ctx.rule('C08.R2', 'family discipline: the classical / robust / bootstrap blocks are alpha-equivalent after stripping the family prefix and read no attribute of another family')
    ctx.rule('C08.R3', 'labels: every label of the parameter table, the correlation table, the general statistics, the F12 file and the compiled table is paired with the quantity it names')
    ctx.not_decided += ['numerical linear algebra (pinv, cov, eigenvalues)']
    BR = prog.cls('results', 'bioResults')
    cs = BR.methods['_calculate_stats']
    assigns: dict[str, list[ast.Assign]] = {}
    for n in walk_no_nested(cs.node):
        if isinstance(n, ast.Assign):
            for t in n.targets:
                assigns.setdefault(unparse(t), []).append(n)

    def hook(node, ts):
        t = unparse(node)
        if t in SYMS:
            return SYMS[t]
        return None

    #: the quantities a summary statistic may be a formula of: the five of the defining formulas and the other named fields of
    #: the results record (the general statistics).  Any other symbol left in a translated right-hand side is a name the rule
    #: cannot interpret: the formula is then not comparable with its definition (open verdict, never a violation)
    known = set(SYMS.values()) | {sp.Symbol(v) for v in GENERAL.values() if v.startswith('self.data.')}

    def formula(func, e: ast.expr) -> ast.expr:
        """the right-hand side with single-definition locals and single-return helpers of the package replaced by what they stand for"""
        e = _strip(e)
        for _ in range(2):
            e = _strip(inline_returns(prog, func, inline_defs(func.node, e)))
        return matrix_index(e)

    ccfg = cfg_of(cs.node)
    parent = {id(c): p_ for p_ in ast.walk(cs.node) for c in ast.iter_child_nodes(p_)}

    def block_of(st: ast.AST):
        """the statement list that holds st"""
        p_ = parent.get(id(st))
        for fld in ('body', 'orelse', 'finalbody'):
            b_ = getattr(p_, fld, None)
            if isinstance(b_, list) and st in b_:
                return b_
        return None

    def final_value(target: str, s: ast.Assign):
        """(the expression whose value the attribute holds when _calculate_stats ends, None) or (None, why it cannot be read):
        every store to the attribute counts, not only `target = <formula>`: `target op= e` after the formula in the same block is
        the binary operation; any other further store, or a formula that is overwritten on every path, leaves the value open"""
        short = target.split('.')[-1]
        every = stores_of(cs.node, target)
        odd = [x for x in every if not plain_store(x, target)]
        augs = [x for x in odd if isinstance(x, ast.AugAssign) and dotted(x.target) == target]
        rest = [x for x in odd if x not in augs]
        if rest:
            return None, f'{short} is also written at line {rest[0].lineno} (`{unparse(rest[0])[:60]}`), in a way the rule does not read'
        value = s.value
        if augs:
            blk = block_of(s)
            if blk is None or any(a not in blk or blk.index(a) < blk.index(s) for a in augs) \
                    or any(x in blk and blk.index(s) < blk.index(x) < max(blk.index(a) for a in augs) for x in every if x is not s and x not in augs):
                return None, f'{short} is modified at line {augs[0].lineno} (`{unparse(augs[0])[:60]}`), not in sequence with its formula'
            for a in sorted(augs, key=blk.index):
                value = ast.copy_location(ast.BinOp(left=value, op=a.op, right=a.value), a)
        at = ccfg.node_of(s)
        if at is None or at not in {d.node for d in ccfg.reaching(EXIT, target)}:
            return None, f'the value given to {short} at line {s.lineno} is overwritten before _calculate_stats ends'
        return value, None

    for target, want in FORMULAS.items():
        ss = [s for s in assigns.get(target, []) if unparse(s.value) != 'None']
        if len(ss) != 1:
            raise AnalysisError(f'C08.R1: {target} is assigned {len(ss)} times in _calculate_stats')
        s = ss[0]
        short = target.split('.')[-1]
        try:
            value, why = final_value(target, s)
            if value is None:
                raise AnalysisError(why)
            got = ToSympy(hook=hook)(formula(cs, value))
            unk = unknowns(got, known)
            ok = None if unk else equal(got, want)
            msg = (f'the right-hand side of {short} = {got} contains {", ".join(unk)}, which the rule cannot relate to the quantities of the defining formula {want}: not comparable' if unk
                   else f'{short} = {got}' + ('' if ok else f'; the defining formula is {want}'))
        except AnalysisError as ex:
            got, ok = str(ex), None  # the right-hand side is not arithmetic the translation understands, or not the only store
            msg = f'the value of {short} is not in a form the formula translation understands: {got}'
        # positive: every symbol is a named quantity of the results record and the normal forms differ
        ctx.add('C08.R1', target.replace('self.data.', 'stat:'), ok, (cs.file, s.lineno), msg, detail=str(got), positive=ok is False)
        if target in GUARD:
            # normal form of `x = f if g is not None else None`: if g is None: x = None / else: x = f
            encl = [n for n in walk_no_nested(cs.node) if isinstance(n, ast.If) and (s in n.body or s in n.orelse)]
            okg = len(encl) == 1 and ((s in encl[0].orelse and unparse(encl[0].test) == f'{GUARD[target]} is None') or (s in encl[0].body and unparse(encl[0].test) == f'{GUARD[target]} is not None'))
            ctx.add('C08.R1', target.replace('self.data.', 'stat:') + ':guard', okg, (cs.file, s.lineno), f'computed only when {GUARD[target].split(".")[-1]} is available' if okg else f'guard of {target}: {unparse(encl[0].test) if encl else "none"}', 'guard')
    # pairwise test
    ct = BR.methods['_calculate_test']
    i, j, mat = ct.positional_params()[1:4]
    from ..pattern import find as _find

    bt = _find(ct.node, """
if __R <= 0:
    return __MAX
return __T
""") or _find(ct.node, """
if not __R <= 0:
    return __T
return __MAX
""") or _find(ct.node, """
if __R > 0:
    return __T
return __MAX
""")
    ok = None
    got = 'shape not recognised - expected: a guard on the variance of the difference, then the ratio'
    if bt is not None:
        vii, vjj, vij, bi, bj = sp.symbols('vii vjj vij bi bj')
        sym = {f'{mat}[{i}, {i}]': vii, f'{mat}[{j}, {j}]': vjj, f'{mat}[{i}, {j}]': vij, f'{mat}[{j}, {i}]': vij,
               f'self.data.betaValues[{i}]': bi, f'self.data.betaValues[{j}]': bj}
        try:
            g = ToSympy(hook=lambda n, ts: sym.get(unparse(n)))(formula(ct, bt['__T'][1]))
            r = ToSympy(hook=lambda n, ts: sym.get(unparse(n)))(formula(ct, bt['__R'][1]))
            got = str(g)
            unk = sorted(set(unknowns(g, sym.values()) + unknowns(r, sym.values())))
            if unk:
                # an element read the rule cannot place in the matrix (or any other name): not comparable
                got, ok = f'shape not recognised - the pairwise test {g} (guard on {r}) contains {", ".join(unk)}, which the rule cannot relate to b_i, b_j, v_ii, v_jj, v_ij', None
            else:
                ok = equal(g, (bi - bj) / sp.sqrt(vii + vjj - 2 * vij)) and equal(r, vii + vjj - 2 * vij)
        except AnalysisError as ex:
            got, ok = f'shape not recognised - {ex}', None
    ctx.add('C08.R1', 'bioResults._calculate_test', ok, ct, (f'pairwise test = {got}' + ('' if ok else '; expected (b_i - b_j)/sqrt(v_ii + v_jj - 2 v_ij)')) if ok is not None else got, got, positive=ok is False)
    pv = prog.func('results', 'calc_p_value')
    t = pv.positional_params()[0]
    rets = [n for n in walk_no_nested(pv.node) if isinstance(n, (ast.Assign, ast.Return)) and n.value is not None and 'cdf' in unparse(n.value)]
    ok = len(rets) == 1 and unparse(rets[0].value).replace(' ', '') in (f'2.0*(1.0-stats.norm.cdf(abs({t})))', f'2*(1-stats.norm.cdf(abs({t})))', f'2.0*(1.0-stats.norm.cdf(np.abs({t})))')
    ctx.add('C08.R1', 'calc_p_value', ok, pv, 'p = 2 (1 - Phi(|t|))' if ok else f'p-value: {unparse(rets[0].value) if rets else "?"}', unparse(rets[0].value) if rets else '')
    # matrices
    def single(target):
        ss = assigns.get(target, [])
        ss = [s for s in ss if 'full_like' not in unparse(s.value)]
        if len(ss) != 1:
            raise AnalysisError(f'C08.R1: {target} assigned {len(ss)} times')
        return ss[0]

    def modified(target: str) -> str:
        """'' when the plain assignments are the only stores to the matrix; otherwise the first other store (target op= e,
        target[i, j] = e, unpacking ...): the matrix the results hold is then not the value of the formula that was read"""
        odd = [x for x in stores_of(cs.node, target) if not plain_store(x, target)]
        return f'; but {target} is written again at line {odd[0].lineno} (`{unparse(odd[0])[:60]}`): what the results hold is not the value of this formula alone' if odd else ''

    def add_matrix(construct, target, ok, line, msg, detail, positive=False):
        mod = modified(target)
        if mod:
            ok, positive = None, False
        ctx.add('C08.R1', construct, ok, (cs.file, line), msg + mod, detail, positive=positive)

    # the settings of the results object: the attributes self.X (other than the results record self.data) that the constructor
    # stores.  They say how the results are judged and shown (identification_threshold); they are not quantities of the estimation
    init = BR.methods.get('__init__')
    settings = set()
    if init is not None:
        for n in walk_no_nested(init.node):
            for t in _store_targets(n):
                if isinstance(t, ast.Attribute) and isinstance(t.value, ast.Name) and t.value.id == 'self' and t.attr != 'data':
                    settings.add(t.attr)

    def setting_entering(st: ast.AST, e: ast.AST):
        """(setting, how) when the value of e, evaluated by the statement st of _calculate_stats, certainly depends on a setting
        self.<X> of the results object; None when it does not or when the rule cannot tell.  Certain means: read in e itself, or in
        what is stored (value, index or mask of an element store, operand of an augmented assignment) into a local that e reads,
        by statements of the very statement list that holds st, before st, with no store to that local anywhere else: they all
        run before st and nothing else makes the local (followed through the locals in the same way)"""
        def go(st_, x, depth):
            for n in ast.walk(x):
                if isinstance(n, ast.Attribute) and isinstance(n.ctx, ast.Load) and isinstance(n.value, ast.Name) and n.value.id == 'self' and n.attr in settings:
                    return n.attr, None
            blk = block_of(st_)
            if blk is None or depth == 0:
                return None
            for nm in free_names(x):
                every = stores_of(cs.node, nm.id)
                if not every or any(w not in blk or blk.index(w) >= blk.index(st_) or not isinstance(w, (ast.Assign, ast.AugAssign)) for w in every):
                    continue
                if any(isinstance(y, ast.Name) and y.id == nm.id and not isinstance(y.ctx, ast.Load) and not any(y in ast.walk(w) for w in every) for y in ast.walk(cs.node)):
                    continue  # (bound in a nested function, a comprehension, a walrus ...)
                plain = [w for w in every if plain_store(w, nm.id)]
                if not plain:
                    continue
                live = [w for w in every if blk.index(w) >= blk.index(plain[-1])]  # the last whole assignment and what modifies its value afterwards
                for w in live:
                    parts = [w.value] + [t_.slice for t in (w.targets if isinstance(w, ast.Assign) else [w.target]) for t_ in ast.walk(t) if isinstance(t_, ast.Subscript)]
                    for part in parts:
                        r = go(w, part, depth - 1)
                        if r is not None:
                            return r[0], (r[1] or f'{nm.id} is made with it at line {w.lineno} (`{unparse(w)[:70]}`)')
            return None
        return go(st, e, 5)

    s = single('self.data.varCovar')
    ok = unparse(s.value).replace(' ', '') in ('-linalg.pinv(np.nan_to_num(self.data.H))', '-linalg.pinv(self.data.H)', '-np.linalg.pinv(np.nan_to_num(self.data.H))')
    # necessary condition: -pinv(H) is a function of the Hessian alone.  A setting of the results object that certainly enters the
    # value of the matrix makes it something else than the pseudo-inverse of minus the Hessian (the same H, another setting, another matrix)
    dep = None if ok else setting_entering(s, s.value)
    if dep is not None:
        add_matrix('matrix:varCovar', 'self.data.varCovar', False, s.lineno,
                   f'varCovar = {unparse(s.value)[:90]}: its value depends on the setting self.{dep[0]} of the results object' + (f' ({dep[1]})' if dep[1] else '')
                   + '; the variance-covariance matrix is -pinv(H), a function of the Hessian alone: with the same Hessian, another value of the setting gives other variances, standard errors, t and p',
                   unparse(s.value), positive=True)
    else:
        add_matrix('matrix:varCovar', 'self.data.varCovar', ok, s.lineno, f'varCovar = {unparse(s.value)}' + ('' if ok else '; expected -pinv(H)'), unparse(s.value))
    s = single('self.data.robust_varCovar')
    ok = unparse(s.value).replace(' ', '').replace('\n', '') in ('self.data.varCovar.dot(self.data.bhhh.dot(self.data.varCovar))', 'self.data.varCovar@self.data.bhhh@self.data.varCovar', 'self.data.varCovar.dot(self.data.bhhh).dot(self.data.varCovar)')
    def chain(e):
        """the factors of a matrix product written with .dot / @, in order; None when it is something else"""
        if isinstance(e, ast.BinOp) and isinstance(e.op, ast.MatMult):
            l_, r_ = chain(e.left), chain(e.right)
            return None if l_ is None or r_ is None else l_ + r_
        if isinstance(e, ast.Call) and isinstance(e.func, ast.Attribute) and e.func.attr == 'dot' and len(e.args) == 1 and not e.keywords:
            l_, r_ = chain(e.func.value), chain(e.args[0])
            return None if l_ is None or r_ is None else l_ + r_
        if isinstance(e, ast.Attribute):
            return [unparse(e)]
        return None

    fac = chain(inline_defs(cs.node, s.value))
    sandwich = ['self.data.varCovar', 'self.data.bhhh', 'self.data.varCovar']
    ok = ok or fac == sandwich  # the product V.B.V, however it is bracketed and whatever its factors are called
    other = fac is not None and fac != sandwich and set(fac) <= {'self.data.varCovar', 'self.data.bhhh', 'self.data.H'}
    add_matrix('matrix:robust_varCovar', 'self.data.robust_varCovar', ok if (ok or other) else None, s.lineno, f'robust_varCovar = {unparse(s.value)}' + ('' if ok or fac == sandwich else ('; expected V.B.V' if other else ': not in the expected form (a product of three matrices)')),
               unparse(s.value), positive=other)
    s = single('self.data.bootstrap_varCovar')
    v_ = inline_defs(cs.node, s.value)
    rowvar = None  # True / False: the constant the call passes (or numpy's default); None: cannot tell
    if isinstance(v_, ast.Call) and dotted(v_.func) in ('np.cov', 'numpy.cov') and len(v_.args) == 1 and unparse(v_.args[0]) == 'self.data.bootstrap' \
            and all(k.arg == 'rowvar' for k in v_.keywords):
        kw = [k.value for k in v_.keywords]
        if not kw:
            rowvar = True  # numpy's default
        elif isinstance(kw[0], ast.Constant) and isinstance(kw[0].value, (bool, int)):
            rowvar = bool(kw[0].value)  # rowvar=0 and rowvar=False are the same request
    ok = rowvar is False
    rows_as_vars = rowvar is True
    add_matrix('matrix:bootstrap_varCovar', 'self.data.bootstrap_varCovar', ok if (ok or rows_as_vars) else None, s.lineno, f'bootstrap_varCovar = {unparse(s.value)}' + ('' if ok else ('; the replications are the rows: expected cov(replications, rowvar=False)' if rows_as_vars else ': not in the expected form')),
               unparse(s.value), positive=bool(rows_as_vars))

    # ---- family blocks
    BLOCK = """
for _I in range(self.data.nparam):
    if self.data.FAMvarCovar[_I, _I] < 0:
        self.data.betas[_I].set_FAMstd_err(np.finfo(float).max)
    else:
        self.data.betas[_I].set_FAMstd_err(np.sqrt(self.data.FAMvarCovar[_I, _I]))
_D = np.diag(self.data.FAMvarCovar)
if (_D > 0).all():
    _DG = np.diag(np.sqrt(_D))
    _DI = linalg.inv(_DG)
    self.data.FAMcorrelation = _DI.dot(self.data.FAMvarCovar.dot(_DI))
else:
    self.data.FAMcorrelation = np.full_like(self.data.FAMvarCovar, np.finfo(float).max)
"""
    fam_of = {f'self.data.{f}varCovar': f for f in FAMILIES}

    def matrices(e: ast.AST) -> set[str]:
        """families whose variance-covariance matrix enters the VALUE of the expression (a matrix read only for its shape -
        X.shape, len(X), np.full_like(X, c) - does not count)"""
        shape_only = set()
        for n in ast.walk(e):
            if isinstance(n, ast.Attribute) and n.attr in ('shape', 'ndim', 'dtype', 'size'):
                shape_only.add(id(n.value))
            elif isinstance(n, ast.Call) and (dotted(n.func) or '').split('.')[-1] in ('full_like', 'zeros_like', 'ones_like', 'empty_like', 'len') and n.args:
                shape_only.add(id(n.args[0]))
        return {fam_of[dotted(n)] for n in ast.walk(e) if isinstance(n, ast.Attribute) and id(n) not in shape_only and dotted(n) in fam_of}

    fam_stores = [a for a in walk_no_nested(cs.node) if isinstance(a, ast.Assign) and any(dotted(t) in fam_of for t in a.targets)]

    def stored_as(nm: ast.Name, d):
        """(family F, the storing assignment, test `the store precedes cfg node n on every path`) when the value the definition d gives the local nm is
        the very object stored in self.data.<F>varCovar: `nm = self.data.FvarCovar = e`, or `nm = e` and `self.data.FvarCovar = nm` reached by d alone;
        None otherwise (also when it is stored in the matrices of two families)"""
        found = []
        for a in fam_stores:
            fams = {fam_of[dotted(t)] for t in a.targets if dotted(t) in fam_of}
            if a.value is d.value:
                found += [(f_, a) for f_ in fams]
            elif isinstance(a.value, ast.Name) and a.value.id == nm.id:
                at_ = ccfg.node_of(a)
                ds_ = ccfg.reaching(at_, nm.id) if at_ is not None else []
                if len(ds_) == 1 and ds_[0].kind == 'assign' and ds_[0].value is d.value:
                    found += [(f_, a) for f_ in fams]
        if len({f_ for f_, _ in found}) != 1:
            return None
        f_, a = found[0]
        return f_, a, lambda n: n is not None and all(ccfg.node_of(a_) is not None and ccfg.dominates(ccfg.node_of(a_), n) for f2, a_ in found[:1])

    def sources(e: ast.AST) -> tuple[dict, set]:
        """(definite, possible) for the matrices that enter the value of e (a node of _calculate_stats).  definite: family -> how,
        for a matrix read in e itself, or read by EVERY definition that reaches one of the function's variables e reads (reaching
        definitions on the CFG, followed through the variables): whatever path is taken, that matrix enters the value.
        possible: the families read by at least one reaching definition (the analysis does not follow conditions: a definition
        that reaches along the graph may be excluded by the tests on the way)."""
        memo: dict[int, tuple[dict, set]] = {}

        def go(x: ast.AST, depth: int, stack: frozenset) -> tuple[dict, set]:
            if id(x) in memo:
                return memo[id(x)]
            direct = matrices(x)
            definite: dict = {f_: None for f_ in sorted(direct)}
            possible = set(direct)
            if depth > 0:
                for nm in free_names(x):
                    at = ccfg.node_of(nm)
                    ds = ccfg.reaching(at, nm.id) if at is not None else []
                    common = None
                    for d in ds:
                        own_of = stored_as(nm, d) if d.kind == 'assign' and d.value is not None else None
                        if d.kind != 'assign' or d.value is None or id(d.value) in stack:
                            dd, pp = {}, set()  # a definition the rule does not read: nothing is certain through this name
                        elif own_of is not None:
                            # the object this definition gives the name is the one stored in self.data.<F>varCovar: the name is family F's
                            # matrix, whatever it is computed from (the robust matrix is made of the classical one: reading it is not reading
                            # the classical one); certain only when the store comes before the reading on every path
                            f_, a_, before = own_of
                            pp = {f_}
                            dd = {f_: f'{nm.id} is the matrix stored in self.data.{f_}varCovar (line {a_.lineno})'} if before(at) else {}
                        else:
                            dd, pp = go(d.value, depth - 1, stack | {id(d.value)})
                            dd = {f_: (h or f'{nm.id} holds `{unparse(d.value)}` (line {getattr(d.value, "lineno", "?")})') for f_, h in dd.items()}
                        possible |= pp
                        common = dd if common is None else {f_: h for f_, h in common.items() if f_ in dd}
                    for f_, h in (common or {}).items():
                        definite.setdefault(f_, h)
            memo[id(x)] = (definite, possible)
            return memo[id(x)]

        return go(e, 6, frozenset())

    COR = BLOCK[BLOCK.index('_D = np.diag'):]
    def resolved(e: ast.expr) -> str:
        return unparse(matrix_index(inline_defs(cs.node, e)))

    def std_errors_ok(fam: str, setters: list[ast.Call]) -> bool:
        """the standard-error half of BLOCK decided per assignment: inside a loop `for I in range(self.data.nparam)` one test
        `V[I, I] < 0` of the family's own matrix selects between set_FAMstd_err(max float) and set_FAMstd_err(sqrt(V[I, I])) on
        betas[I]; V[I, I] may be read through single-definition locals and np.diag; what else the loop does is not looked at"""
        if len(setters) != 2 or any(len(c.args) != 1 or c.keywords for c in setters):
            return False
        stmts = [parent.get(id(c)) for c in setters]
        tests = [parent.get(id(st)) for st in stmts]
        if not all(isinstance(st, ast.Expr) for st in stmts) or tests[0] is not tests[1] or not isinstance(tests[0], ast.If):
            return False
        t = tests[0]
        if len(t.body) != 1 or len(t.orelse) != 1 or {id(t.body[0]), id(t.orelse[0])} != {id(st) for st in stmts}:
            return False
        loop = parent.get(id(t))
        if not (isinstance(loop, ast.For) and t in loop.body and isinstance(loop.target, ast.Name) and unparse(loop.iter) == 'range(self.data.nparam)' and not loop.orelse):
            return False
        if any(isinstance(x, (ast.Break, ast.Continue, ast.Return)) for x in ast.walk(loop)):
            return False
        I = loop.target.id
        vii = f'self.data.{fam}varCovar[{I}, {I}]'
        # the matrix is assigned before anything reads it
        born = min((a.lineno for a in assigns.get(f'self.data.{fam}varCovar', [])), default=None)
        if born is None or any(isinstance(x, ast.Attribute) and isinstance(x.ctx, ast.Load) and dotted(x) == f'self.data.{fam}varCovar' and x.lineno < born for x in ast.walk(cs.node)):
            return False
        low, high = t.body[0].value, t.orelse[0].value
        return resolved(t.test) == f'{vii} < 0' and all(unparse(c.func.value) == f'self.data.betas[{I}]' for c in setters) \
            and resolved(low.args[0]) == 'np.finfo(float).max' and resolved(high.args[0]) == f'np.sqrt({vii})'

    def own_names() -> ast.AST | None:
        """_calculate_stats with every local that only names a family's matrix written as that matrix: `L = e` immediately followed by
        `self.data.FvarCovar = L`, L bound nowhere else and read only after the store, the attribute stored nowhere else, becomes
        `self.data.FvarCovar = e` and every later L is self.data.FvarCovar (one object under two names).  None when there is no such local."""
        todo = []
        for a in fam_stores:
            if not (plain_store(a, dotted(a.targets[0]) or '') and isinstance(a.value, ast.Name)):
                continue
            chain, L = dotted(a.targets[0]), a.value.id
            blk = block_of(a)
            if blk is None or blk.index(a) == 0 or len(stores_of(cs.node, chain)) != 1:
                continue
            d = blk[blk.index(a) - 1]
            binds = [n for n in ast.walk(cs.node) if isinstance(n, ast.Name) and n.id == L and not isinstance(n.ctx, ast.Load)]
            a_cs = cs.node.args
            if not (isinstance(d, ast.Assign) and len(d.targets) == 1 and isinstance(d.targets[0], ast.Name) and d.targets[0].id == L and binds == [d.targets[0]]) \
                    or L in {x.arg for x in a_cs.posonlyargs + a_cs.args + a_cs.kwonlyargs} or any(isinstance(n, ast.Name) and n.id == L for n in ast.walk(d.value)):
                continue
            at_ = ccfg.node_of(a)
            loads = [n for n in walk_no_nested(cs.node) if isinstance(n, ast.Name) and n.id == L and isinstance(n.ctx, ast.Load) and n is not a.value]
            if at_ is None or len(loads) != sum(1 for n in ast.walk(cs.node) if isinstance(n, ast.Name) and n.id == L and isinstance(n.ctx, ast.Load)) - 1 \
                    or any(ccfg.node_of(n) is None or ccfg.node_of(n) == at_ or not ccfg.dominates(at_, ccfg.node_of(n)) for n in loads):
                continue  # (read in a nested function, or on a path that does not pass the store)
            todo.append((chain, L, (d.lineno, d.col_offset), (a.lineno, a.col_offset)))
        if not todo:
            return None
        tree = copy.deepcopy(cs.node)
        for chain, L, dpos, apos in todo:
            attr = ast.parse(chain, mode='eval').body

            class Own(ast.NodeTransformer):
                def visit_Assign(self, n):
                    if (n.lineno, n.col_offset) == apos and isinstance(n.value, ast.Name) and n.value.id == L:
                        return None
                    if (n.lineno, n.col_offset) == dpos and isinstance(n.targets[0], ast.Name) and n.targets[0].id == L:
                        t = copy.deepcopy(attr)
                        t.ctx = ast.Store()
                        n.targets = [ast.copy_location(t, n.targets[0])]
                        n.value = self.visit(n.value)
                        return n
                    return self.generic_visit(n)

                def visit_Name(self, n):
                    if n.id == L and isinstance(n.ctx, ast.Load):
                        return ast.copy_location(copy.deepcopy(attr), n)
                    return n

            tree = ast.fix_missing_locations(Own().visit(tree))
        return tree

    try:
        cs_own = own_names()
    except Exception:
        cs_own = None

    for fam in FAMILIES:
        setters = [n for n in walk_no_nested(cs.node) if isinstance(n, ast.Call) and isinstance(n.func, ast.Attribute) and n.func.attr == f'set_{fam}std_err']
        ok = has(cs.node, BLOCK.replace('FAM', fam)) or (std_errors_ok(fam, setters) and has(cs.node, COR.replace('FAM', fam)))
        # (a local that is only another name of a family's matrix is read as that matrix)
        ok = ok or (cs_own is not None and has(cs_own, BLOCK.replace('FAM', fam)))
        line = setters[0].lineno if setters else cs.line
        # decided per assignment, whatever the loops look like: which matrix feeds the standard error handed to the setter of this
        # family, which matrix feeds the correlation of this family.  A matrix of ANOTHER family there is the contradiction.
        cors = [a for a in walk_no_nested(cs.node) if isinstance(a, ast.Assign) and unparse(a.targets[0]) == f'self.data.{fam}correlation']
        fed = [(f'the standard error given to set_{fam}std_err', x) for c in setters for x in list(c.args) + [k.value for k in c.keywords]]
        fed += [(f'self.data.{fam}correlation', a.value) for a in cors]
        reads = set()
        stale = None
        for what, e in fed:
            definite, possible = sources(e)
            reads |= {f'{f_}varCovar' for f_ in possible}
            for f_, how in definite.items():
                if f_ != fam and stale is None:
                    stale = (f'{what} is computed from self.data.{f_}varCovar' if how is None else f'{how}, which enters {what}') + \
                        f': the {FAMNAME[fam]} ' + ('correlations are normalised with the standard deviations' if 'correlation' in what else 'standard errors are computed from the variances') + ' of another family'
        own = {f'{fam}varCovar'}
        # the matrix or the correlation of the family written by anything else than plain assignments: what the block computes is not what the results hold
        rewritten = [x for tgt in (f'self.data.{fam}correlation',) for x in stores_of(cs.node, tgt) if not plain_store(x, tgt)]
        if stale:
            ok = False
        elif not ok or rewritten:
            ok = None  # every standard error and correlation of the family comes from its own matrix (or from values the rule cannot trace): only the spelling is not the one the rule knows
        ctx.add('C08.R2', f'_calculate_stats:{FAMNAME[fam]}', ok, (cs.file, line),
                f'{FAMNAME[fam]} block: std err_i = sqrt(V_ii) and correlation = D^-1 V D^-1 of its own matrix' if ok
                else (stale if ok is False
                      else f'shape not recognised - expected: std err_i = sqrt(V_ii) (max float when negative) for every parameter, correlation = D^-1 V D^-1, all from {sorted(own)[0]}'),
                detail='' if ok else str(sorted(reads)), positive=ok is False)
    B = prog.cls('results', 'Beta')
    for fam in FAMILIES:
        m = B.methods.get(f'set_{fam}std_err')
        ctx.need(m is not None, f'results.Beta.set_{fam}std_err')
        p = m.positional_params()[1]
        ok = body_is(m.body, f"""
self.{fam}stdErr = {p}
if {p} == 0:
    self.{fam}tTest = np.finfo(float).max
else:
    self.{fam}tTest = np.nan_to_num(self.value / {p})
self.{fam}pValue = calc_p_value(self.{fam}tTest)
""") is not None
        ctx.add('C08.R2', f'results.Beta.set_{fam}std_err', ok, m, f'{FAMNAME[fam]}: t = value / std err, p = p(t) of the same family' if ok else f'{FAMNAME[fam]} setter is not stdErr / t = value/stdErr / p = p(t) of its own family', '' if ok else ' ; '.join(unparse(x) for x in m.body)[:200])
    # second order table
    so = [n for n in walk_no_nested(cs.node) if isinstance(n, ast.Assign) and isinstance(n.targets[0], ast.Subscript) and unparse(n.targets[0].value) == 'self.data.secondOrderTable']
    ctx.need(len(so) == 2, 'two writers of secondOrderTable entries (with / without bootstrap)')
    tdefs = {}
    #: how many times each local of _calculate_stats is bound (a name bound twice does not stand for one definition)
    nbind: dict[str, int] = {}
    for n in walk_no_nested(cs.node):
        if isinstance(n, ast.Name) and isinstance(n.ctx, (ast.Store, ast.Del)):
            nbind[n.id] = nbind.get(n.id, 0) + 1
    for n in walk_no_nested(cs.node):
        if isinstance(n, ast.Assign) and len(n.targets) == 1 and isinstance(n.targets[0], ast.Name) and isinstance(n.value, ast.Call) and nbind.get(n.targets[0].id) == 1:
            if unparse(n.value.func) == 'self._calculate_test' and len(n.value.args) == 3 and not n.value.keywords:
                tdefs[n.targets[0].id] = ('test', unparse(n.value.args[2]), [unparse(a) for a in n.value.args[:2]])
            elif call_name(n.value) == 'calc_p_value' and len(n.value.args) == 1 and not n.value.keywords:
                tdefs[n.targets[0].id] = ('p', unparse(n.value.args[0]), None)

    def list_elts(e: ast.expr, depth: int = 4):
        """the elements of a list written as a display, as a concatenation of lists, or kept in a local that is bound once to such
        a list and never used as the object of a method or an element store; None for anything else"""
        if isinstance(e, ast.List):
            return None if any(isinstance(x, ast.Starred) for x in e.elts) else list(e.elts)
        if isinstance(e, ast.BinOp) and isinstance(e.op, ast.Add):
            l_, r_ = list_elts(e.left, depth), list_elts(e.right, depth)
            return None if l_ is None or r_ is None else l_ + r_
        if isinstance(e, ast.Name) and depth > 0 and nbind.get(e.id) == 1:
            ds = [n for n in walk_no_nested(cs.node) if isinstance(n, ast.Assign) and len(n.targets) == 1 and isinstance(n.targets[0], ast.Name) and n.targets[0].id == e.id]
            touched = any((isinstance(n, ast.Attribute) and isinstance(n.value, ast.Name) and n.value.id == e.id)
                          or (isinstance(n, ast.Subscript) and isinstance(n.ctx, (ast.Store, ast.Del)) and isinstance(n.value, ast.Name) and n.value.id == e.id)
                          for n in walk_no_nested(cs.node))
            if len(ds) == 1 and not touched:
                return list_elts(ds[0].value, depth - 1)
        return None
    outer = [n for n in walk_no_nested(cs.node) if isinstance(n, ast.For) and any(x in so for x in ast.walk(n)) and unparse(n.iter) == 'range(self.data.nparam)']
    ctx.need(len(outer) == 1 and isinstance(outer[0].body[0], ast.For), 'the pairwise loop of _calculate_stats')
    LI, LJ = unparse(outer[0].target), unparse(outer[0].body[0].target)
    okp = unparse(outer[0].body[0].iter) == f'range({LI})'
    key = [n for n in ast.walk(outer[0]) if isinstance(n, ast.Assign) and unparse(n.value) == f'(self.data.betaNames[{LI}], self.data.betaNames[{LJ}])']
    okp = okp and len(key) == 1 and all(unparse(w.targets[0].slice) == unparse(key[0].targets[0]) for w in so)
    ctx.add('C08.R2', 'secondOrderTable:pairs', okp, (cs.file, outer[0].lineno), 'one entry per pair j < i, keyed by the two parameter names' if okp else 'the pairs of the second-order table are no longer (betaNames[i], betaNames[j]) for j < i', 'pairs')
    for w in so:
        elts_ = list_elts(w.value)
        if elts_ is None or len(elts_) not in (8, 12):
            ctx.add('C08.R2', f'secondOrderTable[?]@{w.lineno}', None, (cs.file, w.lineno), f'the entry stored in the second-order table, `{unparse(w.value)[:80]}`, is not a list of 8 or 12 quantities the rule can read', detail=unparse(w.value)[:80])
            continue
        elts = [unparse(e) for e in elts_]
        nfam = len(elts) // 4
        for k in range(nfam):
            fam = FAMILIES[k]
            vc = f'self.data.{fam}varCovar'
            cov, cor, tt, pp = elts[4 * k: 4 * k + 4]
            ok = cov == f'{vc}[{LI}, {LJ}]' and cor == f'self.data.{fam}correlation[{LI}, {LJ}]' and tdefs.get(tt) == ('test', vc, [LI, LJ]) and tdefs.get(pp) == ('p', tt, None)
            # a quantity of another family among the four entries of this family is a contradiction; another spelling is not
            involved = ' '.join([cov, cor, str(tdefs.get(tt)), str(tdefs.get(pp))])
            foreign = sorted({m_ for m_ in re.findall(r'self\.data\.(\w*?)(?:varCovar|correlation)', involved) if m_ != fam})
            chain = tdefs.get(pp) is not None and tdefs.get(pp)[1] != tt and tdefs.get(pp)[1] in tdefs  # the p-value of another test
            bad = bool(foreign) or chain
            ctx.add('C08.R2', f'secondOrderTable[{nfam * 4}]:{FAMNAME[fam]}', ok if (ok or bad) else None, (cs.file, w.lineno),
                    f'entries {4 * k}..{4 * k + 3}: covariance, correlation, test and p-value of the {FAMNAME[fam]} matrix' if ok
                    else (f'entries {4 * k}..{4 * k + 3} = [{cov}, {cor}, {tt}<-{tdefs.get(tt)}, {pp}<-{tdefs.get(pp)}]' + ('' if bad else ': not in the expected form')), detail=f'{cov},{cor},{tdefs.get(tt)},{tdefs.get(pp)}', positive=bad)
    ctx.floor('C08.R2', 12)
    # likelihood ratio test
    lr = prog.func('tools.likelihood_ratio', 'likelihood_ratio_test')
    b = find(lr.node, """
_L1, _D1 = model1
_L2, _D2 = model2
if _L1 > _L2:
    ___
    _LU = _L1
    _LR = _L2
    _DU = _D1
    _DR = _D2
else:
    ___
    _LU = _L2
    _LR = _L1
    _DU = _D2
    _DR = _D1
_S = -2 * (_LR - _LU)
_DF = _DU - _DR
_T = chi2.ppf(1 - significance_level, _DF)
""")
    ok = b is not None
    ctx.add('C08.R1', 'likelihood_ratio_test', ok, lr, 'the model with the larger log likelihood is the unrestricted one; statistic = -2 (L_r - L_u), degrees of freedom = K_u - K_r' if ok else 'the likelihood ratio statistic / roles / degrees of freedom changed', 'lr')
    if ok:
        ok2 = has(lr.node, f'return LRTuple(message=__M, statistic={b["_S"]}, threshold={b["_T"]})')
        ctx.add('C08.R1', 'likelihood_ratio_test:result', ok2, lr, 'the statistic and its threshold are reported under their own names' if ok2 else 'the reported statistic / threshold changed', 'result')
    m = BR.methods['likelihood_ratio_test']
    ok = has(m.node, """
_LR = self.data.logLike
_LU = other_model.data.logLike
_KR = self.data.nparam
_KU = other_model.data.nparam
return biogeme.tools.likelihood_ratio.likelihood_ratio_test((_LU, _KU), (_LR, _KR), significance_level)
""")
    ctx.add('C08.R1', 'bioResults.likelihood_ratio_test', ok, m, 'each model is handed over with its own log likelihood and parameter count' if ok else 'pairing of log likelihood and parameter count changed', 'lrt')
    ctx.floor('C08.R1', 20)

    # ---- R3 labels
    gp = BR.methods['get_estimated_parameters']
    rows = [n for n in walk_no_nested(gp.node) if isinstance(n, ast.For) and unparse(n.iter) == 'self.data.betas' and any(isinstance(x, ast.Dict) for x in ast.walk(n))]
    ctx.need(len(rows) == 1, 'get_estimated_parameters builds one row per element of data.betas')
    bv = unparse(rows[0].target)
    n_lab = 0
    seen_labels = set()
    # the row of the table is the dict handed to `<table>.loc[<parameter>.name] = pd.Series(<row>)`: only what is put into THAT
    # dict is a cell of the table (another dict of the loop is whatever the code uses it for)
    rowvar = None
    for n in ast.walk(rows[0]):
        if isinstance(n, ast.Assign) and len(n.targets) == 1 and isinstance(n.targets[0], ast.Subscript) and isinstance(n.targets[0].value, ast.Attribute) and n.targets[0].value.attr == 'loc' \
                and isinstance(n.value, ast.Call) and dotted(n.value.func) in ('pd.Series', 'pandas.Series') and len(n.value.args) == 1 and isinstance(n.value.args[0], ast.Name):
            rowvar = n.value.args[0].id
    ctx.need(rowvar is not None, 'get_estimated_parameters stores pd.Series(<row dict>) in the table')
    gbind: dict[str, int] = {}
    for n in walk_no_nested(gp.node):
        if isinstance(n, ast.Name) and isinstance(n.ctx, (ast.Store, ast.Del)):
            gbind[n.id] = gbind.get(n.id, 0) + 1

    def literal_dict(name: str):
        """the dict display a local is bound to, when it is bound once and only read afterwards (no method but items / keys /
        values / get, no element store); None otherwise"""
        ds = [n for n in walk_no_nested(gp.node) if isinstance(n, ast.Assign) and len(n.targets) == 1 and isinstance(n.targets[0], ast.Name) and n.targets[0].id == name]
        if gbind.get(name) != 1 or len(ds) != 1 or not isinstance(ds[0].value, ast.Dict) or not ds[0].value.keys or not all(isinstance(k, ast.Constant) and isinstance(k.value, str) for k in ds[0].value.keys):
            return None
        for n in walk_no_nested(gp.node):
            if isinstance(n, ast.Attribute) and isinstance(n.value, ast.Name) and n.value.id == name and n.attr not in ('items', 'keys', 'values', 'get'):
                return None
            if isinstance(n, ast.Subscript) and isinstance(n.ctx, (ast.Store, ast.Del)) and isinstance(n.value, ast.Name) and n.value.id == name:
                return None
        return ds[0].value

    gparent = {id(c): p_ for p_ in ast.walk(rows[0]) for c in ast.iter_child_nodes(p_)}

    def put(e: ast.expr, env: dict) -> ast.expr:
        class Put(ast.NodeTransformer):
            def visit_Name(self, n):
                return copy.deepcopy(env[n.id]) if isinstance(n.ctx, ast.Load) and n.id in env else n

        return ast.fix_missing_locations(Put().visit(copy.deepcopy(e)))

    # (label expression, value expression, line) of every cell put into the row: the pairs of the dict displays bound to the row,
    # the element stores row[label] = value; a store inside `for k, v in D.items()` over a literal dict D is one store per pair of D
    cells_: list = []
    sure = True  # every way the row is filled has been read
    for n in ast.walk(rows[0]):
        if isinstance(n, ast.Assign) and any(isinstance(t, ast.Name) and t.id == rowvar for t_ in n.targets for t in _flat_targets(t_)):
            if len(n.targets) == 1 and isinstance(n.value, ast.Dict):
                cells_ += [(k, v, (k or v).lineno) for k, v in zip(n.value.keys, n.value.values)]
            else:
                cells_.append((None, n.value, n.lineno))
        elif isinstance(n, (ast.AugAssign, ast.AnnAssign)) and isinstance(n.target, ast.Name) and n.target.id == rowvar:
            cells_.append((None, n.value or n.target, n.lineno))
        elif isinstance(n, ast.Call) and isinstance(n.func, ast.Attribute) and isinstance(n.func.value, ast.Name) and n.func.value.id == rowvar:
            # row.update(D): the pairs of D, for D a dict display, a local bound once to one, or {label: cell for k, v in L.items()}
            # over such a literal L (one pair per pair of L); any other method of the row fills cells the rule does not read
            got_ = None
            if n.func.attr == 'update' and len(n.args) == 1 and not n.keywords and isinstance(gparent.get(id(n)), ast.Expr):
                a0 = n.args[0]
                if isinstance(a0, ast.Name):
                    a0 = literal_dict(a0.id)
                if isinstance(a0, ast.Dict):
                    got_ = [(k, v, n.lineno) for k, v in zip(a0.keys, a0.values)]
                elif isinstance(a0, ast.DictComp) and len(a0.generators) == 1 and not a0.generators[0].ifs and not a0.generators[0].is_async:
                    g_ = a0.generators[0]
                    it = g_.iter
                    if isinstance(it, ast.Call) and isinstance(it.func, ast.Attribute) and it.func.attr == 'items' and not it.args and not it.keywords and isinstance(it.func.value, ast.Name) \
                            and isinstance(g_.target, ast.Tuple) and len(g_.target.elts) == 2 and all(isinstance(x, ast.Name) for x in g_.target.elts):
                        lit = literal_dict(it.func.value.id)
                        kn, vn = (x.id for x in g_.target.elts)
                        if lit is not None and kn != vn:
                            got_ = [(put(a0.key, {kn: k, vn: v}), put(a0.value, {kn: k, vn: v}), n.lineno) for k, v in zip(lit.keys, lit.values)]
            elif n.func.attr in ('items', 'keys', 'values', 'get', 'copy'):
                got_ = []  # reads
            cells_ += got_ if got_ is not None else [(None, n, n.lineno)]
        elif isinstance(n, ast.Assign) and len(n.targets) == 1 and isinstance(n.targets[0], ast.Subscript) and isinstance(n.targets[0].value, ast.Name) and n.targets[0].value.id == rowvar:
            envs = [{}]
            loop = gparent.get(id(n))
            if isinstance(loop, (ast.For, ast.While)) and loop is not rows[0]:
                envs = None
                it = getattr(loop, 'iter', None)
                if isinstance(it, ast.Call) and isinstance(it.func, ast.Attribute) and it.func.attr == 'items' and not it.args and not it.keywords and isinstance(it.func.value, ast.Name) \
                        and isinstance(loop.target, ast.Tuple) and len(loop.target.elts) == 2 and all(isinstance(x, ast.Name) for x in loop.target.elts) and not loop.orelse \
                        and not any(isinstance(x, (ast.Break, ast.Continue)) for x in ast.walk(loop)):
                    lit = literal_dict(it.func.value.id)
                    kn, vn = (x.id for x in loop.target.elts)
                    if lit is not None and gbind.get(kn) == 1 and gbind.get(vn) == 1:
                        envs = [{kn: k, vn: v} for k, v in zip(lit.keys, lit.values)]
            if envs is None:
                cells_.append((None, n.value, n.lineno))
            else:
                cells_ += [(put(n.targets[0].slice, env), put(n.value, env), n.lineno) for env in envs]
    for lab_node, val_node, line in cells_:
        if lab_node is None:
            sure = False
            n_lab += 1
            ctx.add('C08.R3', f'get_estimated_parameters[?]@{line}', None, (gp.file, line), f'the row of the parameter table is filled by `{unparse(val_node)[:60]}`, which the rule does not read as (label, cell) pairs', unparse(val_node)[:60])
            continue
        txt, vals = text_parts(inline_defs(gp.node, lab_node))
        if not vals:
            lab = txt
        elif txt == 'Bootstrap[] Std err' and len(vals) == 1:
            lab = 'Bootstrap Std err'
        else:
            lab = None
        if lab == 'Active bound':
            continue
        val = unparse(inline_defs(gp.node, val_node))
        if lab is None:
            # a label whose text is not established is not a label of the table: nothing is contradicted
            sure = False
            n_lab += 1
            ctx.add('C08.R3', f'get_estimated_parameters[{unparse(lab_node)[:30]}]', None, (gp.file, line), f'the label {unparse(lab_node)[:40]} of the cell {val[:40]} is not a text the rule can establish', f'{unparse(lab_node)}:{val.replace(bv + ".", "b.")}')
            continue
        seen_labels.add(lab)
        want = f'{bv}.bootstrap_stdErr' if lab == 'Bootstrap Std err' else (PARAM_LABELS[lab].replace('b.', bv + '.', 1) if lab in PARAM_LABELS else None)
        ok = want is not None and val == want
        n_lab += 1
        # another attribute of the same parameter under this label is a contradiction; anything else is not understood
        other = want is not None and not ok and re.fullmatch(rf'{re.escape(bv)}\.\w+', val) is not None
        ctx.add('C08.R3', f'get_estimated_parameters[{lab}]@{len([x for x in ctx.obligations if x.construct.startswith("get_estimated_parameters[" + lab + "]")])}', ok if (ok or other) else None, (gp.file, line),
                f"'{lab}': {val}" + ('' if ok else (f'; the label names {want}' if other else ': the cell is not in the expected form (an attribute of the parameter)')), f'{lab}:{val.replace(bv + ".", "b.")}', positive=other)
    missing = sorted((set(PARAM_LABELS) | {'Bootstrap Std err'}) - seen_labels)
    ctx.add('C08.R3', 'get_estimated_parameters:labels', True if not missing and sure else None, gp, 'every column of the parameter table is filled in the row loop' if not missing else f'no cell found for the column(s) {missing}', str(missing))
    ok = has(rows[0], f'_T.loc[{bv}.name] = pd.Series({rowvar})') and not any(isinstance(x, (ast.Continue, ast.Break)) for x in ast.walk(rows[0]))
    ctx.add('C08.R3', 'get_estimated_parameters:rows', ok, gp, 'one row per estimated parameter, indexed by its name' if ok else 'rows of the parameter table changed', 'rows')
    gc = BR.methods['get_correlation_results']
    loops = [n for n in walk_no_nested(gc.node) if isinstance(n, ast.For) and unparse(n.iter) == 'self.data.secondOrderTable.items()' and isinstance(n.target, ast.Tuple)]
    ctx.need(len(loops) == 1, 'get_correlation_results iterates the second-order table')
    kv, vv = (unparse(x) for x in loops[0].target.elts)
    crow = None
    for n in ast.walk(loops[0]):
        if isinstance(n, ast.Assign) and isinstance(n.value, ast.Dict) and isinstance(n.targets[0], ast.Name):
            crow = n.targets[0].id
    for n in ast.walk(loops[0]):
        pairs = []
        if isinstance(n, ast.Dict) and n.keys and all(isinstance(k, ast.Constant) for k in n.keys) and len(n.keys) == 8:
            pairs = [(k.value, unparse(v), k.lineno) for k, v in zip(n.keys, n.values)]
        elif isinstance(n, ast.Assign) and isinstance(n.targets[0], ast.Subscript) and unparse(n.targets[0].value) == crow:
            pairs = [(const_value(n.targets[0].slice), unparse(n.value), n.lineno)]
        for lab, val, line in pairs:
            want = f'{vv}[{CORR_LABELS.index(lab)}]' if lab in CORR_LABELS else None
            ok = val == want
            n_lab += 1
            ctx.add('C08.R3', f'get_correlation_results[{lab}]', ok, (gc.file, line), f"'{lab}': {val}" + ('' if ok else f'; the writer stores that quantity at {want}'), f'{lab}:{val.replace(vv, "v")}')
    gs = BR.methods['get_general_statistics']
    dvar = None
    for n in gs.body:
        if isinstance(n, ast.Assign) and isinstance(n.value, ast.Dict) and isinstance(n.targets[0], ast.Name):
            dvar = n.targets[0].id
    nfv = [unparse(n.targets[0]) for n in gs.body if isinstance(n, ast.Assign) and unparse(n.value) == 'self.number_of_free_parameters()']
    for n in walk_no_nested(gs.node):
        lab = val = None
        if isinstance(n, ast.Assign) and isinstance(n.targets[0], ast.Subscript) and unparse(n.targets[0].value) == dvar and isinstance(n.value, ast.Call) and call_name(n.value) == 'GeneralStatistic':
            lab = const_value(n.targets[0].slice)
            val = next((unparse(k.value) for k in n.value.keywords if k.arg == 'value'), None)
            line = n.lineno
        elif isinstance(n, ast.Dict) and n.keys and isinstance(n.values[0], ast.Call) and call_name(n.values[0]) == 'GeneralStatistic':
            lab = const_value(n.keys[0])
            val = next((unparse(k.value) for k in n.values[0].keywords if k.arg == 'value'), None)
            line = n.lineno
        if lab is None or lab == 'Types of draws':
            continue
        want = GENERAL.get(lab)
        if want == 'nf' and nfv:
            want = nfv[0]
        ok = want is not None and val == want
        n_lab += 1
        ctx.add('C08.R3', f'get_general_statistics[{lab}]', ok, (gs.file, line), f"'{lab}': {val}" + ('' if ok else f'; the label names {want}'), f'{lab}:{val if want != (nfv[0] if nfv else None) else "nf"}')
    f12 = BR.methods['get_f12']
    tests = sorted([n for n in walk_no_nested(f12.node) if isinstance(n, ast.If) and unparse(n.test) == 'robust_std_err'], key=lambda x: x.lineno)
    okf = len(tests) == 2
    idx = re.findall(r'self\.data\.secondOrderTable\[\w+\]\[(\d+)\]', unparse(f12.node))
    if okf:
        a, b2 = tests
        okf = has_expr(a.body[0], "_V['Rob. Std err']") and has_expr(a.orelse[0], "_V['Std err']") and has_expr(b2.body[0], 'self.data.secondOrderTable[_N][5]') and has_expr(b2.orelse[0], 'self.data.secondOrderTable[_N][1]')
    ctx.add('C08.R3', 'get_f12', okf, f12, 'robust flag selects the robust std err and entry 5 (robust correlation), otherwise std err and entry 1 (correlation)' if okf else f'F12 columns changed (indices {idx})', str(idx))
    ce = prog.func('results', 'compile_estimation_results')
    rows_ = {
        'estimate row': ("_DF.loc[_B.name, _C] = _B.value", '.value', ''),
        '(std) row': ("_DF.loc[f'{_B.name} (std)', _C] = _B.robust_stdErr", '.robust_stdErr', '(std)'),
        '(ttest) row': ("_DF.loc[f'{_B.name} (ttest)', _C] = _B.robust_tTest", '.robust_tTest', '(ttest)'),
    }

    # every cell written into the compiled table, read as (parameter variable, literal suffix of its row label, value): the row
    # label is the name of a parameter, alone or followed by a literal suffix, however the text is put together
    cells = []
    for n in ast.walk(ce.node):
        if isinstance(n, ast.Assign) and len(n.targets) == 1 and isinstance(n.targets[0], ast.Subscript) and isinstance(n.targets[0].value, ast.Attribute) \
                and n.targets[0].value.attr in ('loc', 'at') and isinstance(n.targets[0].slice, ast.Tuple) and len(n.targets[0].slice.elts) == 2:
            txt, vals = text_parts(inline_defs(ce.node, n.targets[0].slice.elts[0]))
            if len(vals) == 1 and isinstance(vals[0], ast.Attribute) and vals[0].attr == 'name' and isinstance(vals[0].value, ast.Name):
                cells.append((vals[0].value.id, txt.strip(), inline_defs(ce.node, n.value)))
    for what, (pat, attr, suffix) in rows_.items():
        ok = has(ce.node, pat)
        # the attribute of the parameter of the row stored in the cells of this kind of row (None: something else than an attribute of that parameter)
        held = [(v.attr if isinstance(v, ast.Attribute) and isinstance(v.value, ast.Name) and v.value.id == bvar else None, unparse(v)) for bvar, sfx, v in cells if sfx == suffix]
        # positive: the cell holds an attribute of the parameter of its row, and it is not the attribute the row announces
        wrong = [txt_ for a, txt_ in held if a is not None and a != attr[1:]]
        ok = (ok or (bool(held) and all(a == attr[1:] for a, _ in held))) and not wrong
        other = bool(wrong)
        ctx.add('C08.R3', f'compile_estimation_results:{what}', ok if (ok or other) else None, ce, f'{what} holds {attr[1:]}' if ok else (f'{what} holds {wrong[0]}, not {attr[1:]} (robust statistics are announced)' if other else f'{what} of the compiled table is not in the expected form'),
                re.sub(r'^\w+\.', 'b.', (wrong[0] if wrong else (held[0][1] if held else ''))), positive=other)
    _PS = "_S = (f'({_B.robust_stdErr:.3g})' if include_robust_stderr else '') if _B.robust_stdErr is not None else __Q1\n"
    _PT = "_T = (f'({_B.robust_tTest:.3g})' if include_robust_ttest else '') if _B.robust_tTest is not None else __Q2\n"
    _PV = "_V = f'{_B.value:.3g} {_S} {_T}'"
    okfmt = has(ce.node, _PS + _PT + _PV) or has(ce.node, _PT + _PS + _PV) or has(ce.node, _PS + _PT + '___\n' + _PV) or has(ce.node, _PT + _PS + '___\n' + _PV)
    ctx.add('C08.R3', 'compile_estimation_results:formatted', okfmt, ce, 'formatted cell = value (robust std err) (robust t-test)' if okfmt else 'formatted cell of the compiled table changed', 'fmt')
    for fam in FAMILIES:
        m = BR.methods[f'get_{fam}var_covar']
        reads = set(re.findall(r'self\.data\.(\w*varCovar)', unparse(m.node)))
        ok = reads == {f'{fam}varCovar'} and has(m.node, f"""
for _I, _BI in enumerate(self.data.betas):
    for _J, _BJ in enumerate(self.data.betas):
        _VC.at[_BI.name, _BJ.name] = self.data.{fam}varCovar[_I, _J]
""")
        ctx.add('C08.R3', f'get_{fam}var_covar', ok, m, f'returns the {FAMNAME[fam]} matrix, rows and columns named in the order of the parameters' if ok else f'get_{fam}var_covar reads {sorted(reads)}', str(sorted(reads)))
    ctx.floor('C08.R3', 52)  # 10 distinct parameter-table labels + 12 correlation + general statistics + compiled table + matrices


_R = 'src/biogeme/results.py'
MUTANTS = [
    dict(name='BIC uses the number of observations', rule='C08.R1', file=_R, old='            self.data.sampleSize\n        )', new='            self.data.numberOfObservations\n        )'),
    dict(name='AIC sign error', rule='C08.R1', file=_R, old='self.data.akaike = 2.0 * self.data.nparam - 2.0 * self.data.logLike', new='self.data.akaike = 2.0 * self.data.nparam + 2.0 * self.data.logLike'),
    dict(name='rho bar square (null) penalises with the init log likelihood', rule='C08.R1', file=_R,
         old='                    1.0 - (self.data.logLike - self.data.nparam) / self.data.nullLogLike', new='                    1.0 - (self.data.logLike - self.data.nparam) / self.data.initLogLike'),
    dict(name='pairwise test uses +2 cov', rule='C08.R1', file=_R, old='        r = var_i + var_j - 2.0 * covar', new='        r = var_i + var_j + 2.0 * covar'),
    dict(name='p-value one sided', rule='C08.R1', file=_R, old='    p_value = 2.0 * (1.0 - stats.norm.cdf(abs(t)))', new='    p_value = 1.0 - stats.norm.cdf(abs(t))'),
    dict(name='robust matrix is B V B', rule='C08.R1', file=_R,
         old='            self.data.robust_varCovar = self.data.varCovar.dot(\n                self.data.bhhh.dot(self.data.varCovar)\n            )', new='            self.data.robust_varCovar = self.data.bhhh.dot(\n                self.data.varCovar.dot(self.data.bhhh)\n            )'),
    dict(name='bootstrap covariance over columns', rule='C08.R1', file=_R, old='np.cov(self.data.bootstrap, rowvar=False)', new='np.cov(self.data.bootstrap, rowvar=True)'),
    dict(name='pre-fix: bootstrap p-value from the robust t', rule='C08.R2', file=_R, old='        self.bootstrap_pValue = calc_p_value(self.bootstrap_tTest)', new='        self.bootstrap_pValue = calc_p_value(self.robust_tTest)'),
    dict(name='bootstrap std err from the robust matrix', rule='C08.R2', file=_R,
         old='                            np.sqrt(self.data.bootstrap_varCovar[i, i])', new='                            np.sqrt(self.data.robust_varCovar[i, i])'),
    dict(name='bootstrap pairwise test from the robust matrix (seed C08/1)', rule='C08.R2', file=_R,
         old='                        tboot = self._calculate_test(i, j, self.data.bootstrap_varCovar)', new='                        tboot = self._calculate_test(i, j, self.data.robust_varCovar)'),
    dict(name='robust correlation normalised with the classical diagonal', rule='C08.R2', file=_R, old='            rd = np.diag(self.data.robust_varCovar)', new='            rd = np.diag(self.data.varCovar)'),
    dict(name="'Rob. t-test' column holds the p-value", rule='C08.R3', file=_R,
         old="                        'Rob. t-test': b.robust_tTest,\n                        'Rob. p-value': b.robust_pValue,\n                    }\n                else:\n                    arow = {\n                        'Value': b.value,\n                        'Active bound'",
         new="                        'Rob. t-test': b.robust_pValue,\n                        'Rob. p-value': b.robust_pValue,\n                    }\n                else:\n                    arow = {\n                        'Value': b.value,\n                        'Active bound'"),
    dict(name="'Boot. t-test' reads entry 11", rule='C08.R3', file=_R, old="                    arow['Boot. t-test'] = v[10]", new="                    arow['Boot. t-test'] = v[11]"),
    dict(name='general statistics: rho-square label shows rho-bar-square', rule='C08.R3', file=_R,
         old="        d['Rho-square for the init. model'] = GeneralStatistic(\n            value=self.data.rhoSquare, format='.3g'", new="        d['Rho-square for the init. model'] = GeneralStatistic(\n            value=self.data.rhoBarSquare, format='.3g'"),
    dict(name='pre-fix: (std) row holds the estimate', rule='C08.R3', file=_R, old="df.loc[f'{b.name} (std)', col] = b.robust_stdErr", new="df.loc[f'{b.name} (std)', col] = b.value"),
    dict(name='(std) row holds the classical std err (seed C08/2)', rule='C08.R3', file=_R, old="df.loc[f'{b.name} (std)', col] = b.robust_stdErr", new="df.loc[f'{b.name} (std)', col] = b.stdErr"),
    dict(name='F12 robust correlation read at entry 1', rule='C08.R3', file=_R, old='                        corr = int(100000 * self.data.secondOrderTable[name][5])', new='                        corr = int(100000 * self.data.secondOrderTable[name][1])'),
    dict(name='get_robust_var_covar returns the classical matrix', rule='C08.R3', file=_R,
         old='                vc.at[betai.name, betaj.name] = self.data.robust_varCovar[i, j]', new='                vc.at[betai.name, betaj.name] = self.data.varCovar[i, j]'),
    dict(name='LR test: degrees of freedom reversed', rule='C08.R1', file='src/biogeme/tools/likelihood_ratio.py', old='    chi_df = df_ur - df_r', new='    chi_df = df_r - df_ur'),
]
NEUTRAL = [
    dict(name='AIC written -2L + 2K', file=_R, old='self.data.akaike = 2.0 * self.data.nparam - 2.0 * self.data.logLike', new='self.data.akaike = -2.0 * self.data.logLike + 2 * self.data.nparam'),
    dict(name='rho square written (Li - L)/Li', file=_R, old='                np.nan_to_num(1.0 - self.data.logLike / self.data.initLogLike)', new='                np.nan_to_num((self.data.initLogLike - self.data.logLike) / self.data.initLogLike)'),
]
