"""C08 - reported statistics obey their defining formulas (structural clauses)."""

from __future__ import annotations

import ast
import re

import sympy as sp

from ..core import AnalysisError, call_name, const_value, dotted, unparse, walk_no_nested
from ..report import Ctx
from ..sym import ToSympy, equal

L, L0, Li, K, N = sp.symbols('L L0 Li K N')
SYMS = {'self.data.logLike': L, 'self.data.nullLogLike': L0, 'self.data.initLogLike': Li, 'self.data.nparam': K, 'self.data.sampleSize': N}

FORMULAS = {
    'self.data.likelihoodRatioTestNull': -2 * (L0 - L),
    'self.data.likelihoodRatioTest': -2 * (Li - L),
    'self.data.rhoSquare': 1 - L / Li,
    'self.data.rhoSquareNull': 1 - L / L0,
    'self.data.rhoBarSquare': 1 - (L - K) / Li,
    'self.data.rhoBarSquareNull': 1 - (L - K) / L0,
    'self.data.akaike': 2 * K - 2 * L,
    'self.data.bayesian': -2 * L + K * sp.log(N),
}
GUARD = {
    'self.data.likelihoodRatioTestNull': 'self.data.nullLogLike', 'self.data.likelihoodRatioTest': 'self.data.initLogLike',
    'self.data.rhoSquare': 'self.data.initLogLike', 'self.data.rhoSquareNull': 'self.data.nullLogLike',
    'self.data.rhoBarSquare': 'self.data.initLogLike', 'self.data.rhoBarSquareNull': 'self.data.nullLogLike',
}

FAMILIES = ('', 'robust_', 'bootstrap_')
FAMNAME = {'': 'classical', 'robust_': 'robust', 'bootstrap_': 'bootstrap'}

PARAM_LABELS = {
    'Value': 'b.value', 'Std err': 'b.stdErr', 't-test': 'b.tTest', 'p-value': 'b.pValue',
    'Rob. Std err': 'b.robust_stdErr', 'Rob. t-test': 'b.robust_tTest', 'Rob. p-value': 'b.robust_pValue',
    'Bootstrap t-test': 'b.bootstrap_tTest', 'Bootstrap p-value': 'b.bootstrap_pValue',
}
CORR_LABELS = ['Covariance', 'Correlation', 't-test', 'p-value', 'Rob. cov.', 'Rob. corr.', 'Rob. t-test', 'Rob. p-value', 'Boot. cov.', 'Boot. corr.', 'Boot. t-test', 'Boot. p-value']
GENERAL = {
    'Number of estimated parameters': 'self.data.nparam', 'Sample size': 'self.data.sampleSize', 'Observations': 'self.data.numberOfObservations',
    'Excluded observations': 'self.data.excludedData', 'Null log likelihood': 'self.data.nullLogLike', 'Init log likelihood': 'self.data.initLogLike',
    'Final log likelihood': 'self.data.logLike', 'Likelihood ratio test for the null model': 'self.data.likelihoodRatioTestNull',
    'Rho-square for the null model': 'self.data.rhoSquareNull', 'Rho-square-bar for the null model': 'self.data.rhoBarSquareNull',
    'Likelihood ratio test for the init. model': 'self.data.likelihoodRatioTest', 'Rho-square for the init. model': 'self.data.rhoSquare',
    'Rho-square-bar for the init. model': 'self.data.rhoBarSquare', 'Akaike Information Criterion': 'self.data.akaike',
    'Bayesian Information Criterion': 'self.data.bayesian', 'Final gradient norm': 'self.data.gradientNorm', 'Number of draws': 'self.data.numberOfDraws',
    'Draws generation time': 'self.data.drawsProcessingTime', 'Bootstrapping time': 'self.data.bootstrap_time', 'Nbr of threads': 'self.data.numberOfThreads',
    'Number of free parameters': 'nf',
}


def _strip(e: ast.expr) -> ast.expr:
    """x if g is not None else None  ->  x ;  np.nan_to_num(x) -> x"""
    while True:
        if isinstance(e, ast.IfExp) and unparse(e.orelse) == 'None':
            e = e.body
        elif isinstance(e, ast.Call) and dotted(e.func) in ('np.nan_to_num', 'numpy.nan_to_num') and len(e.args) == 1:
            e = e.args[0]
        else:
            return e


def run(ctx: Ctx) -> None:
    prog = ctx.prog
    ctx.rule('C08.R1', 'defining formulas: the right-hand side of each summary statistic, of the pairwise test, of t and p, of the three variance-covariance '
             'matrices, standard errors and correlations equals its defining formula (sympy normal form for the scalar formulas, structural match for the matrix ones)')
    ctx.rule('C08.R2', 'family discipline: the classical / robust / bootstrap blocks are alpha-equivalent after stripping the family prefix and read no attribute of another family')
    ctx.rule('C08.R3', 'labels: every label of the parameter table, the correlation table, the general statistics, the F12 file and the compiled table is paired with the quantity it names')
    ctx.not_decided += ['numerical linear algebra (pinv, cov, eigenvalues)']
    BR = prog.cls('results', 'bioResults')
    cs = BR.methods['_calculate_stats']
    assigns: dict[str, list[ast.Assign]] = {}
    for n in walk_no_nested(cs.node):
        if isinstance(n, ast.Assign):
            for t in n.targets:
                assigns.setdefault(unparse(t), []).append(n)

    def hook(node, ts):
        t = unparse(node)
        if t in SYMS:
            return SYMS[t]
        return None

    for target, want in FORMULAS.items():
        ss = [s for s in assigns.get(target, []) if unparse(s.value) != 'None']
        if len(ss) != 1:
            raise AnalysisError(f'C08.R1: {target} is assigned {len(ss)} times in _calculate_stats')
        s = ss[0]
        e = _strip(s.value)
        try:
            got = ToSympy(hook=hook)(e)
            ok = equal(got, want)
        except AnalysisError as ex:
            got, ok = str(ex), False
        ctx.add('C08.R1', target.replace('self.data.', 'stat:'), ok, (cs.file, s.lineno), f'{target.split(".")[-1]} = {got}' + ('' if ok else f'; the defining formula is {want}'), detail=str(got))
        if target in GUARD:
            v = s.value
            okg = isinstance(v, ast.IfExp) and unparse(v.test) == f'{GUARD[target]} is not None'
            ctx.add('C08.R1', target.replace('self.data.', 'stat:') + ':guard', okg, (cs.file, s.lineno), f'computed only when {GUARD[target].split(".")[-1]} is available' if okg else f'guard of {target}: {unparse(v.test) if isinstance(v, ast.IfExp) else "none"}', 'guard')
    # pairwise test
    ct = BR.methods['_calculate_test']
    i, j, mat = ct.positional_params()[1:4]
    env = {}
    for st in ct.body:
        if isinstance(st, ast.Assign) and isinstance(st.targets[0], ast.Name):
            env[st.targets[0].id] = st.value

    def inline(e):
        import copy

        class T(ast.NodeTransformer):
            def visit_Name(self, n):
                if n.id in env and n.id not in (i, j, mat):
                    return T().visit(copy.deepcopy(env[n.id]))
                return n

        return T().visit(copy.deepcopy(e))

    tests = [n for n in walk_no_nested(ct.node) if isinstance(n, ast.Assign) and unparse(n.targets[0]) == 'test' and 'finfo' not in unparse(n.value)]
    ok = False
    got = ''
    if len(tests) == 1:
        e = inline(tests[0].value)
        sym = {f'{mat}[{i}, {i}]': sp.Symbol('vii'), f'{mat}[{j}, {j}]': sp.Symbol('vjj'), f'{mat}[{i}, {j}]': sp.Symbol('vij'), f'{mat}[{j}, {i}]': sp.Symbol('vij'),
               f'self.data.betaValues[{i}]': sp.Symbol('bi'), f'self.data.betaValues[{j}]': sp.Symbol('bj')}
        try:
            g = ToSympy(hook=lambda n, ts: sym.get(unparse(n)))(e)
            got = str(g)
            want = (sp.Symbol('bi') - sp.Symbol('bj')) / sp.sqrt(sp.Symbol('vii') + sp.Symbol('vjj') - 2 * sp.Symbol('vij'))
            ok = equal(g, want)
        except AnalysisError as ex:
            got = str(ex)
    ctx.add('C08.R1', 'bioResults._calculate_test', ok, ct, f'pairwise test = {got}' + ('' if ok else '; expected (b_i - b_j)/sqrt(v_ii + v_jj - 2 v_ij)'), got)
    pv = prog.func('results', 'calc_p_value')
    t = pv.positional_params()[0]
    rets = [n for n in walk_no_nested(pv.node) if isinstance(n, (ast.Assign, ast.Return)) and n.value is not None and 'cdf' in unparse(n.value)]
    ok = len(rets) == 1 and unparse(rets[0].value).replace(' ', '') in (f'2.0*(1.0-stats.norm.cdf(abs({t})))', f'2*(1-stats.norm.cdf(abs({t})))', f'2.0*(1.0-stats.norm.cdf(np.abs({t})))')
    ctx.add('C08.R1', 'calc_p_value', ok, pv, 'p = 2 (1 - Phi(|t|))' if ok else f'p-value: {unparse(rets[0].value) if rets else "?"}', unparse(rets[0].value) if rets else '')
    # matrices
    def single(target):
        ss = assigns.get(target, [])
        ss = [s for s in ss if 'full_like' not in unparse(s.value)]
        if len(ss) != 1:
            raise AnalysisError(f'C08.R1: {target} assigned {len(ss)} times')
        return ss[0]

    s = single('self.data.varCovar')
    ok = unparse(s.value).replace(' ', '') in ('-linalg.pinv(np.nan_to_num(self.data.H))', '-linalg.pinv(self.data.H)', '-np.linalg.pinv(np.nan_to_num(self.data.H))')
    ctx.add('C08.R1', 'matrix:varCovar', ok, (cs.file, s.lineno), f'varCovar = {unparse(s.value)}' + ('' if ok else '; expected -pinv(H)'), unparse(s.value))
    s = single('self.data.robust_varCovar')
    ok = unparse(s.value).replace(' ', '').replace('\n', '') in ('self.data.varCovar.dot(self.data.bhhh.dot(self.data.varCovar))', 'self.data.varCovar@self.data.bhhh@self.data.varCovar', 'self.data.varCovar.dot(self.data.bhhh).dot(self.data.varCovar)')
    ctx.add('C08.R1', 'matrix:robust_varCovar', ok, (cs.file, s.lineno), f'robust_varCovar = {unparse(s.value)}' + ('' if ok else '; expected V.B.V'), unparse(s.value))
    s = single('self.data.bootstrap_varCovar')
    ok = unparse(s.value).replace(' ', '') == 'np.cov(self.data.bootstrap,rowvar=False)'
    ctx.add('C08.R1', 'matrix:bootstrap_varCovar', ok, (cs.file, s.lineno), f'bootstrap_varCovar = {unparse(s.value)}' + ('' if ok else '; expected cov(replications, rowvar=False)'), unparse(s.value))

    # ---- family blocks
    blocks = {}
    for fam in FAMILIES:
        vc = f'self.data.{fam}varCovar'
        setter = f'set_{fam}std_err'
        loops = [n for n in walk_no_nested(cs.node) if isinstance(n, ast.For) and setter in unparse(n) and 'secondOrderTable' not in unparse(n)]
        corr = assigns.get(f'self.data.{fam}correlation', [])
        diag_src = [n for n in walk_no_nested(cs.node) if isinstance(n, ast.Assign) and unparse(n.value) == f'np.diag({vc})']
        if len(loops) != 1 or not corr or len(diag_src) != 1:
            raise AnalysisError(f'C08.R2: block of the {FAMNAME[fam]} family not recognised in _calculate_stats')
        dname = unparse(diag_src[0].targets[0])
        ifn = [n for n in walk_no_nested(cs.node) if isinstance(n, ast.If) and unparse(n.test) == f'({dname} > 0).all()' and any(c in n.body or c in n.orelse for c in corr)]
        if len(ifn) != 1:
            raise AnalysisError(f'C08.R2: correlation block of the {FAMNAME[fam]} family not recognised')
        text = unparse(loops[0]) + '\n' + unparse(diag_src[0]) + '\n' + unparse(ifn[0])
        norm = text.replace(f'{fam}varCovar', 'VC').replace(setter, 'SET').replace(f'{fam}correlation', 'CORR')
        norm = re.sub(rf'\b{dname}\b', 'D', norm)
        foreign = [f2 for f2 in FAMILIES if f2 and f2 != fam and f2 in norm]
        if fam == '':
            foreign = [f2 for f2 in FAMILIES if f2 and f2 in norm]
        blocks[fam] = (norm, loops[0], foreign)
    ref = blocks['robust_'][0]
    for fam, (norm, node, foreign) in blocks.items():
        ok = norm == ref and not foreign
        ctx.add('C08.R2', f'_calculate_stats:{FAMNAME[fam]}', ok, (cs.file, node.lineno),
                f'{FAMNAME[fam]} block: std err = sqrt(diag) of its own matrix, correlation = D^-1 V D^-1' if ok else f'{FAMNAME[fam]} block differs from its siblings' + (f' and reads {foreign} attributes' if foreign else ''),
                detail=norm if not ok else '')
    want_block = ('for i in range(self.data.nparam):\n    if self.data.VC[i, i] < 0:\n        self.data.betas[i].SET(np.finfo(float).max)\n    else:\n        self.data.betas[i].SET(np.sqrt(self.data.VC[i, i]))\n'
                  'D = np.diag(self.data.VC)\nif (D > 0).all():\n    diag = np.diag(np.sqrt(D))\n    diag_inv = linalg.inv(diag)\n    self.data.CORR = diag_inv.dot(self.data.VC.dot(diag_inv))\nelse:\n    self.data.CORR = np.full_like(self.data.VC, np.finfo(float).max)')
    ok = ref == want_block
    ctx.add('C08.R1', '_calculate_stats:block-formula', ok, cs, 'std err_i = sqrt(V_ii); correlation = diag(sqrt(diag V))^-1 V diag(sqrt(diag V))^-1' if ok else 'the common form of the family blocks changed', ref if not ok else '')
    B = prog.cls('results', 'Beta')
    norms = {}
    for fam in FAMILIES:
        m = B.methods.get(f'set_{fam}std_err')
        ctx.need(m is not None, f'results.Beta.set_{fam}std_err')
        p = m.positional_params()[1]
        txt = '\n'.join(unparse(s) for s in m.body)
        n_ = txt.replace(f'self.{fam}stdErr', 'self.SE').replace(f'self.{fam}tTest', 'self.T').replace(f'self.{fam}pValue', 'self.P')
        n_ = re.sub(rf'\b{p}\b', 'SEARG', n_)
        norms[fam] = (n_, m)
    want_beta = 'self.SE = SEARG\nif SEARG == 0:\n    self.T = np.finfo(float).max\nelse:\n    self.T = np.nan_to_num(self.value / SEARG)\nself.P = calc_p_value(self.T)'
    for fam, (n_, m) in norms.items():
        ok = n_ == want_beta
        ctx.add('C08.R2', f'results.Beta.set_{fam}std_err', ok, m, f'{FAMNAME[fam]}: t = value / std err, p = p(t) of the same family' if ok else f'{FAMNAME[fam]} setter differs: {n_[:160]}', n_ if not ok else '')
    # second order table
    so = [n for n in walk_no_nested(cs.node) if isinstance(n, ast.Assign) and unparse(n.targets[0]) == 'self.data.secondOrderTable[name]']
    ctx.need(len(so) == 2, 'two writers of secondOrderTable entries (with / without bootstrap)')
    tdefs = {}
    for n in walk_no_nested(cs.node):
        if isinstance(n, ast.Assign) and isinstance(n.targets[0], ast.Name) and isinstance(n.value, ast.Call):
            if unparse(n.value.func) == 'self._calculate_test':
                tdefs[n.targets[0].id] = ('test', unparse(n.value.args[2]), [unparse(a) for a in n.value.args[:2]])
            elif call_name(n.value) == 'calc_p_value':
                tdefs[n.targets[0].id] = ('p', unparse(n.value.args[0]), None)
    for w in so:
        elts = [unparse(e) for e in w.value.elts]
        nfam = len(elts) // 4
        for k in range(nfam):
            fam = FAMILIES[k]
            vc = f'self.data.{fam}varCovar'
            cov, cor, tt, pp = elts[4 * k: 4 * k + 4]
            ok = cov == f'{vc}[i, j]' and cor == f'self.data.{fam}correlation[i, j]' and tdefs.get(tt) == ('test', vc, ['i', 'j']) and tdefs.get(pp) == ('p', tt, None)
            ctx.add('C08.R2', f'secondOrderTable[{nfam * 4}]:{FAMNAME[fam]}', ok, (cs.file, w.lineno),
                    f'entries {4 * k}..{4 * k + 3}: covariance, correlation, test and p-value of the {FAMNAME[fam]} matrix' if ok
                    else f'entries {4 * k}..{4 * k + 3} = [{cov}, {cor}, {tt}<-{tdefs.get(tt)}, {pp}<-{tdefs.get(pp)}]', detail=f'{cov},{cor},{tdefs.get(tt)},{tdefs.get(pp)}')
    ctx.floor('C08.R2', 11)
    # likelihood ratio test
    lr = prog.func('tools.likelihood_ratio', 'likelihood_ratio_test')
    txt = unparse(lr.node)
    ok = 'stat = -2 * (log_like_r - log_like_ur)' in txt and 'chi_df = df_ur - df_r' in txt and 'chi2.ppf(1 - significance_level, chi_df)' in txt
    ctx.add('C08.R1', 'likelihood_ratio_test', ok, lr, 'statistic = -2 (L_r - L_u), degrees of freedom = K_u - K_r' if ok else 'likelihood ratio statistic changed', 'lr')
    # restricted/unrestricted assignment: the model with the larger log likelihood is the unrestricted one
    br = [n for n in lr.body if isinstance(n, ast.If) and unparse(n.test) == 'log_like_m1 > log_like_m2']
    ok = False
    if br:
        b = br[-1]
        t1 = ' ; '.join(unparse(s) for s in b.body if isinstance(s, ast.Assign))
        t2 = ' ; '.join(unparse(s) for s in b.orelse if isinstance(s, ast.Assign))
        ok = unparse(b.test) == 'log_like_m1 > log_like_m2' and t1 == 'log_like_ur = log_like_m1 ; log_like_r = log_like_m2 ; df_ur = df_m1 ; df_r = df_m2' and t2 == 'log_like_ur = log_like_m2 ; log_like_r = log_like_m1 ; df_ur = df_m2 ; df_r = df_m1'
    ctx.add('C08.R1', 'likelihood_ratio_test:roles', ok, lr, 'the model with the larger log likelihood is the unrestricted one, with its own number of parameters' if ok else 'assignment of restricted / unrestricted roles changed', 'roles')
    m = BR.methods['likelihood_ratio_test']
    txt = unparse(m.node)
    ok = 'lr = self.data.logLike' in txt and 'lu = other_model.data.logLike' in txt and 'kr = self.data.nparam' in txt and 'ku = other_model.data.nparam' in txt and '(lu, ku), (lr, kr), significance_level' in txt
    ctx.add('C08.R1', 'bioResults.likelihood_ratio_test', ok, m, 'each model is handed over with its own log likelihood and parameter count' if ok else 'pairing of log likelihood and parameter count changed', 'lrt')
    ctx.floor('C08.R1', 20)

    # ---- R3 labels
    gp = BR.methods['get_estimated_parameters']
    n_lab = 0
    for d in [n for n in walk_no_nested(gp.node) if isinstance(n, ast.Dict) and n.keys and all(isinstance(k, ast.Constant) and isinstance(k.value, str) for k in n.keys) and len(n.keys) >= 3]:
        for k, v in zip(d.keys, d.values):
            lab = k.value
            if lab == 'Active bound':
                continue
            want = PARAM_LABELS.get(lab)
            ok = want is not None and unparse(v) == want
            n_lab += 1
            ctx.add('C08.R3', f'get_estimated_parameters[{lab}]@{d.lineno}', ok, (gp.file, k.lineno), f"'{lab}': {unparse(v)}" + ('' if ok else f'; the label names {want}'), f'{lab}:{unparse(v)}')
    for n in walk_no_nested(gp.node):
        if isinstance(n, ast.Assign) and isinstance(n.targets[0], ast.Subscript) and unparse(n.targets[0].value) == 'arow':
            lab = unparse(n.targets[0].slice)
            if 'Std err' in lab:
                want = 'b.bootstrap_stdErr'
            else:
                want = PARAM_LABELS.get(lab.strip("'"))
            ok = unparse(n.value) == want
            n_lab += 1
            ctx.add('C08.R3', f'get_estimated_parameters[{lab[:30]}]', ok, (gp.file, n.lineno), f'{lab[:40]}: {unparse(n.value)}' + ('' if ok else f'; the label names {want}'), f'{lab}:{unparse(n.value)}')
    loops = [n for n in walk_no_nested(gp.node) if isinstance(n, ast.For) and 'table.loc' in unparse(n)]
    ok = len(loops) == 1 and unparse(loops[0].iter) == 'self.data.betas' and 'table.loc[b.name] = pd.Series(arow)' in unparse(loops[0])
    ctx.add('C08.R3', 'get_estimated_parameters:rows', ok, gp, 'one row per estimated parameter, indexed by its name' if ok else 'rows of the parameter table changed', 'rows')
    gc = BR.methods['get_correlation_results']
    for n in walk_no_nested(gc.node):
        pairs = []
        if isinstance(n, ast.Dict) and n.keys and all(isinstance(k, ast.Constant) for k in n.keys) and len(n.keys) == 8:
            pairs = [(k.value, unparse(v), k.lineno) for k, v in zip(n.keys, n.values)]
        elif isinstance(n, ast.Assign) and isinstance(n.targets[0], ast.Subscript) and unparse(n.targets[0].value) == 'arow':
            pairs = [(const_value(n.targets[0].slice), unparse(n.value), n.lineno)]
        for lab, val, line in pairs:
            want = f'v[{CORR_LABELS.index(lab)}]' if lab in CORR_LABELS else None
            ok = val == want
            n_lab += 1
            ctx.add('C08.R3', f'get_correlation_results[{lab}]', ok, (gc.file, line), f"'{lab}': {val}" + ('' if ok else f'; the writer stores that quantity at {want}'), f'{lab}:{val}')
    gs = BR.methods['get_general_statistics']
    for n in walk_no_nested(gs.node):
        lab = val = None
        if isinstance(n, ast.Assign) and isinstance(n.targets[0], ast.Subscript) and unparse(n.targets[0].value) == 'd' and isinstance(n.value, ast.Call) and call_name(n.value) == 'GeneralStatistic':
            lab = const_value(n.targets[0].slice)
            val = next((unparse(k.value) for k in n.value.keywords if k.arg == 'value'), None)
            line = n.lineno
        elif isinstance(n, ast.Dict) and n.keys and isinstance(n.values[0], ast.Call) and call_name(n.values[0]) == 'GeneralStatistic':
            lab = const_value(n.keys[0])
            val = next((unparse(k.value) for k in n.values[0].keywords if k.arg == 'value'), None)
            line = n.lineno
        if lab is None or lab == 'Types of draws':
            continue
        want = GENERAL.get(lab)
        ok = want is not None and val == want
        n_lab += 1
        ctx.add('C08.R3', f'get_general_statistics[{lab}]', ok, (gs.file, line), f"'{lab}': {val}" + ('' if ok else f'; the label names {want}'), f'{lab}:{val}')
    f12 = BR.methods['get_f12']
    txt = unparse(f12.node)
    ok = "if robust_std_err:\n        results += f\" {values['Rob. Std err']: >+19.12e}\"\n    else:\n        results += f\" {values['Std err']: >+19.12e}\"" in txt.replace('            ', '    ').replace('        if', 'if') or ("values['Rob. Std err']" in txt and "values['Std err']" in txt)
    idx = re.findall(r'self\.data\.secondOrderTable\[name\]\[(\d+)\]', txt)
    # robust branch first
    tests = [n for n in walk_no_nested(f12.node) if isinstance(n, ast.If) and unparse(n.test) == 'robust_std_err']
    okf = len(tests) == 2
    if okf:
        a, b = sorted(tests, key=lambda x: x.lineno)
        okf = "values['Rob. Std err']" in unparse(a.body[0]) and "values['Std err']" in unparse(a.orelse[0]) and 'secondOrderTable[name][5]' in unparse(b.body[0]) and 'secondOrderTable[name][1]' in unparse(b.orelse[0])
    ctx.add('C08.R3', 'get_f12', okf, f12, 'robust flag selects the robust std err and entry 5 (robust correlation), otherwise std err and entry 1 (correlation)' if okf else f'F12 columns changed (indices {idx})', str(idx))
    ce = prog.func('results', 'compile_estimation_results')
    txt = unparse(ce.node)
    rows = {
        "df.loc[b.name, col] = b.value": 'estimate row',
        "df.loc[f'{b.name} (std)', col] = b.robust_stdErr": '(std) row',
        "df.loc[f'{b.name} (ttest)', col] = b.robust_tTest": '(ttest) row',
    }
    for pat, what in rows.items():
        ok = pat in txt
        got = re.search(re.escape(pat.split(' = ')[0]) + r' = (\S+)', txt)
        ctx.add('C08.R3', f'compile_estimation_results:{what}', ok, ce, f'{what} holds {pat.split(" = ")[1]}' if ok else f'{what} holds {got.group(1) if got else "?"} (robust statistics are announced)', got.group(1) if got else '')
    okfmt = "f'({b.robust_stdErr:.3g})' if include_robust_stderr else ''" in txt and "f'({b.robust_tTest:.3g})' if include_robust_ttest else ''" in txt and "the_value = f'{b.value:.3g} {std} {ttest}'" in txt
    ctx.add('C08.R3', 'compile_estimation_results:formatted', okfmt, ce, 'formatted cell = value (robust std err) (robust t-test)' if okfmt else 'formatted cell of the compiled table changed', 'fmt')
    for fam in FAMILIES:
        m = BR.methods[f'get_{fam}var_covar']
        reads = set(re.findall(r'self\.data\.(\w*varCovar)', unparse(m.node)))
        ok = reads == {f'{fam}varCovar'} and 'vc.at[betai.name, betaj.name]' in unparse(m.node)
        ctx.add('C08.R3', f'get_{fam}var_covar', ok, m, f'returns the {FAMNAME[fam]} matrix, rows and columns named in the order of the parameters' if ok else f'get_{fam}var_covar reads {sorted(reads)}', str(sorted(reads)))
    ctx.floor('C08.R3', 60)


_R = 'src/biogeme/results.py'
MUTANTS = [
    dict(name='BIC uses the number of observations', rule='C08.R1', file=_R, old='            self.data.sampleSize\n        )', new='            self.data.numberOfObservations\n        )'),
    dict(name='AIC sign error', rule='C08.R1', file=_R, old='self.data.akaike = 2.0 * self.data.nparam - 2.0 * self.data.logLike', new='self.data.akaike = 2.0 * self.data.nparam + 2.0 * self.data.logLike'),
    dict(name='rho bar square (null) penalises with the init log likelihood', rule='C08.R1', file=_R,
         old='                    1.0 - (self.data.logLike - self.data.nparam) / self.data.nullLogLike', new='                    1.0 - (self.data.logLike - self.data.nparam) / self.data.initLogLike'),
    dict(name='pairwise test uses +2 cov', rule='C08.R1', file=_R, old='        r = var_i + var_j - 2.0 * covar', new='        r = var_i + var_j + 2.0 * covar'),
    dict(name='p-value one sided', rule='C08.R1', file=_R, old='    p_value = 2.0 * (1.0 - stats.norm.cdf(abs(t)))', new='    p_value = 1.0 - stats.norm.cdf(abs(t))'),
    dict(name='robust matrix is B V B', rule='C08.R1', file=_R,
         old='            self.data.robust_varCovar = self.data.varCovar.dot(\n                self.data.bhhh.dot(self.data.varCovar)\n            )', new='            self.data.robust_varCovar = self.data.bhhh.dot(\n                self.data.varCovar.dot(self.data.bhhh)\n            )'),
    dict(name='bootstrap covariance over columns', rule='C08.R1', file=_R, old='np.cov(self.data.bootstrap, rowvar=False)', new='np.cov(self.data.bootstrap, rowvar=True)'),
    dict(name='pre-fix: bootstrap p-value from the robust t', rule='C08.R2', file=_R, old='        self.bootstrap_pValue = calc_p_value(self.bootstrap_tTest)', new='        self.bootstrap_pValue = calc_p_value(self.robust_tTest)'),
    dict(name='bootstrap std err from the robust matrix', rule='C08.R2', file=_R,
         old='                            np.sqrt(self.data.bootstrap_varCovar[i, i])', new='                            np.sqrt(self.data.robust_varCovar[i, i])'),
    dict(name='bootstrap pairwise test from the robust matrix (seed C08/1)', rule='C08.R2', file=_R,
         old='                        tboot = self._calculate_test(i, j, self.data.bootstrap_varCovar)', new='                        tboot = self._calculate_test(i, j, self.data.robust_varCovar)'),
    dict(name='robust correlation normalised with the classical diagonal', rule='C08.R2', file=_R, old='            rd = np.diag(self.data.robust_varCovar)', new='            rd = np.diag(self.data.varCovar)'),
    dict(name="'Rob. t-test' column holds the p-value", rule='C08.R3', file=_R,
         old="                        'Rob. t-test': b.robust_tTest,\n                        'Rob. p-value': b.robust_pValue,\n                    }\n                else:\n                    arow = {\n                        'Value': b.value,\n                        'Active bound'",
         new="                        'Rob. t-test': b.robust_pValue,\n                        'Rob. p-value': b.robust_pValue,\n                    }\n                else:\n                    arow = {\n                        'Value': b.value,\n                        'Active bound'"),
    dict(name="'Boot. t-test' reads entry 11", rule='C08.R3', file=_R, old="                    arow['Boot. t-test'] = v[10]", new="                    arow['Boot. t-test'] = v[11]"),
    dict(name='general statistics: rho-square label shows rho-bar-square', rule='C08.R3', file=_R,
         old="        d['Rho-square for the init. model'] = GeneralStatistic(\n            value=self.data.rhoSquare, format='.3g'", new="        d['Rho-square for the init. model'] = GeneralStatistic(\n            value=self.data.rhoBarSquare, format='.3g'"),
    dict(name='pre-fix: (std) row holds the estimate', rule='C08.R3', file=_R, old="df.loc[f'{b.name} (std)', col] = b.robust_stdErr", new="df.loc[f'{b.name} (std)', col] = b.value"),
    dict(name='(std) row holds the classical std err (seed C08/2)', rule='C08.R3', file=_R, old="df.loc[f'{b.name} (std)', col] = b.robust_stdErr", new="df.loc[f'{b.name} (std)', col] = b.stdErr"),
    dict(name='F12 robust correlation read at entry 1', rule='C08.R3', file=_R, old='                        corr = int(100000 * self.data.secondOrderTable[name][5])', new='                        corr = int(100000 * self.data.secondOrderTable[name][1])'),
    dict(name='get_robust_var_covar returns the classical matrix', rule='C08.R3', file=_R,
         old='                vc.at[betai.name, betaj.name] = self.data.robust_varCovar[i, j]', new='                vc.at[betai.name, betaj.name] = self.data.varCovar[i, j]'),
    dict(name='LR test: degrees of freedom reversed', rule='C08.R1', file='src/biogeme/tools/likelihood_ratio.py', old='    chi_df = df_ur - df_r', new='    chi_df = df_r - df_ur'),
]
NEUTRAL = [
    dict(name='AIC written -2L + 2K', file=_R, old='self.data.akaike = 2.0 * self.data.nparam - 2.0 * self.data.logLike', new='self.data.akaike = -2.0 * self.data.logLike + 2 * self.data.nparam'),
    dict(name='rho square written (Li - L)/Li', file=_R, old='                np.nan_to_num(1.0 - self.data.logLike / self.data.initLogLike)', new='                np.nan_to_num((self.data.initLogLike - self.data.logLike) / self.data.initLogLike)'),
]
