"""C15 - the saved-iteration file is always a sound restart point."""

from __future__ import annotations

import ast
import re

from ..cfg import cfg_of
from ..core import inline_locals, named_args, seq, AnalysisError, call_name, const_value, dotted, unparse, walk_no_nested
from ..pattern import body_is, find, has
from ..report import Ctx


#: obligations whose failure contradicts the property (rule, construct pattern, why); every other failure is 'not recognised'
POSITIVE: list[tuple[str, str, str]] = [
]


def run(ctx: Ctx) -> None:
    ctx.positive_table = list(POSITIVE)
    prog = ctx.prog
    ctx.rule('C15.R1', 'atomic replace: the iteration file is never opened for writing; the writer fills a uniquely named temporary file in the same directory, '
             'closes it, and os.replace()s it onto the iteration file (a crash leaves the old complete file or the new complete file)')
    ctx.rule('C15.R2', 'exact lines: one "name = value" line per element of enumerate(x) with name = free_betas.names[i] and the value formatted losslessly '
             '(no format spec / !r / repr: the shortest round-trip representation); the reader splits on the same separator and float()s the value')
    ctx.rule('C15.R3', 'best-so-far typestate: the write is guarded by finite derivatives and f >= bestIteration, every path that writes also assigns '
             'bestIteration = f, and estimate resets the marker after the starting point is evaluated and before optimising')
    ctx.rule('C15.R4', 'estimation data only: no optimisation runs on resampled data with saving enabled (saving is switched off around the bootstrap loop and switched back on all exits)')
    ctx.rule('C15.R5', 'restart: under save_iterations the saved values are loaded and written to the formulas and to free_betas_values before the optimiser is started from free_betas_values')
    B = prog.cls('biogeme', 'BIOGEME')
    f = B.methods['calculate_likelihood_and_derivatives']
    cfg = cfg_of(f.node)
    fn = B.methods['_save_iterations_file_name']
    iter_name = 'self._save_iterations_file_name()'
    # ---- R1
    opens = [c for c in walk_no_nested(f.node) if isinstance(c, ast.Call) and dotted(c.func) in ('open', 'os.fdopen', 'io.open')]
    direct = [c for c in opens if dotted(c.func) != 'os.fdopen' and c.args and (unparse(c.args[0]) == iter_name or _is_alias(f, unparse(c.args[0]), iter_name))]
    ctx.add('C15.R1', 'iter-writer:no-direct-open', not direct, (f.file, direct[0].lineno if direct else f.line),
            'the iteration file itself is never opened for writing' if not direct else 'the iteration file is opened for writing in place: a process stopped while saving leaves a truncated file', 'direct')
    mk = [n for n in walk_no_nested(f.node) if isinstance(n, ast.Assign) and isinstance(n.value, ast.Call) and dotted(n.value.func) in ('tempfile.mkstemp', 'mkstemp')]
    rep = [c for c in walk_no_nested(f.node) if isinstance(c, ast.Call) and dotted(c.func) in ('os.replace', 'os.rename')]
    ok = len(mk) == 1 and len(rep) == 1 and isinstance(mk[0].targets[0], ast.Tuple)
    if ok:
        fd, tmp = (unparse(x) for x in mk[0].targets[0].elts)
        kw = named_args(mk[0].value)
        same_dir = 'dir' in kw and 'os.path.dirname' in kw['dir']
        w = [c for c in opens if dotted(c.func) == 'os.fdopen' and unparse(c.args[0]) == fd]
        dst = unparse(rep[0].args[1])
        ok = same_dir and len(w) == 1 and unparse(rep[0].args[0]) == tmp and (dst == iter_name or _is_alias(f, dst, iter_name))
        if ok:
            withs = [n for n in walk_no_nested(f.node) if isinstance(n, ast.With) and any(it.context_expr is w[0] for it in n.items)]
            ok = len(withs) == 1 and not any(x is rep[0] for x in ast.walk(withs[0])) and cfg.dominates(cfg.node_of(withs[0]), cfg.node_of(rep[0]))
            # all lines are written inside the with block
            prints = [c for c in walk_no_nested(f.node) if isinstance(c, ast.Call) and call_name(c) in ('print', 'write', 'writelines') and ('file=' in unparse(c) or call_name(c) != 'print')]
            in_with = {id(x) for x in ast.walk(withs[0])} if withs else set()
            ok = ok and all(id(p) in in_with for p in prints) and bool(prints)
    early = None
    if not ok and len(mk) == 1 and len(rep) == 1:
        # the replacement happens while the temporary file is still open (inside the with block that writes it)
        fdo = [c for c in opens if dotted(c.func) == 'os.fdopen']
        withs_ = [n for n in walk_no_nested(f.node) if isinstance(n, ast.With) and any(it.context_expr in fdo for it in n.items)]
        # (a handle that is closed explicitly before the replacement is flushed and closed: left open)
        handles = {unparse(it.optional_vars) for w_ in withs_ for it in w_.items if it.context_expr in fdo and it.optional_vars is not None}
        closed = [c for w_ in withs_ for c in ast.walk(w_) if isinstance(c, ast.Call) and isinstance(c.func, ast.Attribute) and c.func.attr in ('close', 'flush') and unparse(c.func.value) in handles
                  and cfg.node_of(c) is not None and cfg.node_of(rep[0]) is not None and cfg.dominates(cfg.node_of(c), cfg.node_of(rep[0]))]
        if len(withs_) == 1 and any(x is rep[0] for x in ast.walk(withs_[0])) and handles and not closed:
            early = 'os.replace is called inside the with block that writes the temporary file: the iteration file is replaced by a file that is not yet flushed and closed - a process stopped at that moment leaves an empty or truncated file'
    ctx.add('C15.R1', 'iter-writer:atomic', ok if (ok or early) else None, (f.file, mk[0].lineno if mk else f.line),
            'unique temporary file in the same directory, written and closed, then os.replace onto the iteration file' if ok else (early or 'the write-temporary-then-replace protocol is not in the expected form'), 'atomic', positive=bool(early))
    # ---- R2
    loops = [n for n in walk_no_nested(f.node) if isinstance(n, ast.For) and unparse(n.iter) == 'enumerate(x)']
    ok = False
    det = ''
    sep = None
    if len(loops) == 1 and isinstance(loops[0].target, ast.Tuple):
        i, v = (unparse(t) for t in loops[0].target.elts)
        pr = [c for c in ast.walk(loops[0]) if isinstance(c, ast.Call) and call_name(c) == 'print']
        if len(pr) == 1 and isinstance(pr[0].args[0], ast.JoinedStr):
            js = pr[0].args[0]
            det = unparse(js)
            parts = js.values
            if len(parts) == 3 and isinstance(parts[0], ast.FormattedValue) and isinstance(parts[1], ast.Constant) and isinstance(parts[2], ast.FormattedValue):
                name_ok = unparse(parts[0].value) == f'self.id_manager.free_betas.names[{i}]' and parts[0].format_spec is None
                val = parts[2]
                lossless = (unparse(val.value) in (v, f'repr({v})', f'float({v})') and val.format_spec is None and val.conversion in (-1, 114))
                sep = parts[1].value
                ok = name_ok and lossless and sep.strip() == '=' and len(loops[0].body) == 1
    ctx.add('C15.R2', 'iter-writer:lines', ok, (f.file, loops[0].lineno if loops else f.line),
            f'each line is {det}: canonical name, lossless value' if ok else f'line format {det or "not found"}: name must be free_betas.names[i] and the value must be written without a precision', det)
    ld = B.methods['_load_saved_iteration']
    b = find(ld.node, """
_FN = self._save_iterations_file_name()
_B = {}
try:
    with open(_FN, encoding=__ENC) as _FP:
        for _LINE in _FP:
            _L = _LINE.split(__SEP)
            _B[_L[0].strip()] = float(_L[1])
    self.change_init_values(_B)
    ___
except OSError:
    ___
""")
    ok = False
    if b is not None and sep is not None:
        try:
            ok = const_value(b['__SEP'][1]) == sep.strip()
        except ValueError:
            ok = False
    ctx.add('C15.R2', 'iter-reader', ok, ld, 'the reader splits on the same separator, strips the name and float()s the value, then updates the starting values' if ok else 'the reader does not mirror the writer', 'reader')
    okn = [unparse(s) for s in fn.body] == ["return f'__{self.modelName}.iter'"]
    ctx.add('C15.R2', 'iter-file-name', okn, fn, 'one file per model name' if okn else 'iteration file name changed', 'name')
    # ---- R3
    guard = [n for n in walk_no_nested(f.node) if isinstance(n, ast.If) and unparse(n.test) == 'self.save_iterations']
    ok = False
    det = ''
    eng = [n for n in walk_no_nested(f.node) if isinstance(n, ast.Assign) and isinstance(n.value, ast.Call) and unparse(n.value.func) == 'self.theC.calculateLikelihoodAndDerivatives'
           and isinstance(n.targets[0], ast.Tuple) and all(isinstance(e, ast.Name) for e in n.targets[0].elts)]
    if len(eng) == 1:
        F, G = eng[0].targets[0].elts[0].id, eng[0].targets[0].elts[1].id
    if len(guard) == 1 and len(eng) == 1:
        det = unparse(guard[0])[:200].replace(F, 'f')
        b = find(f.node, f"""
_GN = np.linalg.norm({G})
___
if not np.isfinite(_GN):
    ___
elif self.save_iterations:
    if self.bestIteration is None:
        self.bestIteration = {F}
    if {F} >= self.bestIteration:
        self.bestIteration = {F}
        ___
""")
        if b is not None:
            best = [n for n in guard[0].body if isinstance(n, ast.If) and unparse(n.test) == f'{F} >= self.bestIteration']
            inside = {id(x) for x in ast.walk(best[0])} if len(best) == 1 else set()
            writes_inside = len(best) == 1 and all(id(c) in inside for c in rep + mk)
            ok = writes_inside and not best[0].orelse and len(guard[0].body) == 2
    unguarded = None
    writes = rep + direct
    if not ok and len(eng) == 1 and writes:
        # path facts instead of shape: with a gradient that has a NaN entry (scenario 'nan') or an infinite entry ('inf'), every
        # test on the finiteness of the gradient has a known outcome; the sides it excludes are cut from the control-flow graph.
        # A write still reachable is a write with non-finite derivatives; a test involving the gradient that cannot be
        # evaluated leaves the verdict open.
        reach = {sc: _reachable_nonfinite(f.node, cfg, G, sc, writes) for sc in ('nan', 'inf')}
        if None not in reach.values():
            if reach['nan'] and reach['inf']:
                unguarded = ('the iteration is saved whether or not the derivatives are finite (there is a path to the replacement of the iteration file on which no test '
                             'has excluded a non-finite gradient): a point with NaN / infinite derivatives can become the restart point')
            elif reach['inf']:
                unguarded = ('the iteration is saved when the gradient has an infinite entry: only NaN is tested, and an infinite entry is not NaN, so a point with infinite '
                             'derivatives can become the restart point (the test must be np.isfinite)')
            elif reach['nan']:
                unguarded = ('the iteration is saved when the gradient has a NaN entry: only infinity is tested, so a point with NaN derivatives can become the restart point '
                             '(the test must be np.isfinite)')
            elif len(guard) <= 1 and _best_so_far(f.node, cfg, F, writes):
                ok = True
    ctx.add('C15.R3', 'iter-writer:best-so-far', ok if (ok or unguarded) else None, (f.file, guard[0].lineno if guard else f.line),
            'written only with finite derivatives and f >= bestIteration; the marker is raised to f on every write' if ok else (unguarded or 'the best-so-far discipline of the iteration file is not in the expected form (guard, marker update, finite-derivative test)'), det, positive=bool(unguarded))
    e = B.methods['estimate']
    ce = cfg_of(e.node)
    reset = [n for n in walk_no_nested(e.node) if isinstance(n, ast.Assign) and unparse(n) == 'self.bestIteration = None']
    init_eval = [n for n in walk_no_nested(e.node) if isinstance(n, ast.Expr) and unparse(n.value) == 'self.calculate_init_likelihood()']
    opt = [n for n in walk_no_nested(e.node) if isinstance(n, ast.Assign) and isinstance(n.value, ast.Call) and unparse(n.value.func) == 'self.optimize' and 'free_betas_values' in unparse(n.value)]
    ok = len(reset) == 1 and len(init_eval) == 1 and len(opt) == 1 and ce.dominates(ce.node_of(init_eval[0]), ce.node_of(reset[0])) and ce.dominates(ce.node_of(reset[0]), ce.node_of(opt[0]))
    ctx.add('C15.R3', 'estimate:reset', ok, e, 'the marker is reset after the starting point is evaluated and before the optimiser runs' if ok else 'bestIteration is not reset between the initial evaluation and the optimisation', 'reset')
    # ---- R4
    boot = [n for n in walk_no_nested(e.node) if isinstance(n, ast.For) and 'bootstrap_samples' in unparse(n.iter)]
    ok = False
    if len(boot) == 1:
        off = [n for n in walk_no_nested(e.node) if isinstance(n, ast.Assign) and unparse(n) == 'self.save_iterations = False']
        keep = [n for n in walk_no_nested(e.node) if isinstance(n, ast.Assign) and unparse(n.value) == 'self.save_iterations' and isinstance(n.targets[0], ast.Name)]
        if len(off) == 1 and len(keep) == 1:
            kv = keep[0].targets[0].id
            on = [n for n in walk_no_nested(e.node) if isinstance(n, ast.Assign) and unparse(n) == f'self.save_iterations = {kv}']
            tries = [n for n in walk_no_nested(e.node) if isinstance(n, ast.Try) and boot[0] in n.body]
            ok = len(on) == 1 and len(tries) == 1 and on[0] in tries[0].finalbody and ce.dominates(ce.node_of(off[0]), ce.node_of(boot[0])) and seq(keep[0]) < seq(off[0])
    ctx.add('C15.R4', 'estimate:bootstrap', ok, (e.file, boot[0].lineno if boot else e.line),
            'saving is off while the model is re-estimated on resamples and is restored in a finally block' if ok else 'iterates of bootstrap re-estimations (resampled data) can be written to the iteration file', 'bootstrap')
    # ---- R5
    loadif = [n for n in walk_no_nested(e.node) if isinstance(n, ast.If) and unparse(n.test) == 'self.save_iterations' and any('self._load_saved_iteration()' == unparse(s.value) for s in n.body if isinstance(s, ast.Expr))]
    ok = len(loadif) == 1 and len(opt) == 1 and ce.dominates(ce.node_of(loadif[0]), ce.node_of(opt[0]))
    if ok:
        ok = unparse(opt[0].value.args[0]) in ('np.array(self.id_manager.free_betas_values)', 'self.id_manager.free_betas_values')
    ctx.add('C15.R5', 'estimate:restart', ok, e, 'the saved point is loaded before the optimiser is started from free_betas_values' if ok else 'the optimiser does not start from the loaded iteration', 'restart')
    from ..packs import ord_pack

    sub = Ctx(prog, ctx.prop, ctx.tier)
    ord_pack(sub, 'C15.R5')
    for o in sub.obligations:
        if o.construct == 'BIOGEME.change_init_values':
            ctx.add('C15.R5', 'change_init_values:vector', o.ok if o.recognised else None, (o.file, o.line),
                    'every loaded value (also 0.0) is copied, by name, into the vector the optimiser starts from' if o.ok else 'the loaded values do not all reach the vector the optimiser starts from: ' + o.message, o.detail,
                    positive=o.recognised and not o.ok)


_FINITE_FUNCS = {'isfinite': 'fin', 'isnan': 'nan', 'isinf': 'inf'}


def _derived_names(func: ast.AST, G: str) -> set[str]:
    """locals whose value depends on the gradient G (fixpoint over the assignments of the function)"""
    out = {G}
    changed = True
    while changed:
        changed = False
        for n in walk_no_nested(func):
            val, tg = None, []
            if isinstance(n, ast.Assign):
                val, tg = n.value, n.targets
            elif isinstance(n, (ast.AnnAssign, ast.AugAssign)) and n.value is not None:
                val, tg = n.value, [n.target]
            elif isinstance(n, ast.NamedExpr):
                val, tg = n.value, [n.target]
            if val is None or not any(isinstance(x, ast.Name) and x.id in out for x in ast.walk(val)):
                continue
            if isinstance(n, ast.Assign) and isinstance(n.value, ast.Call) and unparse(n.value.func) == 'self.theC.calculateLikelihoodAndDerivatives':
                continue  # the engine call receives the buffer g; its other results (f, h, bh) are not functions of the gradient
            for t in tg:
                for x in ast.walk(t):
                    if isinstance(x, ast.Name) and x.id not in out:
                        out.add(x.id)
                        changed = True
    return out


def _gradient_form(e: ast.expr, G: str) -> str | None:
    """what an expression says about the gradient as a whole: 'vector' the gradient itself (copied, converted, in absolute value),
    'norm' its norm (NaN when an entry is NaN, infinite when an entry is infinite and none is NaN), 'sum' a sum / scalar product /
    largest absolute value over all entries (not finite when an entry is not finite; whether NaN or infinite is not determined);
    None: anything else (one entry, a slice, the length, ...)"""
    if isinstance(e, ast.Name):
        return 'vector' if e.id == G else None
    if isinstance(e, ast.UnaryOp) and isinstance(e.op, (ast.USub, ast.UAdd)):
        return _gradient_form(e.operand, G)
    if isinstance(e, ast.BinOp) and isinstance(e.op, ast.MatMult):
        return 'sum' if _gradient_form(e.left, G) == 'vector' and _gradient_form(e.right, G) == 'vector' else None
    if isinstance(e, ast.Call):
        fn_ = dotted(e.func) or ''
        last = fn_.split('.')[-1] if fn_ else (e.func.attr if isinstance(e.func, ast.Attribute) else '')
        head = fn_.split('.')[0] if fn_ else ''
        if isinstance(e.func, ast.Attribute) and head not in ('np', 'numpy', 'scipy', 'math', 'la', 'linalg') and not e.args and not e.keywords:
            inner = _gradient_form(e.func.value, G)
            if e.func.attr in ('ravel', 'flatten', 'copy', 'squeeze'):
                return inner if inner == 'vector' else None
            if e.func.attr == 'sum':
                return 'sum' if inner == 'vector' else None
            return None
        if head in ('np', 'numpy', 'scipy', 'abs', 'norm', 'la', 'linalg') and e.args:
            inner = _gradient_form(e.args[0], G)
            if last in ('asarray', 'array', 'abs', 'absolute', 'fabs', 'ravel', 'asfarray', 'atleast_1d') and len(e.args) == 1:
                return inner if inner == 'vector' else None
            if last == 'norm' and inner == 'vector' and not any(k.arg == 'axis' for k in e.keywords):
                return 'norm'
            if last in ('sum', 'max', 'amax') and len(e.args) == 1 and not e.keywords and inner == 'vector':
                if last == 'sum' or (isinstance(e.args[0], ast.Call) and (dotted(e.args[0].func) or '').split('.')[-1] in ('abs', 'absolute', 'fabs')):
                    return 'sum'
                return None
            if last in ('dot', 'inner', 'vdot') and len(e.args) == 2 and inner == 'vector' and _gradient_form(e.args[1], G) == 'vector':
                return 'sum'
    return None


def _truth(e: ast.expr, names: set[str], scenario: str, open_: list, G: str | None = None, consts: dict | None = None) -> bool | None:
    """value of a test when the gradient has a NaN entry and no infinite one (scenario 'nan') or an infinite entry and no NaN
    ('inf'); None = not determined by that fact.  A sub-expression that involves the gradient and is not understood is
    appended to open_."""
    def about_gradient(x) -> bool:
        return any(isinstance(y, ast.Name) and y.id in names for y in ast.walk(x))

    def unknown(x):
        if about_gradient(x):
            open_.append(x)
        return None

    if isinstance(e, ast.Constant):
        return bool(e.value)
    if isinstance(e, ast.Name) and consts and e.id in consts:
        return consts[e.id]
    if isinstance(e, ast.UnaryOp) and isinstance(e.op, ast.Not):
        v = _truth(e.operand, names, scenario, open_, G, consts)
        return None if v is None else not v
    if isinstance(e, ast.BoolOp):
        vals = [_truth(v, names, scenario, open_, G, consts) for v in e.values]
        absorbing = isinstance(e.op, ast.Or)
        if any(v is absorbing for v in vals):
            return absorbing
        return (not absorbing) if all(v is (not absorbing) for v in vals) else None
    if isinstance(e, ast.Compare) and len(e.ops) == 1:
        left, right, op = e.left, e.comparators[0], e.ops[0]
        if isinstance(op, (ast.NotEq, ast.Eq)) and unparse(left) == unparse(right) and about_gradient(left):
            if G is not None and _gradient_form(left, G) != 'norm':
                return unknown(e)  # one entry / the vector compared with itself: not a statement about the whole gradient in a form understood here
            isnan = scenario == 'nan'  # x != x is the NaN test
            return isnan if isinstance(op, ast.NotEq) else not isnan
        for a, b in ((left, right), (right, left)):
            if isinstance(b, ast.Constant) and isinstance(b.value, bool) and isinstance(op, (ast.Eq, ast.NotEq, ast.Is, ast.IsNot)):
                v = _truth(a, names, scenario, open_, G, consts)
                if v is None:
                    return None
                return (v == b.value) if isinstance(op, (ast.Eq, ast.Is)) else (v != b.value)
        return unknown(e)
    if isinstance(e, ast.Call):
        # reductions / conversions around the elementwise test
        red, inner = None, e
        while isinstance(inner, ast.Call):
            fn_ = dotted(inner.func) or ''
            last = inner.func.attr if isinstance(inner.func, ast.Attribute) else fn_
            if isinstance(inner.func, ast.Attribute) and last in ('all', 'any') and not inner.args and isinstance(inner.func.value, ast.Call):
                red, inner = red or last, inner.func.value
            elif last in ('all', 'any') and fn_ in ('all', 'any', 'np.all', 'np.any', 'numpy.all', 'numpy.any') and len(inner.args) == 1 and not inner.keywords:
                red, inner = red or last, inner.args[0]
            elif fn_ == 'bool' and len(inner.args) == 1:
                inner = inner.args[0]
            else:
                break
        if isinstance(inner, ast.Call):
            fn_ = dotted(inner.func) or ''
            kind = _FINITE_FUNCS.get(fn_.split('.')[-1]) if fn_.split('.')[0] in ('np', 'numpy', 'math', 'isfinite', 'isnan', 'isinf') else None
            if kind and len(inner.args) == 1 and not inner.keywords:
                if not about_gradient(inner.args[0]):
                    return None  # finiteness of something else: does not depend on the scenario
                # the test speaks about the gradient only when its argument is the whole gradient, its norm or a sum over it:
                # the finiteness of one entry, of a slice, of the length ... says nothing about the other entries
                form = _gradient_form(inner.args[0], G) if G is not None else 'vector'
                if form is None or (form == 'sum' and kind != 'fin'):
                    return unknown(e)
                if kind == 'fin':
                    return False if red in (None, 'all') else unknown(e)
                if kind == scenario:
                    return True if red in (None, 'any') else unknown(e)
                return False
        return unknown(e)
    return unknown(e)


def _reachable_nonfinite(func: ast.AST, cfg, G: str, scenario: str, writes: list) -> bool | None:
    """is one of the writes reachable from the entry when the gradient is not finite (scenario 'nan' / 'inf')?  None = cannot tell"""
    import networkx as nx

    from ..cfg import ENTRY

    names = _derived_names(func, G)
    h = cfg.g.copy()
    decided: set[int] = set()   # tests whose outcome is known in the scenario
    steered: set[int] = set()   # statements whose execution is decided by such a test

    def cut(n: int, st, v: bool) -> None:
        decided.add(n)
        steered.update(m for s_ in list(st.body) + list(st.orelse) for x in ast.walk(s_) if isinstance(x, (ast.stmt, ast.ExceptHandler)) for m in [cfg.node_of(x)] if m is not None)
        inside = {id(x) for s_ in st.body for x in ast.walk(s_)}
        for s_ in list(h.successors(n)):
            on_true = id(cfg.stmt[s_]) in inside
            if on_true != v:
                h.remove_edge(n, s_)

    for n in cfg.nodes():
        st = cfg.stmt[n]
        if isinstance(st, (ast.If, ast.While, ast.Assert)):
            open_: list = []
            v = _truth(inline_locals(func, st.test), names | {G}, scenario, open_, G)
            if v is None and open_:
                return None
            if v is None:
                continue
            if isinstance(st, ast.Assert):
                if v is False:
                    h.remove_edges_from(list(h.out_edges(n)))
                continue
            cut(n, st, v)
        else:
            # a conditional expression / short-circuit statement deciding on the gradient outside a test is not followed
            own = [x for x in ast.walk(st) if isinstance(x, ast.IfExp)] if isinstance(st, ast.AST) and not isinstance(st, (ast.For, ast.With, ast.Try, ast.FunctionDef, ast.ClassDef)) else []
            for x in own:
                open_ = []
                if _truth(inline_locals(func, x.test), names | {G}, scenario, open_, G) is not None or open_:
                    return None
    # flags: a local that holds a constant on every path that is left (e.g. set to False under the finiteness test) decides the tests
    # that read it; a test that reads a local whose value is computed under a decided test is not followed
    defs = cfg.defs()
    changed = True
    while changed:
        changed = False
        live = set(nx.descendants(h, ENTRY)) | {ENTRY}
        rd_in: dict[int, dict[str, frozenset]] = {n: {} for n in live}
        rd_out: dict[int, dict[str, frozenset]] = {n: {} for n in live}
        again = True
        while again:
            again = False
            for n in live:
                acc: dict[str, set] = {}
                for p_ in h.predecessors(n):
                    if p_ in live:
                        for k, vs in rd_out[p_].items():
                            acc.setdefault(k, set()).update(vs)
                fin = {k: frozenset(vs) for k, vs in acc.items()}
                out = dict(fin)
                for d in defs[n]:
                    out[d.name] = (fin.get(d.name, frozenset()) | {n}) if d.kind == 'aug' else frozenset({n})
                if fin != rd_in[n] or out != rd_out[n]:
                    rd_in[n], rd_out[n], again = fin, out, True
        for n in sorted(live):
            st = cfg.stmt[n]
            if n in decided or not isinstance(st, (ast.If, ast.While)):
                continue
            consts: dict[str, bool] = {}
            for nm in {x.id for x in ast.walk(st.test) if isinstance(x, ast.Name)}:
                ds = [d for dn in rd_in[n].get(nm, ()) for d in defs[dn] if d.name == nm]
                if not ds:
                    continue
                vals = {bool(d.value.value) if d.kind == 'assign' and isinstance(d.value, ast.Constant) else None for d in ds}
                if len(vals) == 1 and None not in vals:
                    consts[nm] = vals.pop()
                elif any(d.node in steered and not (d.kind == 'assign' and isinstance(d.value, ast.Constant)) for d in ds):
                    return None
            if not consts:
                continue
            open_ = []
            v = _truth(inline_locals(func, st.test), names | {G}, scenario, open_, G, consts)
            if v is None:
                continue
            cut(n, st, v)
            changed = True
            break
    ws = {cfg.node_of(w) for w in writes}
    if None in ws:
        return None
    return any(w in h and nx.has_path(h, ENTRY, w) for w in ws)


def _best_so_far(func: ast.AST, cfg, F: str, writes: list) -> bool:
    """every write sits in the true branch of a test with the conjuncts self.save_iterations and F >= self.bestIteration (on one
    test or on nested ones), that branch first raises the marker to F; the only other assignment of the marker is its
    initialisation to F when it is None"""
    def conjuncts(t, depth=3):
        t = inline_locals(func, t)
        vals = list(t.values) if isinstance(t, ast.BoolOp) and isinstance(t.op, ast.And) else [t]
        out = [unparse(v) for v in vals]
        # a flag that is only ever False or a value that implies a conjunct (flag = self.save_iterations ... flag = False) implies that conjunct
        for v in vals:
            if isinstance(v, ast.Name) and depth:
                ds = [a for a in walk_no_nested(func) if isinstance(a, (ast.Assign, ast.AnnAssign, ast.AugAssign, ast.NamedExpr, ast.For, ast.With, ast.ExceptHandler, ast.arg)) and _binds(a, v.id)]
                if ds and all(isinstance(a, ast.Assign) and len(a.targets) == 1 and isinstance(a.targets[0], ast.Name) for a in ds) and not any(p_ == v.id for p_ in _params(func)):
                    given = [set(conjuncts(a.value, depth - 1)) for a in ds if not (isinstance(a.value, ast.Constant) and not a.value.value)]
                    if given:
                        out += sorted(set.intersection(*given) - set(out))
        return out

    ifs = [n for n in walk_no_nested(func) if isinstance(n, ast.If)]
    marks = [n for n in walk_no_nested(func) if isinstance(n, (ast.Assign, ast.AugAssign, ast.AnnAssign)) and any(unparse(t) == 'self.bestIteration' for t in (n.targets if isinstance(n, ast.Assign) else [n.target]))]
    if any(not isinstance(m, ast.Assign) or len(m.targets) != 1 or unparse(m.value) != F for m in marks):
        return False
    raised = []
    for w in writes:
        enclosing = [i for i in ifs if any(x is w for s_ in i.body for x in ast.walk(s_))]
        cj = [c for i in enclosing for c in conjuncts(i.test)]
        best = [i for i in enclosing if any(c in (f'{F} >= self.bestIteration', f'self.bestIteration <= {F}') for c in conjuncts(i.test))]
        if 'self.save_iterations' not in cj or len(best) != 1:
            return False
        up = [m for m in marks if m in best[0].body]
        if len(up) != 1 or not cfg.dominates(cfg.node_of(up[0]), cfg.node_of(w)):
            return False
        raised.append(up[0])
    rest = [m for m in marks if not any(m is r for r in raised)]
    for m in rest:
        init = [i for i in ifs if i.body == [m] and not i.orelse and 'self.bestIteration is None' in conjuncts(i.test)]
        if len(init) != 1 or not all(cfg.dominates(cfg.node_of(init[0]), cfg.node_of(w)) for w in writes):
            return False
    return len(rest) == 1


def _params(func) -> list[str]:
    a = func.args
    return [p.arg for p in a.posonlyargs + a.args + a.kwonlyargs + ([a.vararg] if a.vararg else []) + ([a.kwarg] if a.kwarg else [])]


def _binds(node, name: str) -> bool:
    """the statement (or expression) binds the local ``name``"""
    if isinstance(node, ast.Assign):
        tg = node.targets
    elif isinstance(node, (ast.AnnAssign, ast.AugAssign, ast.NamedExpr, ast.For)):
        tg = [node.target]
    elif isinstance(node, ast.With):
        tg = [i.optional_vars for i in node.items if i.optional_vars is not None]
    elif isinstance(node, ast.ExceptHandler):
        return node.name == name
    else:
        return False
    return any(isinstance(x, ast.Name) and x.id == name for t in tg for x in ast.walk(t))


def _is_alias(f, name: str, target: str) -> bool:
    for n in walk_no_nested(f.node):
        if isinstance(n, ast.Assign) and unparse(n.targets[0]) == name and unparse(n.value) == target:
            return True
    return False


_B = 'src/biogeme/biogeme.py'
_ATOMIC_OLD = '''                file_name = self._save_iterations_file_name()
                file_descriptor, temporary_name = tempfile.mkstemp(
                    prefix=f"{os.path.basename(file_name)}.",
                    suffix=".tmp",
                    dir=os.path.dirname(file_name) or ".",
                )
                with os.fdopen(file_descriptor, "w", encoding="utf-8") as pf:
'''
MUTANTS = [
    dict(name='pre-fix: iteration file written in place', rule='C15.R1', file=_B, old=_ATOMIC_OLD,
         new='                file_name = self._save_iterations_file_name()\n                temporary_name = file_name\n                with open(file_name, "w", encoding="utf-8") as pf:\n'),
    dict(name='replace happens before the file is closed', rule='C15.R1', file=_B,
         old='                            file=pf,\n                        )\n                os.replace(temporary_name, file_name)', new='                            file=pf,\n                        )\n                    os.replace(temporary_name, file_name)'),
    dict(name='temporary file created in the system tmp directory', rule='C15.R1', file=_B, old='                    dir=os.path.dirname(file_name) or ".",\n', new=''),
    dict(name='value written with :.8g', rule='C15.R2', file=_B, old='f"{self.id_manager.free_betas.names[i]} = {v}"', new='f"{self.id_manager.free_betas.names[i]} = {v:.8g}"'),
    dict(name='names taken in order of appearance', rule='C15.R2', file=_B, old='f"{self.id_manager.free_betas.names[i]} = {v}"', new='f"{list(self.id_manager.free_betas.expressions)[i]} = {v}"'),
    dict(name='reader splits on ":"', rule='C15.R2', file=_B, old='                    ell = line.split("=")', new='                    ell = line.split(":")'),
    dict(name='pre-fix: marker never raised', rule='C15.R3', file=_B, old='            if f >= self.bestIteration:\n                self.bestIteration = f\n', new='            if f >= self.bestIteration:\n'),
    dict(name='every finite iterate is saved', rule='C15.R3', file=_B, old='            if f >= self.bestIteration:\n                self.bestIteration = f\n', new='            if True:\n                self.bestIteration = f\n'),
    dict(name='saved even when the gradient is not finite', rule='C15.R3', file=_B, old='        elif self.save_iterations:\n            if self.bestIteration is None:', new='        if self.save_iterations:\n            if self.bestIteration is None:'),
    dict(name='marker not reset before optimising', rule='C15.R3', file=_B, old='        self.calculate_init_likelihood()\n        self.bestIteration = None\n', new='        self.calculate_init_likelihood()\n'),
    dict(name='pre-fix: bootstrap iterates saved', rule='C15.R4', file=_B, old='            self.save_iterations = False\n            try:', new='            try:'),
    dict(name='saving not switched back on after an exception', rule='C15.R4', file=_B,
         old='            finally:\n                self.save_iterations = saving_iterations\n                # The engine must work again with the full sample\n                if self.database.is_panel():\n                    self.theC.setDataMap(self.database.individualMap)\n                else:\n                    self.theC.setData(self.database.data)\n',
         new='            finally:\n                # The engine must work again with the full sample\n                if self.database.is_panel():\n                    self.theC.setDataMap(self.database.individualMap)\n                else:\n                    self.theC.setData(self.database.data)\n            self.save_iterations = saving_iterations\n'),
    dict(name='optimiser started from the initial values of the formulas', rule='C15.R5', file=_B,
         old='        output = self.optimize(np.array(self.id_manager.free_betas_values))\n        xstar, optimization_messages, convergence = output\n        # Running time',
         new='        output = self.optimize(np.array(list(self.get_beta_values().values())))\n        xstar, optimization_messages, convergence = output\n        # Running time'),
    dict(name='saved point loaded after the optimisation', rule='C15.R5', file=_B,
         old='            self._load_saved_iteration()\n\n        self.calculate_init_likelihood()', new='            pass\n\n        self.calculate_init_likelihood()'),
]
MUTANTS.append(dict(name='saved zeros are not loaded into the start vector (seed C15/2)', rule='C15.R5', file=_B,
                    old='            value = betas.get(name)\n            if value is not None:\n                self.id_manager.free_betas_values[i] = value', new='            value = betas.get(name)\n            if value:\n                self.id_manager.free_betas_values[i] = value'))
NEUTRAL = [
    dict(name='value written with repr', file=_B, old='f"{self.id_manager.free_betas.names[i]} = {v}"', new='f"{self.id_manager.free_betas.names[i]} = {v!r}"'),
    dict(name='temporary name variable renamed', edits=[(_B, 'temporary_name', 'tmp_name', True)]),
]
