"""C06 - model family is consistent (structural clauses)."""

from __future__ import annotations

import ast

import sympy as sp

from ..core import named_args, AnalysisError, call_name, unparse, walk_no_nested
from ..degree import ALPHA, LOGZERO, MU, MUM, A, V, analyse, is_unknown, iterated, terms_equal
from ..report import Ctx
from .c05 import CNL, NESTED

PAIRS = [
    (NESTED, 'get_mev_for_nested', 'get_mev_for_nested_mu'),
    (CNL, 'get_mev_for_cross_nested', 'get_mev_for_cross_nested_mu'),
]

BUILDERS_WITH_NESTS = [
    (NESTED, 'get_mev_generating_for_nested', 'NestsForNestedLogit', 'check_partition'),
    (NESTED, 'get_mev_for_nested', 'NestsForNestedLogit', 'check_partition'),
    (NESTED, 'get_mev_for_nested_mu', 'NestsForNestedLogit', 'check_partition'),
    (CNL, 'get_mev_for_cross_nested', 'NestsForCrossNestedLogit', 'check_validity'),
    (CNL, 'get_mev_for_cross_nested_mu', 'NestsForCrossNestedLogit', 'check_validity'),
]


def _not_an_init_field(annotation: ast.expr | None, value: ast.expr | None) -> bool:
    """an annotated class-level name that is not a parameter of the dataclass __init__: `x: ClassVar[...]`, `x: T = field(init=False)`"""
    if annotation is not None:
        a = annotation.value if isinstance(annotation, ast.Subscript) else annotation
        if isinstance(annotation, ast.Constant) and isinstance(annotation.value, str):
            if annotation.value.replace('typing.', '').startswith('ClassVar'):
                return True
        elif (isinstance(a, ast.Name) and a.id == 'ClassVar') or (isinstance(a, ast.Attribute) and a.attr == 'ClassVar'):
            return True
    if isinstance(value, ast.Call) and call_name(value) == 'field':
        for k in value.keywords:
            if k.arg == 'init' and isinstance(k.value, ast.Constant) and k.value.value is False:
                return True
    return False


def _is_dataclass(c) -> bool:
    return any((unparse(d.func) if isinstance(d, ast.Call) else unparse(d)).split('.')[-1] == 'dataclass' for d in c.node.decorator_list)


def _init_fields(c) -> tuple[list[str], bool]:
    """(positional parameters of the generated __init__ of dataclass c, in order; False when a base class is not in the
    analysed sources, so that the fields it contributes are not known).  As dataclasses does: the fields of the dataclass
    bases first, in reverse MRO order, a field declared again keeps its first position; annotated names that are ClassVar
    pseudo-fields or field(init=False) are not parameters."""
    order: list[str] = []
    init: dict[str, bool] = {}
    known = True
    for k in reversed(c.mro()):
        if any(isinstance(b, str) and b not in ('object', 'ABC', 'Generic', 'Protocol') for b in k.bases):
            known = False
        if k is not c and not _is_dataclass(k):
            continue
        for name, ann, val in k.fields:
            pseudo = False
            if ann is not None:
                a = ann.value if isinstance(ann, ast.Subscript) else ann
                pseudo = (isinstance(ann, ast.Constant) and isinstance(ann.value, str) and ann.value.replace('typing.', '').startswith('ClassVar')) \
                    or (isinstance(a, ast.Name) and a.id == 'ClassVar') or (isinstance(a, ast.Attribute) and a.attr == 'ClassVar')
            if pseudo:
                continue
            if name not in init:
                order.append(name)
            init[name] = not _not_an_init_field(ann, val)
    return [n for n in order if init[n]], known


def _norm(e: sp.Expr | None, scale_one: bool, loose_log: bool = False):
    if e is None:
        return None
    if scale_one:
        e = e.subs(MU, 1)
    if loose_log:
        e = e.replace(LOGZERO, sp.log)
    return sp.simplify(sp.expand_log(sp.powsimp(e, force=True), force=True))


def _same(a, b) -> bool | None:
    """True / False (different values at a generic point) / None (cannot tell)"""
    if a is None or b is None:
        return None
    return terms_equal(a, b)


def _alternatives_of(it, e: ast.expr) -> tuple[str, str] | None:
    """(which alternatives the collection holds, its text with single-definition locals looked through) when that is known:
    'members' (the alternatives of one nest), 'alone' (the alternatives in no nest), 'all' (the whole choice set: the choice
    set of the nests, the keys of the utilities or of the availabilities); None for anything else"""
    import re

    text = it._loop_name(e)
    if re.fullmatch(r'\w+\.(list_of_alternatives|dict_of_alpha(\.(items|keys)\(\))?)', text):
        return 'members', text
    if text == f'{it.nests}.alone':
        return 'alone', text
    if text == f'{it.nests}.choice_set' or any(text == d + s for d in (it.util, it.avail) for s in ('', '.keys()', '.items()')):
        return 'all', text
    return None


_WHAT = {'members': 'the alternatives of one nest', 'alone': 'the alternatives in no nest', 'all': 'the whole choice set'}


def _positional_pairing(ctx: Ctx, rule: str) -> bool:
    """In the MEV builders, a comprehension over zip(...) that puts an availability guard and a utility term side by side pairs
    them BY POSITION: the k-th guard with the k-th term.  The guard of a term is the availability of the same alternative only
    if both sequences run over the same collection of alternatives.  Decided on the resolved structure: every zipped sequence
    is either a collection of alternatives itself (its variable indexes the utilities / availabilities in the element) or a
    local list defined once, never changed, by one comprehension without filter over a collection of alternatives (its elements
    carry util[i] / availability[i] of that collection).  A guard over one kind of collection (the whole choice set, say)
    paired with a term over another kind (the alternatives of one nest) contradicts the property; identical collections
    discharge the obligation; anything else is left to the other rules (nothing is said).  Returns True when a contradiction
    has been reported."""
    from ..core import inline_locals
    from .c05 import BUILDERS

    def subscripts(e: ast.AST, table: str) -> list[ast.expr]:
        return [x.slice for x in ast.walk(e) if isinstance(x, ast.Subscript) and isinstance(x.value, ast.Name) and x.value.id == table]

    def loads(e: ast.AST, name: str) -> bool:
        return any(isinstance(x, ast.Name) and x.id == name and isinstance(x.ctx, ast.Load) for x in ast.walk(e))

    found = False
    for mod, name, _ in BUILDERS + [(NESTED, 'get_mev_generating_for_nested', False)]:
        f = ctx.prog.func(mod, name)
        it = analyse(f)
        ut, av = it.util, it.avail
        for comp in walk_no_nested(f.node):
            if not isinstance(comp, (ast.ListComp, ast.GeneratorExp)) or len(comp.generators) != 1 or comp.generators[0].ifs:
                continue
            gen = comp.generators[0]
            try:
                z = inline_locals(f.node, gen.iter)
                elt = inline_locals(f.node, comp.elt)
            except Exception:  # noqa
                continue
            while isinstance(z, ast.Call) and isinstance(z.func, ast.Name) and z.func.id in ('list', 'tuple', 'iter') and len(z.args) == 1 and not z.keywords:
                z = z.args[0]
            if not (isinstance(z, ast.Call) and isinstance(z.func, ast.Name) and z.func.id == 'zip' and len(z.args) >= 2
                    and all(k.arg == 'strict' for k in z.keywords) and not any(isinstance(a, ast.Starred) for a in z.args)):
                continue
            if not isinstance(gen.target, ast.Tuple) or len(gen.target.elts) != len(z.args) or not all(isinstance(t, ast.Name) for t in gen.target.elts):
                continue
            # (role, kind of collection, text of the collection) of what each zipped sequence contributes to the element
            guards: list[tuple[str, str]] = []
            terms: list[tuple[str, str]] = []
            readable = True
            for tg, arg in zip(gen.target.elts, z.args):
                if not loads(elt, tg.id):
                    continue
                a = arg
                while isinstance(a, ast.Call) and isinstance(a.func, ast.Name) and a.func.id in ('list', 'tuple', 'iter') and len(a.args) == 1 and not a.keywords:
                    a = a.args[0]
                if isinstance(a, (ast.ListComp, ast.GeneratorExp)):
                    # a list of the function, defined once and not changed (inline_locals has put its definition here)
                    if len(a.generators) != 1 or a.generators[0].ifs or a.generators[0].is_async:
                        readable = False
                        continue
                    g = a.generators[0]
                    coll = _alternatives_of(it, g.iter)
                    var = g.target if isinstance(g.target, ast.Name) else (g.target.elts[0] if isinstance(g.target, ast.Tuple) and g.target.elts and coll and coll[1].endswith('.items()') else None)
                    if coll is None or not isinstance(var, ast.Name):
                        readable = False
                        continue
                    for table, roles in ((av, guards), (ut, terms)):
                        idx = subscripts(a.elt, table)
                        if idx and all(isinstance(s, ast.Name) and s.id == var.id for s in idx):
                            roles.append(coll)
                        elif idx:
                            readable = False
                else:
                    coll = _alternatives_of(it, a)
                    for table, roles in ((av, guards), (ut, terms)):
                        idx = [s for s in subscripts(elt, table) if isinstance(s, ast.Name) and s.id == tg.id]
                        if idx and coll is not None and not coll[1].endswith('.items()'):
                            roles.append(coll)
                        elif idx:
                            readable = False
            if not guards or not terms:
                continue
            clash = next(((g, t) for g in guards for t in terms if g[0] != t[0]), None)
            if clash is not None:
                (gk, gt), (tk, tt) = clash
                found = True
                ctx.add(rule, f'{name}:pairing', False, (f.file, comp.lineno),
                        f'zip pairs the availability conditions and the terms of the sum by position, but the conditions run over {gt} ({_WHAT[gk]}) and the terms '
                        f'over {tt} ({_WHAT[tk]}): the term of the k-th alternative of {tt} is guarded by the availability of the k-th alternative of {gt}, '
                        f'another alternative, so the sum differs from the one built without availabilities as soon as they are not all 1', detail=unparse(z)[:120], positive=True)
            elif readable and len({c[1] for c in guards + terms}) == 1 and not any(isinstance(x, ast.Call) and isinstance(x.func, ast.Name) and x.func.id in ('sorted', 'reversed') for x in ast.walk(z)):
                ctx.add(rule, f'{name}:pairing', True, (f.file, comp.lineno), f'availability conditions and terms paired by position both run over {guards[0][1]}', detail=unparse(z)[:120])
    return found


#: obligations whose failure contradicts the property (rule, construct pattern, why); every other failure is 'not recognised'
POSITIVE: list[tuple[str, str, str]] = [
    # C06.R1 (degree of a typed term, multiplicity under classified loops), C06.R2 (typed terms that take different values at
    # mu = 1) and C06.R3 :fields (positional field order used by cls(*tuple)) pass positive= themselves, under those conditions only
    ('C06.R4', r':log$', 'plain log of a sum that is 0 when every alpha of an alternative is 0'),
]


def run(ctx: Ctx) -> None:
    ctx.positive_table = list(POSITIVE)
    prog = ctx.prog
    ctx.rule('C06.R1', 'generating function typing: every term of the sum returned by get_mev_generating_for_nested is homogeneous of degree 1 in y=exp(V) '
             '(nest terms and terms of alternatives alone), one term per nest and one per alternative alone; every ln G_i of get_mev_for_nested has degree 0 '
             '(Euler: derivative of a degree-1 function)')
    ctx.rule('C06.R2', 'scale-one specialisation: the per-alternative term of the scaled builder with mu := 1 equals, in sympy normal form, the term of the '
             'unscaled builder, for nest members and for alternatives alone (log and logzero are distinguished: they differ at 0)')
    ctx.rule('C06.R5', 'one family member, two spellings: in each MEV builder the branch without availabilities sums the same term over the same alternatives as the '
             'branch with availabilities, apart from the availability guard (passing availabilities all equal to one does not change the model)')
    ctx.rule('C06.R3', 'legacy nest syntax: from_tuple is cls(*tuple) with the dataclass fields in the documented tuple order; every builder converts a legacy '
             'tuple with choice_set=list(util) and validates the nests before it iterates over them')
    ctx.rule('C06.R4', 'zero-membership: the log of a sum whose every term carries a user-supplied weight alpha (which may be 0) is logzero, so that an '
             'alternative with zero membership everywhere is treated like an alternative alone')
    ctx.not_decided += ['numeric equality of nested(mu_m=1) with logit and of single-membership CNL with nested logit']

    # ---- R1
    g = prog.func(NESTED, 'get_mev_generating_for_nested')
    it = analyse(g)
    rets = [n for n in walk_no_nested(g.node) if isinstance(n, ast.Return)]
    cont = None
    if rets and isinstance(rets[-1].value, ast.Call) and call_name(rets[-1].value) == 'bioMultSum' and rets[-1].value.args:
        cont = unparse(rets[-1].value.args[0])
    for fd in it.findings:
        line, msg = fd.line, fd.msg
        # terms of different degrees that are summed (or stored in the list whose sum is G) contradict the property; entries
        # of different degrees in another local container (a record of a sum and its exponent) do not
        clash = fd.clash and fd.var in ('', cont)
        ctx.add('C06.R1', 'get_mev_generating_for_nested:typing', False if clash else None, (g.file, line), f'homogeneity typing fails: {msg}' if clash else f'homogeneity typing: statement not in a form the typing understands: {msg}', msg, positive=clash)
    typed = it.ret is not None and it.ret.kind in ('Const', 'Hom', 'LogHom') and (it.ret.kind == 'Const' or it.ret.deg is not None)
    ret_ok = typed and it.ret.kind == 'Hom' and sp.simplify(it.ret.deg - 1) == 0
    ctx.add('C06.R1', 'get_mev_generating_for_nested:return', ret_ok if typed else None, g,
            (f'G is {it.ret}' + ('' if ret_ok else '; a nested-logit generating function is homogeneous of degree 1')) if typed else 'the returned value of get_mev_generating_for_nested is not in a form the typing understands',
            str(it.ret), positive=typed and not ret_ok and it.ret.kind == 'Hom')
    ctx.need(cont in it.bindings, 'get_mev_generating_for_nested returns bioMultSum(<list it has filled>)')
    kinds = set()
    for b in it.bindings[cont]:
        classes = it.loop_classes(b.loops)
        alone = 'alone' in classes
        kinds.add('alone' if alone else 'nest')
        v = b.value
        if v.kind not in ('Const', 'Hom', 'LogHom'):
            ctx.add('C06.R1', f'get_mev_generating_for_nested:{"alone" if alone else "nest"}', None, (g.file, b.line),
                    f'term {b.text[:70]} not in a form the typing understands (it involves a name or a call whose value the typing does not know)', detail=f'{v}')
        else:
            ok = v.kind == 'Hom' and sp.simplify(v.deg - 1) == 0
            ctx.add('C06.R1', f'get_mev_generating_for_nested:{"alone" if alone else "nest"}', ok, (g.file, b.line),
                    f'term {b.text[:70]} is {v}' + ('' if ok else '; every term of G must be homogeneous of degree 1 in y = exp(V) (exp(util[i]) for an alternative alone)'),
                    detail=f'{v}', positive=True)
        want = ('alone',) if alone else ('nests',)
        okl = classes == want
        # a loop the rule cannot classify, or a loop over a local container (how many entries it has is not counted here), says
        # nothing about how many times the term is appended
        verdict = True if okl else (None if ('unknown' in classes or 'entries' in classes) else False)
        ctx.add('C06.R1', f'get_mev_generating_for_nested:{"alone" if alone else "nest"}:multiplicity', verdict, (g.file, b.line),
                f'appended under loops {it.effective_loops(b.loops)}' + ('' if okl else (f'; one term per {"alternative alone" if alone else "nest"} needs exactly one loop over {"the alternatives alone" if alone else "the nests"}'
                                                                     if verdict is False else ' - loop nest not in the expected form')), detail=str(b.loops), positive=verdict is False)
    if kinds != {'alone', 'nest'}:
        raise AnalysisError('C06.R1: terms for nests and for alternatives alone not both found in get_mev_generating_for_nested')
    gi = prog.func(NESTED, 'get_mev_for_nested')
    it2 = analyse(gi)
    for b in it2.bindings.get(it2.ret_name or '', []):
        v = b.value
        deg = sp.Integer(0) if v.kind == 'Const' else v.deg if v.kind == 'LogHom' else None
        ok = deg is not None and sp.simplify(deg) == 0
        ctx.add('C06.R1', f'get_mev_for_nested:{"alone" if "alone" in it2.loop_classes(b.loops) else "member"}', ok if deg is not None else None, (gi.file, b.line),
                (f'ln G_i has degree {deg}' + ('' if ok else '; the derivative of a degree-1 function has degree 0')) if deg is not None else f'ln G_i ({v}) is not in a form the typing understands',
                detail=str(deg), positive=deg is not None and not ok)
    ctx.floor('C06.R1', 7)

    # ---- R2
    for mod, plain, scaled in PAIRS:
        fp, fs = prog.func(mod, plain), prog.func(mod, scaled)
        ip, is_ = analyse(fp), analyse(fs)
        for kind in ('alone', 'member'):
            bp = [b for b in ip.bindings.get(ip.ret_name or '', []) if ('alone' in ip.loop_classes(b.loops)) == (kind == 'alone')]
            bs = [b for b in is_.bindings.get(is_.ret_name or '', []) if ('alone' in is_.loop_classes(b.loops)) == (kind == 'alone')]
            if len(bp) != 1 or len(bs) != 1:
                raise AnalysisError(f'C06.R2: {plain}/{scaled}: expected one {kind} entry in each, found {len(bp)}/{len(bs)}')
            vp, vs = bp[0].value, bs[0].value
            if is_unknown(vp, vs) or vp.term is None or vs.term is None:
                # a term the typing could not build (a name or a call it does not know): nothing to compare, no accusation
                ctx.add('C06.R2', f'{plain}/{scaled}:{kind}', None, (fs.file, bs[0].line),
                        f'the {kind} term of {plain if (is_unknown(vp) or vp.term is None) else scaled} is not in a form the typing understands', detail='untyped')
                continue
            tp, ts = _norm(vp.term, False), _norm(vs.term, True)
            ok = _same(tp, ts)
            loose = ok or _same(_norm(vp.term, False, True), _norm(vs.term, True, True))
            msg = f'{scaled} with mu=1 gives the {kind} term of {plain}'
            if ok is None:
                msg = f'{kind} term of {scaled} with mu=1 ({ts}) and of {plain} ({tp}): not in a form the rule can compare'
            elif not ok:
                msg = f'{kind} term of {scaled} with mu=1 is {ts}, {plain} has {tp}' + (' (they differ only in log vs logzero, i.e. when the argument is 0)' if loose else '')
            ctx.add('C06.R2', f'{plain}/{scaled}:{kind}', ok, (fs.file, bs[0].line), msg, detail='' if ok else ('differs only in log vs logzero' if loose else f'{tp} || {ts}'), positive=ok is False)
    ctx.floor('C06.R2', 4)

    # ---- R5: one model with and without availabilities
    from .c05 import availability_rule

    sub = Ctx(prog, ctx.prop, ctx.tier)
    availability_rule(sub, 'C06.R5')
    nb = 0
    for o in sub.obligations:
        if o.construct.endswith(':branches'):
            nb += 1
            ctx.adopt('C06.R5', o)
    paired_wrongly = _positional_pairing(ctx, 'C06.R5')
    if nb < 5 and paired_wrongly:
        # a contradiction of the property has been identified in a branch the comparison could not read: that verdict stands, the
        # pairs of branches that were not found are reported as not recognised next to it
        ctx.add('C06.R5', 'C06.R5:instances', None, (ctx.obligations[-1].file, 1), f'only {nb} pairs of availability branches found in the MEV builders: some are not in the expected form', 'floor')
    elif nb < 5:
        raise AnalysisError(f'C06.R5: only {nb} pairs of availability branches found in the MEV builders')

    # ---- R4
    for mod, name in ((CNL, 'get_mev_for_cross_nested'), (CNL, 'get_mev_for_cross_nested_mu')):
        f = prog.func(mod, name)
        itx = analyse(f)
        if not itx.log_of_nullable:
            raise AnalysisError(f'C06.R4: {name}: no logarithm of an alpha-weighted sum found')
        for line, fn in itx.log_of_nullable:
            ok = fn == 'logzero'
            ctx.add('C06.R4', f'{name}:log', ok, (f.file, line),
                    f'{fn}(sum of alpha-weighted terms)' + ('' if ok else ': when every alpha of an alternative is 0 the sum is 0 and log gives -inf (probability 0) where the '
                                                            'unscaled model treats the alternative as alone'), detail=fn)

    # ---- R3
    nests = prog.module('nests')
    for cname, second in (('OneNestForNestedLogit', 'list_of_alternatives'), ('OneNestForCrossNestedLogit', 'dict_of_alpha')):
        c = prog.cls('nests', cname)
        # the positional parameters of the generated __init__: annotated names in order, without ClassVar pseudo-fields and
        # without fields declared field(init=False)
        names, bases_known = _init_fields(c)
        ft = c.methods.get('from_tuple')
        ctx.need(ft is not None, f'{cname}.from_tuple')
        p = ft.positional_params()[1]
        star = unparse(ft.body[-1]) == f'return cls(*{p})' and 'classmethod' in ft.decorators()
        ok = names[:2] == ['nest_param', second]
        all_fields = [x for k in c.mro() for x in k.fields]
        special = any((x[1] is not None and 'KW_ONLY' in unparse(x[1])) or (x[2] is not None and 'kw_only' in unparse(x[2])) for x in all_fields) \
            or any('kw_only' in unparse(d_) for k in c.mro() for d_ in k.node.decorator_list) or not bases_known or not _is_dataclass(c) \
            or any('__init__' in k.methods for k in c.mro())
        # the order of the fields contradicts the legacy tuple only when the tuple is passed positionally (cls(*tuple))
        ctx.add('C06.R3', f'{cname}:fields', ok if (ok or (star and not special)) else None, c,
                f'fields begin ({", ".join(names[:2])})' + ('' if ok else (f'; the legacy tuple is (nest parameter, {second})' if star and not special else ' - the way the legacy tuple reaches the fields is not in the expected form')),
                str(names), positive=not ok and star and not special)
        ok = star
        ctx.add('C06.R3', f'{cname}.from_tuple', ok, ft, 'from_tuple is cls(*tuple)' if ok else f'from_tuple: {unparse(ft.body[-1])}', unparse(ft.body[-1]))
    from ..pattern import find, has

    for cname, one in (('NestsForNestedLogit', 'OneNestForNestedLogit'), ('NestsForCrossNestedLogit', 'OneNestForCrossNestedLogit')):
        c = prog.cls('nests', cname)
        init = c.methods['__init__']
        ok = has(init.node, f"""
if not all((isinstance(_E, {one}) for _E in tuple_of_nests)):
    tuple_of_nests = tuple(({one}.from_tuple(_N) for _N in tuple_of_nests))
super().__init__(choice_set, tuple_of_nests)
""")
        ctx.add('C06.R3', f'{cname}.__init__', ok, init, 'legacy tuples are converted element-wise, in order, before the base constructor runs' if ok else 'conversion of legacy tuples not in the expected form', 'init')
    from ..cfg import cfg_of

    for mod, name, cls, check in BUILDERS_WITH_NESTS:
        f = prog.func(mod, name)
        ut = f.positional_params()[0]
        np_ = 'nests'
        cfg = cfg_of(f.node)
        conv = [n for n in walk_no_nested(f.node) if isinstance(n, ast.Assign) and unparse(n.targets[0]) == np_ and isinstance(n.value, ast.Call) and call_name(n.value) == cls]
        okc = False
        if len(conv) == 1:
            c = conv[0].value
            okc = named_args(c) == {'choice_set': f'list({ut})', 'tuple_of_nests': np_}
            # guarded by `not isinstance(nests, cls)`
            guard = [n for n in walk_no_nested(f.node) if isinstance(n, ast.If) and conv[0] in n.body]
            okc = okc and len(guard) == 1 and unparse(guard[0].test) == f'not isinstance({np_}, {cls})'
            # nothing else touches the nests: the block holds the conversion (and messages), no other statement assigns the name
            if okc:
                from ..core import dotted

                def harmless(st_):
                    if st_ is conv[0]:
                        return True
                    if isinstance(st_, ast.Expr) and isinstance(st_.value, ast.Constant):
                        return True
                    return isinstance(st_, ast.Expr) and isinstance(st_.value, ast.Call) and (dotted(st_.value.func) or '').split('.')[0] in ('logger', 'logging', 'warnings') \
                        and not any(isinstance(x, (ast.NamedExpr, ast.Lambda)) for x in ast.walk(st_))
                stores = [x for x in walk_no_nested(f.node) if isinstance(x, ast.Name) and x.id == np_ and isinstance(x.ctx, (ast.Store, ast.Del))]
                okc = all(harmless(st_) for st_ in guard[0].body) and not guard[0].orelse and len(stores) == 1
        ctx.add('C06.R3', f'{name}:conversion', okc, f, f'legacy nests are converted with {cls}(choice_set=list({ut}), tuple_of_nests={np_})' if okc else f'conversion of legacy nests in {name} not in the expected form', unparse(conv[0]) if conv else 'missing')
        # conversion and validity check dominate every loop over nests
        loops = [n for n in walk_no_nested(f.node) if isinstance(n, ast.For) and unparse(iterated(n.iter)) in (np_, f'{np_}.alone')]
        b = find(f.node, f"""
_OK, _MSG = {np_}.{check}()
if not _OK:
    raise __ERR
""")
        chk = [n for n in walk_no_nested(f.node) if b and isinstance(n, ast.If) and unparse(n.test) == f'not {b["_OK"]}' and any(isinstance(x, ast.Raise) and 'BiogemeError' in unparse(x) for x in n.body)]
        chk_call = [n for n in walk_no_nested(f.node) if isinstance(n, ast.Assign) and isinstance(n.value, ast.Call) and unparse(n.value.func) == f'{np_}.{check}']
        okd = bool(loops) and len(chk) == 1 and len(chk_call) == 1
        if okd and conv:
            guard_if = [n for n in walk_no_nested(f.node) if isinstance(n, ast.If) and conv[0] in n.body][0]
            for lp in loops:
                okd = okd and cfg.dominates(cfg.node_of(guard_if), cfg.node_of(lp)) and cfg.dominates(cfg.node_of(chk[0]), cfg.node_of(lp)) \
                    and cfg.dominates(cfg.node_of(chk_call[0]), cfg.node_of(chk[0])) and cfg.dominates(cfg.node_of(guard_if), cfg.node_of(chk_call[0]))
        ctx.add('C06.R3', f'{name}:order', okd, f, f'conversion, then {check}() with BiogemeError on failure, then the loops over the nests' if okd else f'{name}: conversion / {check} do not dominate the loops over the nests', 'order')
    ctx.floor('C06.R3', 16)


_N = 'src/biogeme/models/nested.py'
_C = 'src/biogeme/models/cnl.py'
_NE = 'src/biogeme/nests.py'
MUTANTS = [
    dict(name='pre-fix: G uses util[i] for alternatives alone', rule='C06.R1', file=_N, old='            terms_for_nests.append(exp(util[i]))', new='            terms_for_nests.append(util[i])'),
    dict(name='alone terms added once per nest (seed C06/1)', rule='C06.R1', file=_N,
         old='    if nests.alone is not None:\n        for i in nests.alone:\n            terms_for_nests.append(exp(util[i]))',
         new='        if nests.alone is not None:\n            for i in nests.alone:\n                terms_for_nests.append(exp(util[i]))'),
    dict(name='G nest term without the outer power', rule='C06.R1', file=_N, old='        terms_for_nests.append(the_sum ** (1.0 / m.nest_param))', new='        terms_for_nests.append(the_sum)'),
    dict(name='scaled CNL term: alpha**(1/mu) instead of alpha**(mu_m/mu)', rule='C06.R2', file=_C,
         old='                a ** (m.nest_param / mu)\n                * exp((m.nest_param - 1) * (util[i]))', new='                a ** (1.0 / mu)\n                * exp((m.nest_param - 1) * (util[i]))'),
    dict(name='scaled nested member term: (mu/mu_m - 2) log S', rule='C06.R2', file=_N,
         old='                + (m.nest_param - 1.0) * util[i]\n                + (mu / m.nest_param - 1.0) * log(the_sum)', new='                + (m.nest_param - 1.0) * util[i]\n                + (mu / m.nest_param - 2.0) * log(the_sum)'),
    dict(name='unscaled CNL uses log (seed C06/2)', rule='C06.R4', file=_C, old='        log_gi[k] = logzero(bioMultSum(G))', new='        log_gi[k] = log(bioMultSum(G))'),
    dict(name='dataclass fields of a nest swapped', rule='C06.R3', file=_NE,
         old='    nest_param: ExpressionOrNumeric\n    list_of_alternatives: list[int]\n    name: str | None = None', new='    list_of_alternatives: list[int]\n    nest_param: ExpressionOrNumeric\n    name: str | None = None'),
    dict(name='legacy conversion uses the nests as choice set', rule='C06.R3', file=_C,
         old='        nests = NestsForCrossNestedLogit(choice_set=list(util), tuple_of_nests=nests)\n\n    ok, message = nests.check_validity()\n    if not ok:\n        raise BiogemeError(message)\n\n    gi_terms: dict',
         new='        nests = NestsForCrossNestedLogit(choice_set=list(nests), tuple_of_nests=nests)\n\n    ok, message = nests.check_validity()\n    if not ok:\n        raise BiogemeError(message)\n\n    gi_terms: dict'),
    dict(name='G: availability conditions of the choice set zipped with the terms of the nest', rule='C06.R5', file=_N,
         old='            sum_terms = [\n                ConditionalTermTuple(\n                    condition=availability[i] != Numeric(0),\n                    term=exp(m.nest_param * util[i]),\n                )\n'
             '                for i in m.list_of_alternatives\n            ]\n            the_sum = ConditionalSum(list_of_terms=sum_terms)\n        terms_for_nests.append(the_sum ** (1.0 / m.nest_param))',
         new='            plain = [exp(m.nest_param * util[i]) for i in m.list_of_alternatives]\n            sum_terms = [\n                ConditionalTermTuple(condition=availability[i] != Numeric(0), term=t)\n'
             '                for i, t in zip(nests.choice_set, plain)\n            ]\n            the_sum = ConditionalSum(list_of_terms=sum_terms)\n        terms_for_nests.append(the_sum ** (1.0 / m.nest_param))'),
    dict(name='validity verdict ignored', rule='C06.R3', file=_N,
         old='    ok, message = nests.check_partition()\n    if not ok:\n        raise excep.BiogemeError(message)\n\n    terms_for_nests = []', new='    ok, message = nests.check_partition()\n\n    terms_for_nests = []'),
]
NEUTRAL = [
    dict(name='scaled alone term written mu*V - V + log(mu)', file=_N,
         old='        log_gi = {i: log(mu) + (mu - 1) * util[i] for i in nests.alone}\n    for m in nests:\n        if availability is None:\n            sum_terms = [exp(m.nest_param * util[i]) for i in m.list_of_alternatives]\n            the_sum = bioMultSum(sum_terms)\n\n',
         new='        log_gi = {i: mu * util[i] - util[i] + log(mu) for i in nests.alone}\n    for m in nests:\n        if availability is None:\n            sum_terms = [exp(m.nest_param * util[i]) for i in m.list_of_alternatives]\n            the_sum = bioMultSum(sum_terms)\n\n'),
    dict(name='G alone loop variable renamed', file=_N,
         old='        for i in nests.alone:\n            terms_for_nests.append(exp(util[i]))', new='        for alt in nests.alone:\n            terms_for_nests.append(exp(util[alt]))'),
]
